"""C10 -- non-negative decompositions return entrywise non-negative factors / weights / core on the declared modes.

Part A (predicates, a test): the six entry points of /repo are run on signed / non-negative / sparse / integer / all-negative /
low-rank data, orders 2-4, iteration caps 0..K, built-in and entrywise non-negative user initialisations, normalisation on/off,
subsets of non-negative modes, sparsity coefficients, exact flag, fixed modes, both core solvers, PARAFAC2 with and without
line search; every returned entry of a DECLARED mode must be >= 0 (NaN fails); undeclared modes are not inspected.
Part B (correspondence; since round 5 the complete MU-CP / HALS-CP / Tucker-HALS runs go through the entry functions of Model/NonnegOptions.v with the RAW
fixed_modes / nn_modes / sparsity options, and corr:C10-static runs the proved sign analysis on the bodies regenerated from the current source):
the formula layer of Model/Nonneg.v is executed inside Coq over Q (Corr/C10.v) on the inputs given to the
implementation and compared, toleranced, with the implementation's outputs: complete non_negative_parafac runs (user init, tol=0),
hals_nnls sweeps, fista iterations, cp_normalize, tucker_normalize, the non_negative_tucker factor/core update of one sweep
(numerators / denominators recomputed here with numpy from the returned Gauss-Seidel state) and the PARAFAC2 line-search step."""
import json, math, os, random, warnings
from fractions import Fraction
import numpy as np
from harness import common as C

HEADER = """From Coq Require Import List ZArith QArith Bool. Import ListNotations.
From TLV Require Import Base.Shape Base.PyList Base.Tensor Base.Ops Model.Nonneg Model.NonnegSign Model.NonnegFlow Model.NonnegOptions Model.NonnegP2Ls Model.NonnegCcpSpec Model.NonnegMask Corr.C10.
Local Open Scope nat_scope."""
EPD = "tensorly.decomposition."
ENTRY = {"nn_cp_mu": EPD + "non_negative_parafac", "nn_cp_hals": EPD + "non_negative_parafac_hals",
         "nn_tucker_mu": EPD + "non_negative_tucker", "nn_tucker_hals": EPD + "non_negative_tucker_hals",
         "ccp": EPD + "constrained_parafac", "parafac2": EPD + "parafac2"}
PRED = "declared_modes_entrywise_nonnegative"


# ----------------------------------------------------------------------------- data
def gen_tensor(rng, shape, klass):
    n = int(np.prod(shape))
    g = np.array([rng.gauss(0, 1) for _ in range(n)]).reshape(shape)
    if klass == "signed":
        return g
    if klass == "nonneg":
        return np.abs(g) + 0.01
    if klass == "negative":
        return -np.abs(g) - 0.01
    if klass == "sparse":
        m = np.array([rng.random() < 0.35 for _ in range(n)]).reshape(shape)
        x = g * m
        if not x.any():
            x.flat[rng.randrange(n)] = 1.5
        return x
    if klass == "sparse_nonneg":
        m = np.array([rng.random() < 0.4 for _ in range(n)]).reshape(shape)
        x = np.abs(g) * m
        if not x.any():
            x.flat[rng.randrange(n)] = 1.5
        return x
    if klass == "integer":
        x = np.array([float(rng.randint(-4, 4)) for _ in range(n)]).reshape(shape)
        if not x.any():
            x.flat[0] = 2.0
        return x
    if klass == "signperm":
        # generalized permutation structure: singular vectors with disjoint one-signed supports
        x = np.zeros(shape)
        idx = [list(range(s)) for s in shape]
        for k in range(min(shape)):
            x[tuple(i[k] for i in idx)] = rng.choice([-1.0, 1.0]) * (k + 1 + rng.random())
        return x
    if klass == "lowrank":
        r = rng.randint(1, 2)
        fs = [np.array([[rng.random() for _ in range(r)] for _ in range(s)]) for s in shape]
        x = np.zeros(shape)
        for k in range(r):
            t = fs[0][:, k]
            for f in fs[1:]:
                t = np.multiply.outer(t, f[:, k])
            x = x + t
        return x
    raise KeyError(klass)


CLASSES = ["signed", "nonneg", "negative", "sparse", "sparse_nonneg", "integer", "signperm", "lowrank"]


def nn_matrix(rng, rows, cols, zero_col=False):
    m = np.array([[rng.choice([0.0, rng.random(), rng.random() * 3]) if rng.random() < 0.25 else rng.random() + 0.05
                   for _ in range(cols)] for _ in range(rows)])
    if zero_col and cols > 0:
        m[:, rng.randrange(cols)] = 0.0
    return m


def user_cp_init(rng, shape, rank, unit_weights=None):
    zc = rng.random() < 0.2
    fs = [nn_matrix(rng, s, rank, zero_col=zc and rng.random() < 0.5) for s in shape]
    unit = rng.random() < 0.5 if unit_weights is None else unit_weights
    w = np.ones(rank) if unit else np.array([rng.choice([0.0, 0.5, 2.0, rng.random() + 0.1]) for _ in range(rank)])
    return w, fs


def user_tucker_init(rng, shape, ranks):
    fs = [nn_matrix(rng, s, r, zero_col=rng.random() < 0.15) for s, r in zip(shape, ranks)]
    core = np.array([rng.choice([0.0, rng.random()]) if rng.random() < 0.2 else rng.random() + 0.05
                     for _ in range(int(np.prod(ranks)))]).reshape(ranks)
    return core, fs


# ----------------------------------------------------------------------------- running one configuration
def declared_modes(cfg, n_modes):
    a = cfg["algo"]
    if a in ("nn_cp_mu", "nn_tucker_mu", "nn_tucker_hals"):
        return list(range(n_modes))
    nn = cfg.get("nn_modes")
    if a == "ccp":
        if nn is True:
            return list(range(n_modes))
        if isinstance(nn, (list, tuple)):           # a per-mode list: the truthy positions
            return [m for m, v in enumerate(nn) if v and m < n_modes]
        return sorted(set(int(k) % n_modes for k, v in (nn or {}).items() if v))      # negative keys count from the end; False values declare nothing
    if nn == "all":
        return list(range(n_modes))
    return sorted(set(int(m) for m in (nn or [])))


def build_init(cfg):
    ini = cfg["init"]
    if isinstance(ini, str):
        return ini
    if cfg["algo"] in ("nn_tucker_mu", "nn_tucker_hals"):
        return (np.array(ini["core"], copy=True), [np.array(f, copy=True) for f in ini["factors"]])
    if cfg["algo"] == "parafac2":
        return (np.array(ini["weights"], copy=True), [np.array(f, copy=True) for f in ini["factors"]],
                [np.array(p, copy=True) for p in ini["projections"]])
    return (np.array(ini["weights"], copy=True), [np.array(f, copy=True) for f in ini["factors"]])


def run_cfg(cfg):
    """returns dict(weights=..., core=..., factors=[...])"""
    from tensorly.decomposition import (non_negative_parafac, non_negative_parafac_hals, non_negative_tucker,
                                        non_negative_tucker_hals, constrained_parafac, parafac2)
    a = cfg["algo"]
    X = cfg["tensor"]
    X = [np.array(s, copy=True) for s in X] if isinstance(X, list) else np.array(X, copy=True)
    init = build_init(cfg)
    o = cfg["opts"]
    fixed = None if o.get("fixed_modes") is None else list(o["fixed_modes"])
    if a == "nn_cp_mu":
        kw = {}
        if o.get("mask") is not None:
            kw["mask"] = np.array(o["mask"], copy=True)
        r = non_negative_parafac(X, cfg["rank"], n_iter_max=cfg["n"], init=init, tol=o["tol"], random_state=cfg["rs"],
                                 normalize_factors=o["normalize"], fixed_modes=fixed, cvg_criterion=o.get("cvg", "abs_rec_error"), **kw)
        return {"weights": r[0], "factors": list(r[1])}
    if a == "nn_cp_hals":
        sp = o.get("sparsity")
        r = non_negative_parafac_hals(X, cfg["rank"], n_iter_max=cfg["n"], init=init, tol=o["tol"], random_state=cfg["rs"],
                                      normalize_factors=o["normalize"], fixed_modes=fixed, nn_modes=cfg["nn_modes"],
                                      sparsity_coefficients=None if sp is None else list(sp), exact=o.get("exact", False),
                                      cvg_criterion=o.get("cvg", "abs_rec_error"))
        return {"weights": r[0], "factors": list(r[1])}
    if a == "nn_tucker_mu":
        r = non_negative_tucker(X, cfg["rank"], n_iter_max=cfg["n"], init=init, tol=o["tol"], random_state=cfg["rs"],
                                normalize_factors=o["normalize"])
        return {"core": r[0], "factors": list(r[1])}
    if a == "nn_tucker_hals":
        sp = o.get("sparsity")
        r = non_negative_tucker_hals(X, cfg["rank"], n_iter_max=cfg["n"], init=init, tol=o["tol"], random_state=cfg["rs"],
                                     normalize_factors=o["normalize"], fixed_modes=fixed, algorithm=o["algorithm"],
                                     sparsity_coefficients=None if sp is None else list(sp),
                                     core_sparsity_coefficient=o.get("core_sparsity"), exact=o.get("exact", False))
        return {"core": r[0], "factors": list(r[1])}
    if a == "ccp":
        nn = cfg["nn_modes"]
        nn = True if nn is True else [bool(v) for v in nn] if isinstance(nn, (list, tuple)) else {int(k): bool(v) for k, v in nn.items()}
        r = constrained_parafac(X, cfg["rank"], n_iter_max=cfg["n"], n_iter_max_inner=o.get("inner", 10), init=init,
                                random_state=cfg["rs"], non_negative=nn, fixed_modes=fixed, tol_outer=o["tol"],
                                **{k: v for k, v in (o.get("other") or {}).items()})
        return {"weights": r[0], "factors": list(r[1])}
    if a == "parafac2":
        ls = o["linesearch"]
        if isinstance(ls, dict):        # {"user_nn_modes": ...}: a _BroThesisLineSearch INSTANCE created by the caller with its own nn_modes
            ls = make_user_linesearch(X, ls["user_nn_modes"])
        r = parafac2(X, cfg["rank"], n_iter_max=cfg["n"], init=init, tol=o["tol"], random_state=cfg["rs"],
                     normalize_factors=o["normalize"], nn_modes=cfg["nn_modes"], linesearch=ls,
                     n_iter_parafac=o.get("n_iter_parafac", 5))
        return {"weights": r[0], "factors": list(r[1])}
    raise KeyError(a)


def make_user_linesearch(X, ls_nn):
    from tensorly.decomposition._parafac2 import _BroThesisLineSearch
    slices = X if isinstance(X, list) else list(X)
    norm = float(np.sqrt(sum(np.linalg.norm(np.asarray(s_)) ** 2 for s_ in slices)))
    return _BroThesisLineSearch(norm, "truncated_svd", nn_modes=list(ls_nn) if isinstance(ls_nn, (list, tuple)) else ls_nn)


def mode_list(nn, n_modes=3):
    return list(range(n_modes)) if nn == "all" else sorted(set(int(m) for m in (nn or [])))


def sign_failures(cfg, out):
    """the property predicate: list of (what, message); NaN is not >= 0"""
    fails = []
    n_modes = len(out["factors"])
    for m in declared_modes(cfg, n_modes):
        if m >= n_modes:
            continue
        f = np.asarray(out["factors"][m], dtype=float)
        bad = ~(f >= 0)
        if bad.any():
            i = np.argwhere(bad)[0]
            fails.append((f"factor{m}", f"factor of declared mode {m} has {int(bad.sum())} entries that are not >= 0, e.g. [{', '.join(map(str, i))}] = {f[tuple(i)]!r}"))
    for name in ("weights", "core"):
        v = out.get(name)
        if v is None:
            continue
        if name == "weights" and not declared_modes(cfg, n_modes):
            continue
        v = np.asarray(v, dtype=float)
        bad = ~(v >= 0)
        if bad.any():
            fails.append((name, f"{name} has {int(bad.sum())} entries that are not >= 0, e.g. {v[bad].ravel()[0]!r}"))
    return fails


def cfg_public(cfg):
    d = {k: v for k, v in cfg.items()}
    return d


# ----------------------------------------------------------------------------- known findings
# none: the four defects this check found (NNDSVD 0/0, PARAFAC2 line search on mode 1, PARAFAC2 signed built-in start, FISTA step 1/0)
# have been repaired in /repo (see known_findings.d/C10.json "fixed"); their witnesses are regression inputs in corpus/C10.
def arr(x):
    if isinstance(x, dict):
        return C.from_jsonable_array(x)
    return np.asarray(x, dtype=float)


def clf_user_linesearch_lacks_declared_modes(f):
    """parafac2 with a caller-made _BroThesisLineSearch instance whose own nn_modes do not contain every declared mode, and every failing factor is one
    of the declared modes the instance does not clip (the weights are never affected)"""
    inp = f.get("inputs", {})
    ls = (inp.get("opts") or {}).get("linesearch")
    if inp.get("algo") != "parafac2" or not isinstance(ls, dict):
        return False
    lacking = set(mode_list(inp.get("nn_modes"))) - set(mode_list(ls.get("user_nn_modes")))
    what = (f.get("extra") or {}).get("what") or []
    return bool(lacking) and bool(what) and all(w in {f"factor{m}" for m in lacking} for w in what)


CLASSIFIERS = {"parafac2_user_linesearch_lacks_declared_modes": clf_user_linesearch_lacks_declared_modes}


# ----------------------------------------------------------------------------- configuration generator (part A)
def shapes_for(order, rng, big=False):
    hi = 5 if big else 4
    return tuple(rng.randint(2, hi) for _ in range(order))


def gen_configs(tier, rng):
    nrep = 1 if tier == "quick" else 6
    caps = [0, 1, 2, 3, 6]
    for rep in range(nrep):
        for klass in CLASSES:
            for order in (2, 3, 4):
                shape = shapes_for(order, rng, big=(tier != "quick"))
                if order == 4:
                    shape = tuple(min(s, 3) for s in shape)
                X = gen_tensor(rng, shape, klass)
                rank = rng.choice([1, 2, 3])
                rs = rng.randrange(10 ** 6)
                # ---------------- non_negative_parafac (MU)
                for ini in ("svd", "random", "user"):
                    n = rng.choice(caps)
                    fixed = None
                    if ini == "user" and rng.random() < 0.4:
                        fixed = [rng.randrange(order - 1)]
                    init = ini
                    if ini == "user":
                        w, fs = user_cp_init(rng, shape, rank)
                        init = {"weights": w, "factors": fs}
                    mask = None
                    if rng.random() < 0.15:
                        mask = (np.array([rng.random() < 0.8 for _ in range(X.size)]).reshape(shape)).astype(float)
                    yield dict(algo="nn_cp_mu", tensor=X, klass=klass, rank=rank, init=init, n=n, rs=rs, nn_modes="all",
                               opts=dict(tol=rng.choice([0, 1e-7, 1e-2]), normalize=rng.random() < 0.5, fixed_modes=fixed, mask=mask,
                                         cvg=rng.choice(["abs_rec_error", "rec_error"])))
                # ---------------- non_negative_parafac_hals
                for ini in ("svd", "random", "user"):
                    n = rng.choice(caps)
                    nn = rng.choice(["all", None, "subset", "subset", "single"])
                    if nn == "subset":
                        nn = sorted(rng.sample(range(order), rng.randint(1, order)))
                    elif nn == "single":
                        nn = [rng.randrange(order)]
                    fixed = None
                    init = ini
                    if ini == "user":
                        w, fs = user_cp_init(rng, shape, rank)
                        init = {"weights": w, "factors": fs}
                        if rng.random() < 0.4:
                            fixed = [rng.randrange(order - 1)]
                    sp = None
                    if rng.random() < 0.4:
                        sp = [rng.choice([None, 0.0, 0.1, 2.0]) for _ in range(order)]
                    yield dict(algo="nn_cp_hals", tensor=X, klass=klass, rank=rank, init=init, n=n, rs=rs, nn_modes=nn,
                               opts=dict(tol=rng.choice([0, 1e-8, 1e-2]), normalize=rng.random() < 0.5, fixed_modes=fixed, sparsity=sp,
                                         exact=(rng.random() < 0.15 and X.size <= 24 and n <= 1 and rank <= 2), cvg=rng.choice(["abs_rec_error", "rec_error"])))
                # ---------------- Tucker
                ranks = [rng.randint(1, min(3, s)) for s in shape]
                for ini in ("svd", "random", "user"):
                    init = ini
                    if ini == "user":
                        core, fs = user_tucker_init(rng, shape, ranks)
                        init = {"core": core, "factors": fs}
                    yield dict(algo="nn_tucker_mu", tensor=X, klass=klass, rank=list(ranks), init=init, n=rng.choice(caps), rs=rs, nn_modes="all",
                               opts=dict(tol=rng.choice([0, 1e-4]), normalize=rng.random() < 0.5))
                    init2 = ini
                    fixed = None
                    if ini == "user":
                        core, fs = user_tucker_init(rng, shape, ranks)
                        init2 = {"core": core, "factors": fs}
                        if rng.random() < 0.4:
                            fixed = [rng.randrange(order - 1)]
                    sp = None
                    if rng.random() < 0.4:
                        sp = [rng.choice([None, 0.0, 0.1, 2.0]) for _ in range(order)]
                    yield dict(algo="nn_tucker_hals", tensor=X, klass=klass, rank=list(ranks), init=init2, n=rng.choice([0, 1, 2, 3, 4]), rs=rs, nn_modes="all",
                               opts=dict(tol=rng.choice([0, 1e-8]), normalize=rng.random() < 0.5, fixed_modes=fixed, sparsity=sp,
                                         algorithm=rng.choice(["fista", "active_set"]), core_sparsity=rng.choice([None, None, 0.1]),
                                         exact=False))
                # ---------------- constrained_parafac(non_negative=...)
                for ini in ("svd", "random", "user"):
                    nn = True if rng.random() < 0.4 else {str(m): True for m in sorted(rng.sample(range(order), rng.randint(1, order)))}
                    init = ini
                    fixed = None
                    if ini == "user":
                        w, fs = user_cp_init(rng, shape, rank)
                        init = {"weights": w, "factors": fs}
                        if rng.random() < 0.3:
                            fixed = [rng.randrange(order - 1)]
                    other = None
                    if nn is not True and rng.random() < 0.3:
                        free = [m for m in range(order) if str(m) not in nn]
                        if free:
                            other = {"l2_square_reg": {free[0]: 0.5}}
                    yield dict(algo="ccp", tensor=X, klass=klass, rank=rank, init=init, n=rng.choice([0, 1, 2, 4]), rs=rs, nn_modes=nn,
                               opts=dict(tol=rng.choice([0, 1e-8]), inner=rng.choice([1, 3, 10]), fixed_modes=fixed, other=other))
            # ---------------- parafac2 (order 3 / list of slices)
            for ini in ("random", "svd", "user", "random"):
                I, K = rng.randint(2, 4), rng.randint(2, 4)
                R = rng.randint(1, min(K, 3))
                if rng.random() < 0.5:
                    J = rng.randint(R, 5)
                    X = gen_tensor(rng, (I, J, K), klass)
                    rows = [J] * I
                else:
                    rows = [rng.randint(R, 5) for _ in range(I)]
                    X = [gen_tensor(rng, (j, K), klass) for j in rows]
                nn = rng.choice(["all", [0], [2], [0, 2], [1], [0, 1, 2], [0, 1], [1, 2]])
                ls = rng.random() < 0.6
                n = rng.choice([0, 1, 2, 5, 7, 9, 11] if ls else [0, 1, 2, 3, 7])
                init = ini
                if ini == "svd" and (sum(rows) if isinstance(X, list) else X.shape[0] * X.shape[1]) < 1:
                    init = "random"
                if ini == "user":
                    w = np.ones(R) if rng.random() < 0.5 else np.array([rng.random() + 0.2 for _ in range(R)])
                    fs = [nn_matrix(rng, I, R), nn_matrix(rng, R, R), nn_matrix(rng, K, R)]
                    projs = [np.linalg.qr(np.array([[rng.gauss(0, 1) for _ in range(R)] for _ in range(j)]))[0] for j in rows]
                    init = {"weights": w, "factors": fs, "projections": projs}
                yield dict(algo="parafac2", tensor=X, klass=klass, rank=R, init=init, n=n, rs=rng.randrange(10 ** 6), nn_modes=nn,
                           opts=dict(tol=rng.choice([1e-300, 1e-8]), normalize=rng.random() < 0.4, linesearch=ls,
                                     n_iter_parafac=rng.choice([1, 5])))


def gen_linesearch_configs(tier, rng):
    """PARAFAC2 runs that reach accepted line-search steps (iterations 6, 8, 10) with modes 0 / 2 declared"""
    for k in range(16 if tier == "quick" else 120):
        I, K = rng.randint(2, 4), rng.randint(2, 4)
        R = rng.randint(1, min(K, 3))
        J = rng.randint(max(R, 2), 5)
        klass = rng.choice(["signed", "signed", "sparse", "nonneg", "lowrank"])
        X = gen_tensor(rng, (I, J, K), klass)
        yield dict(algo="parafac2", tensor=X, klass=klass, rank=R, init="random", n=rng.choice([7, 9, 11]), rs=rng.randrange(10 ** 6),
                   nn_modes=rng.choice([[0], [2], [0, 2], [1], [0, 1, 2], "all"]),
                   opts=dict(tol=1e-300, normalize=rng.random() < 0.3, linesearch=True, n_iter_parafac=rng.choice([1, 2, 5])))


def gen_signed_svd_tucker_configs(tier, rng):
    """non_negative_tucker / _hals, init='svd', standard-normal (substantially signed) data, caps 0 / 1 / 5: the sign of the CORE
    (multi_mode_dot(tensor, factors) of signed data is signed: only the abs of the initialiser and the clipped updates make it feasible)"""
    shapes = [(3, 4), (4, 3, 3), (3, 3, 2, 2), (5, 4, 3)] if tier == "quick" else [(3, 4), (4, 3, 3), (3, 3, 2, 2), (5, 4, 3), (2, 2), (6, 5), (4, 4, 4), (2, 3, 2, 3)]
    for rep in range(1 if tier == "quick" else 4):
        for shape in shapes:
            X = np.array([rng.gauss(0, 1) for _ in range(int(np.prod(shape)))]).reshape(shape)
            ranks = [rng.randint(1, min(3, s)) for s in shape]
            if rep % 2 == 1:
                ranks = [min(2, s) for s in shape]
            for cap in (0, 1, 5):
                rs = rng.randrange(10 ** 6)
                yield dict(algo="nn_tucker_mu", tensor=X, klass="gauss", rank=list(ranks), init="svd", n=cap, rs=rs, nn_modes="all",
                           opts=dict(tol=rng.choice([0, 1e-5]), normalize=rng.random() < 0.3))
                for alg in ("fista", "active_set"):
                    yield dict(algo="nn_tucker_hals", tensor=X, klass="gauss", rank=list(ranks), init="svd", n=cap, rs=rs, nn_modes="all",
                               opts=dict(tol=rng.choice([0, 1e-8]), normalize=rng.random() < 0.3, fixed_modes=None, sparsity=None,
                                         algorithm=alg, core_sparsity=None, exact=False))


def gen_parafac2_linesearch_02_configs(tier, rng):
    """parafac2(nn_modes=[0, 2]) with the default line search on signed slices and odd caps 7 / 9 / 11: the last executed sweep (6, 8, 10) is a
    line-search sweep, an accepted jump returns the extrapolated iterate itself.  Accepted jumps with a negative extrapolation are rare
    (~3-8% of runs: sparse signed data and a single inner PARAFAC iteration are the most productive), hence many cheap runs."""
    nrun = 140 if tier == "quick" else 600
    for k in range(nrun):
        I, J, K = rng.randint(2, 4), rng.randint(2, 5), rng.randint(2, 4)
        R = rng.randint(1, min(J, K, 3))
        g = np.array([rng.gauss(0, 1) for _ in range(I * J * K)]).reshape(I, J, K)
        kind = "sparse" if k % 3 != 2 else "gauss"
        if kind == "sparse":
            g = g * np.array([rng.random() < 0.5 for _ in range(I * J * K)]).reshape(I, J, K)
            if not g.any():
                g[0, 0, 0] = 1.0
        X = g if k % 5 else [g[i][: rng.randint(R, J)] if False else g[i] for i in range(I)]
        yield dict(algo="parafac2", tensor=X, klass=kind, rank=R, init=rng.choice(["random", "random", "svd"]), n=(7, 9, 11)[k % 3], rs=rng.randrange(10 ** 6),
                   nn_modes=[0, 2], opts=dict(tol=1e-300, normalize=(k % 7 == 0), linesearch=True, n_iter_parafac=(5 if k % 9 == 0 else 1)))


def gen_hals_lastfixed_configs(tier, rng):
    """non_negative_parafac_hals from a user (weights, factors) with the LAST mode fixed (the weights are then pulled into the last updated mode by the
    entry point itself, not by initialize_cp), weights far from 1, caps 0 / 1: at cap 0 the absorbed start is what is returned"""
    for k in range(10 if tier == "quick" else 60):
        order = rng.choice([2, 3, 3])
        shape = tuple(rng.randint(2, 4) for _ in range(order))
        rank = rng.choice([1, 2, 3])
        klass = rng.choice(["signed", "nonneg", "sparse"])
        X = gen_tensor(rng, shape, klass)
        fs = [nn_matrix(rng, s_, rank) for s_ in shape]
        w = np.array([rng.choice([3.0, 2.5, 0.5, 4.0, 1.0]) for _ in range(rank)])
        fixed = [order - 1] + ([rng.randrange(order - 1)] if order == 3 and rng.random() < 0.3 else [])
        yield dict(algo="nn_cp_hals", tensor=X, klass=klass + ":lastfixed", rank=rank, init={"weights": w, "factors": fs}, n=rng.choice([0, 0, 1]),
                   rs=rng.randrange(10 ** 6), nn_modes=rng.choice(["all", "all", sorted(set(range(order)) - set(fixed))]),
                   opts=dict(tol=0, normalize=rng.random() < 0.4, fixed_modes=sorted(fixed), sparsity=None, exact=False, cvg="abs_rec_error"))


def gen_convergence_exit_configs(tier, rng):
    """every entry point with a LARGE tolerance and caps 3-5: the convergence exit (`break` after the stopping test, with its own normalisation branch) is
    what returns, on signed data that the model fits badly (large final error)"""
    for k in range(2 if tier == "quick" else 10):
        for algo in ("nn_cp_mu", "nn_cp_hals", "nn_tucker_mu", "nn_tucker_hals", "nn_tucker_hals", "ccp", "parafac2"):
            order = 3 if algo == "parafac2" else rng.choice([2, 3])
            shape = tuple(rng.randint(2, 4) for _ in range(order))
            klass = rng.choice(["signed", "signed", "sparse", "negative"])
            X = gen_tensor(rng, shape, klass)
            rank = rng.choice([1, 2])
            nm = rng.random() < 0.5
            n = rng.choice([3, 4, 5])
            base = dict(tensor=X, klass=klass + ":cvg", rs=rng.randrange(10 ** 6), n=n)
            if algo == "nn_cp_mu":
                yield dict(base, algo=algo, rank=rank, init=rng.choice(["svd", "random"]), nn_modes="all",
                           opts=dict(tol=0.5, normalize=nm, fixed_modes=None, mask=None, cvg=rng.choice(["abs_rec_error", "rec_error"])))
            elif algo == "nn_cp_hals":
                yield dict(base, algo=algo, rank=rank, init=rng.choice(["svd", "random"]), nn_modes="all",
                           opts=dict(tol=0.5, normalize=nm, fixed_modes=None, sparsity=None, exact=False, cvg=rng.choice(["abs_rec_error", "rec_error"])))
            elif algo == "nn_tucker_mu":
                yield dict(base, algo=algo, rank=[min(2, s_) for s_ in shape], init=rng.choice(["svd", "random"]), nn_modes="all", opts=dict(tol=0.5, normalize=nm))
            elif algo == "nn_tucker_hals":
                yield dict(base, algo=algo, rank=[min(2, s_) for s_ in shape], init=rng.choice(["svd", "random"]), nn_modes="all",
                           opts=dict(tol=0.5, normalize=nm, fixed_modes=None, sparsity=None, algorithm="fista" if k % 2 == 0 else "active_set", core_sparsity=None, exact=False))
            elif algo == "ccp":
                yield dict(base, algo=algo, rank=rank, init=rng.choice(["svd", "random"]), nn_modes=True, opts=dict(tol=0.5, inner=3, fixed_modes=None, other=None))
            else:
                yield dict(base, algo=algo, rank=min(rank, shape[1], shape[2]), init="random", nn_modes=rng.choice(["all", [0, 2]]),
                           opts=dict(tol=0.5, normalize=nm, linesearch=False, n_iter_parafac=2))


def gen_sparsity_bound_configs(tier, rng):
    """round 7: non_negative_parafac_hals / non_negative_tucker_hals with sparsity_coefficients GIVEN (all > 0, scalar-like lists) on signed data, caps 1-3, tol 0: the HALS
    row update clips many entries onto the bound 0, where the order of the l1 shift and the projection decides the sign (shift after the projection = -sparsity / UtU[k, k])"""
    for k in range(6 if tier == "quick" else 40):
        order = rng.choice([2, 3])
        shape = tuple(rng.randint(2, 4) for _ in range(order))
        X = gen_tensor(rng, shape, rng.choice(["signed", "signed", "sparse", "negative"]))
        sp = [rng.choice([0.05, 0.5, 2.0]) for _ in range(order)]
        rank = rng.choice([1, 2, 3])
        w, fs = user_cp_init(rng, shape, rank, unit_weights=True)
        yield dict(algo="nn_cp_hals", tensor=X, klass="sparsity-bound", rank=rank, init=rng.choice(["random", {"weights": w, "factors": fs}]), n=rng.choice([1, 2, 3]),
                   rs=rng.randrange(10 ** 6), nn_modes=rng.choice(["all", "all", [0]]),
                   opts=dict(tol=0, normalize=rng.random() < 0.3, fixed_modes=None, sparsity=sp, exact=False, cvg="abs_rec_error"))
        ranks = [rng.randint(1, min(2, s_)) for s_ in shape]
        yield dict(algo="nn_tucker_hals", tensor=X, klass="sparsity-bound", rank=list(ranks), init=rng.choice(["random", "svd"]), n=rng.choice([1, 2]), rs=rng.randrange(10 ** 6),
                   nn_modes="all", opts=dict(tol=0, normalize=rng.random() < 0.3, fixed_modes=None, sparsity=sp, algorithm=rng.choice(["fista", "active_set"]),
                                             core_sparsity=rng.choice([None, 0.1]), exact=False))


def gen_ccp_spec_configs(tier, rng):
    """round 7: constrained_parafac with the PER-MODE forms of non_negative: a list of booleans (possibly shorter than the order), a dictionary with negative mode
    keys, a dictionary with False values, mixed with another constraint on an undeclared mode"""
    for k in range(10 if tier == "quick" else 60):
        order = rng.choice([2, 3, 3])
        shape = tuple(rng.randint(2, 4) for _ in range(order))
        X = gen_tensor(rng, shape, rng.choice(["signed", "signed", "sparse", "negative", "nonneg"]))
        rank = rng.choice([1, 2])
        form = rng.choice(["list", "list", "shortlist", "negkey", "falseval"])
        if form == "list":
            nn = [rng.random() < 0.6 for _ in range(order)]
            if not any(nn):
                nn[rng.randrange(order)] = True
        elif form == "shortlist":
            nn = [True] + [rng.random() < 0.5 for _ in range(order - 2)]
        elif form == "negkey":
            nn = {str(-rng.randint(1, order)): True}
        else:
            ms = rng.sample(range(order), 2)
            nn = {str(ms[0]): True, str(ms[1]): False}
        other = None
        free = [m for m in range(order) if m not in declared_modes(dict(algo="ccp", nn_modes=nn), order)
                and not (isinstance(nn, dict) and any(int(k_) % order == m for k_ in nn))]
        if free and rng.random() < 0.3 and not isinstance(nn, list):
            other = {"l2_square_reg": {free[0]: 0.5}}
        init = rng.choice(["svd", "random", "user"])
        if init == "user":
            w, fs = user_cp_init(rng, shape, rank)
            init = {"weights": w, "factors": fs}
        yield dict(algo="ccp", tensor=X, klass="ccp-spec:" + form, rank=rank, init=init, n=rng.choice([0, 1, 2, 4]), rs=rng.randrange(10 ** 6), nn_modes=nn,
                   opts=dict(tol=rng.choice([0, 1e-8]), inner=rng.choice([1, 3, 10]), fixed_modes=None, other=other))


def gen_parafac2_user_ls_configs(tier, rng):
    """round 7: parafac2(nn_modes=...) with a _BroThesisLineSearch INSTANCE made by the caller (odd caps 7 / 9 / 11: the last sweep is a line-search sweep).  When the
    instance's own nn_modes contain every declared mode the property must hold; when they do not, an accepted jump returns an unclipped extrapolation of a declared
    mode: known finding parafac2_user_linesearch_own_nn_modes (Coq: C10_parafac2_user_linesearch_refuted / C10_parafac2_user_linesearch)"""
    for k in range(36 if tier == "quick" else 240):
        I, J, K = rng.randint(2, 4), rng.randint(2, 5), rng.randint(2, 4)
        R = rng.randint(1, min(J, K, 3))
        g = np.array([rng.gauss(0, 1) for _ in range(I * J * K)]).reshape(I, J, K)
        if k % 3 != 2:
            g = g * np.array([rng.random() < 0.5 for _ in range(I * J * K)]).reshape(I, J, K)
            if not g.any():
                g[0, 0, 0] = 1.0
        nn = rng.choice([[0, 2], [0, 2], [2], [0], "all", [0, 1, 2], [1, 2]])
        covering = k % 2 == 0
        if covering:
            ls_nn = rng.choice([nn, "all", sorted(set(mode_list(nn)) | {rng.randrange(3)})])
        else:
            ls_nn = rng.choice([None, None, [], [1], mode_list(nn)[:-1]])
        yield dict(algo="parafac2", tensor=g, klass="user-linesearch:" + ("covering" if covering else "lacking"), rank=R, init=rng.choice(["random", "random", "svd"]),
                   n=(7, 9, 11)[k % 3], rs=rng.randrange(10 ** 6), nn_modes=nn,
                   opts=dict(tol=1e-300, normalize=(k % 7 == 0), linesearch={"user_nn_modes": ls_nn}, n_iter_parafac=(5 if k % 9 == 0 else 1)))


def gen_tucker_mu_signed_configs(tier, rng):
    """round 8: non_negative_tucker (multiplicative updates) on tensors with NEGATIVE entries, caps 1 / 2 / 3, tol 0, every built-in start and an entrywise positive
    user start: the projection of signed data onto the current non-negative factors (the numerator of the CORE update, tucker_to_tensor((tensor, factors),
    transpose_factors=True)) has negative components, as have the numerators of the factor updates: only the clips of the numerators keep core and factors >= 0"""
    for k in range(10 if tier == "quick" else 60):
        order = (2, 3, 3, 2, 4)[k % 5]
        shape = tuple(rng.randint(2, 4 if order < 4 else 3) for _ in range(order))
        # all-negative / mostly negative data with an ODD cap are the decisive inputs (every numerator is negative; with an even cap two sign errors can cancel)
        klass = ("signed", "negative", "mostly-negative", "negative", "sparse")[k % 5]
        X = gen_tensor(rng, shape, "negative" if klass == "mostly-negative" else klass)
        if klass == "mostly-negative":
            X.flat[rng.randrange(X.size)] = 0.5 + rng.random()
        if not (X < 0).any():
            X.flat[rng.randrange(X.size)] = -1.0 - rng.random()
        ranks = [rng.randint(1, min(3, s_)) for s_ in shape]
        ini = ("random", "user", "svd")[(k // 5 + k % 5) % 3] if klass != "negative" else ("random", "user")[(k // 5) % 2]
        if ini == "user":
            core, fs = user_tucker_init(rng, shape, ranks)
            ini = {"core": core + 0.05, "factors": [f + 0.05 for f in fs]}
        n = (1, 3)[(k // 5) % 2] if klass in ("negative", "mostly-negative") else (1, 2, 3)[k % 3]
        yield dict(algo="nn_tucker_mu", tensor=X, klass="mu-signed:" + klass, rank=list(ranks), init=ini, n=n, rs=rng.randrange(10 ** 6), nn_modes="all",
                   opts=dict(tol=0, normalize=(k % 4 == 3)))


def gen_tucker_hals_core_sparsity_configs(tier, rng):
    """round 8: non_negative_tucker_hals(algorithm='fista') with a LARGE core_sparsity_coefficient on signed / sparse data, caps 2-4, tol 0: many core entries are driven onto the
    bound by the l1 shift, where the FISTA momentum iterate x_new + beta (x_new - x) is negative from the second inner iteration on (beta = 0 in the first): only the
    projected iterate may be returned"""
    for k in range(6 if tier == "quick" else 36):
        order = (2, 3, 3)[k % 3]
        shape = tuple(rng.randint(3, 4) for _ in range(order))
        ranks = [rng.randint(2, 3) for _ in shape]
        X = gen_tensor(rng, shape, ("signed", "sparse", "nonneg", "lowrank")[k % 4])
        yield dict(algo="nn_tucker_hals", tensor=X, klass="core-sparsity", rank=list(ranks), init=("random", "svd")[k % 2], n=(2, 3, 4)[k % 3], rs=rng.randrange(10 ** 6),
                   nn_modes="all", opts=dict(tol=0, normalize=(k % 5 == 4), fixed_modes=None, sparsity=None, algorithm="fista", core_sparsity=rng.choice([0.5, 2.0, 5.0]), exact=False))


def quiet_run(cfg):
    with warnings.catch_warnings():
        warnings.simplefilter("ignore")
        with np.errstate(all="ignore"):
            return run_cfg(cfg)


def evaluate_cfg(chk, cfg, stats):
    a = cfg["algo"]
    X = cfg["tensor"]
    shape = (len(X), "slices") if isinstance(X, list) else tuple(X.shape)
    ini = cfg["init"] if isinstance(cfg["init"], str) else "user"
    chk.hist("algo", a); chk.hist("class", cfg["klass"]); chk.hist("init", ini); chk.hist("n_iter_max", cfg["n"])
    st, out = C.call_impl(quiet_run, cfg, timeout=60)
    chk.hist("outcome", st)
    nontrivial = True
    chk.count(key=(a, shape, cfg["klass"], ini, cfg["n"], str(cfg["nn_modes"]), json.dumps(C.jsonable(cfg["opts"]), sort_keys=True)[:200]), nontrivial=nontrivial)
    if st != "ok":
        stats["not_ok"].append((a, cfg["klass"], ini, str(out)[:120]))
        return
    fails = sign_failures(cfg, out)
    if fails:
        inputs = dict(cfg)
        inputs["init"] = cfg["init"]
        chk.finding(ENTRY[a], inputs, "; ".join(m for _, m in fails), PRED, observed={k: v for k, v in out.items()},
                    extra={"what": [w for w, _ in fails]})
    stats["checked"] += 1
    n_modes = len(out["factors"])
    dm = declared_modes(cfg, n_modes)
    chk.hist("declared_modes", len(dm))
    # is the test discriminating on this case?  (some undeclared factor or the data is signed)
    if any((np.asarray(out["factors"][m]) < 0).any() for m in range(n_modes) if m not in dm):
        stats["undeclared_negative"] += 1


# ----------------------------------------------------------------------------- solver-level predicates (solvers/nnls.py)
ENTRY_SOLVER = {"hals_nnls": "tensorly.solvers.nnls.hals_nnls", "fista": "tensorly.solvers.nnls.fista",
                "active_set_nnls": "tensorly.solvers.nnls.active_set_nnls"}


def run_solver(cfg):
    from tensorly.solvers.nnls import hals_nnls, fista, active_set_nnls
    s = cfg["solver"]
    A = lambda k: None if cfg.get(k) is None else np.array(arr(cfg[k]), copy=True)
    if s == "hals_nnls":
        return hals_nnls(A("UtM"), A("UtU"), A("V"), n_iter_max=cfg["n"], tol=cfg["tol"], sparsity_coefficient=cfg.get("sparsity"),
                         ridge_coefficient=cfg.get("ridge"), epsilon=cfg["epsilon"], exact=False)
    if s == "fista":
        return fista(A("UtM"), A("UtU"), x=A("x"), n_iter_max=cfg["n"], non_negative=True, sparsity_coef=cfg.get("sparsity", 0),
                     ridge_coef=cfg.get("ridge", 0), lr=cfg.get("lr"), tol=cfg["tol"], epsilon=cfg["epsilon"])
    if s == "active_set_nnls":
        return active_set_nnls(A("UtM").reshape(-1), A("UtU"), x=A("x"), n_iter_max=cfg["n"], tol=cfg["tol"])
    raise KeyError(s)


def solver_failures(cfg, out):
    """transcriptions of C10_hals_nnls_nonneg / C10_hals_sweep_ge / C10_fista_ge / C10_fista_nonneg / C10_active_set_nonneg"""
    out = np.asarray(out, float)
    s, n = cfg["solver"], cfg["n"]
    fails = []
    if s == "hals_nnls":
        V0 = arr(cfg["V"]); G = arr(cfg["UtU"]); eps = cfg["epsilon"]
        if eps >= 0 and (V0 >= 0).all() and not (out >= 0).all():
            fails.append("non-negative start and epsilon >= 0 but the result has entries that are not >= 0")
        if n >= 1:
            for k in range(G.shape[0]):
                if G[k, k] != 0 and not (out[k] >= eps).all():
                    fails.append(f"row {k} (non-zero diagonal of UtU) has entries below epsilon={eps!r} after {n} sweeps: {out[k].min()!r}")
                    break
    elif s == "fista":
        eps = cfg["epsilon"]
        if n >= 1 and not (out >= eps).all():
            fails.append(f"entries below epsilon={eps!r} after {n} iterations: {np.nanmin(out)!r}")
        if n == 0 and eps >= 0 and cfg.get("x") is not None and (arr(cfg["x"]) >= 0).all() and not (out >= 0).all():
            fails.append("non-negative start, no iteration, but the result is not >= 0")
    elif s == "active_set_nnls":
        x0 = cfg.get("x")
        start_ok = x0 is None or (arr(x0) >= 0).all()
        if (n >= 1 or start_ok) and not (out >= 0).all():
            fails.append(f"result has entries that are not >= 0: {np.nanmin(out) if not np.isnan(out).all() else float('nan')!r}")
    return fails


def gen_solver_cfgs(tier, rng):
    nrep = 120 if tier == "quick" else 600
    for k in range(nrep):
        r = rng.randint(1, 4)
        m = rng.randint(r, r + 3)
        A = np.array([[rng.gauss(0, 1) for _ in range(r)] for _ in range(m)])
        kind = rng.choice(["generic", "generic", "nonneg", "rankdef", "zerocol", "illcond"])
        if kind == "nonneg":
            A = np.abs(A)
        elif kind == "rankdef" and r > 1:
            A[:, -1] = A[:, 0] * rng.choice([1.0, -2.0])
        elif kind == "zerocol":
            A[:, rng.randrange(r)] = 0.0
        elif kind == "illcond" and r > 1:
            A[:, -1] = A[:, 0] + 1e-7 * A[:, -1]
        G = A.T @ A
        ncol = rng.randint(1, 3)
        M = np.array([[rng.gauss(0, 1) for _ in range(ncol)] for _ in range(m)]) * rng.choice([1.0, 1.0, -1.0]) \
            if rng.random() < 0.7 else -np.abs(np.array([[rng.gauss(0, 1) for _ in range(ncol)] for _ in range(m)]))
        UtM = A.T @ M
        yield dict(solver="hals_nnls", UtM=UtM, UtU=G, n=rng.choice([1, 2, 5, 100]), tol=rng.choice([0, 1e-8]),
                   V=(np.abs(np.array([[rng.gauss(0, 1) for _ in range(ncol)] for _ in range(r)])) * rng.choice([0.0, 1.0])
                      if rng.random() < 0.6 else np.array([[rng.gauss(0, 1) for _ in range(ncol)] for _ in range(r)])),
                   sparsity=rng.choice([None, None, 0.5, 5.0]), ridge=rng.choice([None, None, 0.5]),
                   epsilon=rng.choice([0.0, 0.0, 1e-12, 0.3]), kind=kind)
        x0 = rng.choice(["none", "nonneg", "signed", "zero"])
        xv = {"none": None, "nonneg": np.abs(np.array([rng.gauss(0, 1) for _ in range(r)])),
              "signed": np.array([rng.gauss(0, 1) for _ in range(r)]), "zero": np.zeros(r)}[x0]
        yield dict(solver="fista", UtM=UtM[:, 0], UtU=G, x=xv, n=rng.choice([0, 1, 2, 5, 50]), tol=rng.choice([0, 1e-8]),
                   sparsity=rng.choice([0, 0, 0.5]), ridge=rng.choice([0, 0, 0.5]), lr=rng.choice([None, 0.01, 1.0, 10.0]) if kind not in ("zerocol",) or r > 1 else 0.1,
                   epsilon=rng.choice([1e-8, 0.0, 0.3]), kind=kind)
        yield dict(solver="active_set_nnls", UtM=UtM[:, 0], UtU=G, x=xv, n=rng.choice([0, 1, 2, 3, 100]), tol=rng.choice([10e-8, 0]), kind=kind)


def evaluate_solver(chk, cfg, stats):
    def call():
        with warnings.catch_warnings():
            warnings.simplefilter("ignore")
            with np.errstate(all="ignore"):
                return run_solver(cfg)
    st, out = C.call_impl(call, timeout=60)
    chk.hist("solver", cfg["solver"]); chk.hist("solver_outcome", st)
    chk.count(key=("solver", cfg["solver"], cfg["kind"], cfg["n"], np.asarray(cfg["UtU"]).shape), nontrivial=True)
    if st != "ok":
        stats["not_ok"].append((cfg["solver"], cfg["kind"], "-", str(out)[:120]))
        return
    if not np.all(np.isfinite(np.asarray(out, float))) and cfg["kind"] in ("rankdef", "zerocol", "illcond"):
        stats["solver_nonfinite_degenerate"] = stats.get("solver_nonfinite_degenerate", 0) + 1
        return      # singular systems: LAPACK may return inf/nan without raising; outside the property (no finite solve)
    fails = solver_failures(cfg, out)
    if fails:
        chk.finding(ENTRY_SOLVER[cfg["solver"]], dict(cfg), "; ".join(fails), "solver_output_nonnegative", observed=out)
    stats["checked"] += 1


# ----------------------------------------------------------------------------- machinery
def merge_known():
    """make the entries of known_findings.d/C10.json visible even before the coordinator has merged them"""
    p = os.path.join(C.VERIF, "known_findings.d", "C10.json")
    extra = json.load(open(p)).get("findings", []) if os.path.exists(p) else []
    orig = C.load_known
    if getattr(orig, "_c10", False):
        return
    def load(prop):
        ks = orig(prop)
        if prop == "C10":
            ks = ks + [e for e in extra if e["id"] not in {k["id"] for k in ks}]
        return ks
    load._c10 = True
    C.load_known = load


def drop_header_pseudo_axiom(chk):
    """common.print_assumptions parses the header line 'Axioms:' of Coq's output as an axiom called 'Axioms';
    remove exactly that pseudo entry (real non-stdlib axioms are still reported)."""
    chk.axioms = {k: [a for a in v if a != "Axioms"] for k, v in chk.axioms.items()}
    chk.broken = [b for b in chk.broken if not (str(b.get("what", "")).endswith("depends on non-stdlib axioms") and b.get("detail") == ["Axioms"])]


def run(chk):
    import time, resource
    def cpu():
        a, b = resource.getrusage(resource.RUSAGE_SELF), resource.getrusage(resource.RUSAGE_CHILDREN)
        return a.ru_utime + a.ru_stime + b.ru_utime + b.ru_stime
    stages, t0, c0 = {}, time.time(), cpu()
    def stage(name):
        nonlocal t0, c0
        stages[name] = {"wall_s": round(time.time() - t0, 1), "cpu_s": round(cpu() - c0, 1)}
        t0, c0 = time.time(), cpu()
    rng = random.Random(chk.seed)
    merge_known()
    chk.build_proofs()
    drop_header_pseudo_axiom(chk)
    stage("build_and_print_assumptions")
    C.reset_backends()
    stats = {"not_ok": [], "checked": 0, "undeclared_negative": 0}
    for cfg in load_corpus():
        evaluate_cfg(chk, cfg, stats)
    for cfg in gen_configs(chk.tier, rng):
        evaluate_cfg(chk, cfg, stats)
    for cfg in gen_linesearch_configs(chk.tier, rng):
        evaluate_cfg(chk, cfg, stats)
    for cfg in gen_signed_svd_tucker_configs(chk.tier, rng):
        evaluate_cfg(chk, cfg, stats)
    for cfg in gen_parafac2_linesearch_02_configs(chk.tier, rng):
        evaluate_cfg(chk, cfg, stats)
    for cfg in gen_hals_lastfixed_configs(chk.tier, rng):
        evaluate_cfg(chk, cfg, stats)
    for cfg in gen_convergence_exit_configs(chk.tier, rng):
        evaluate_cfg(chk, cfg, stats)
    rng7 = random.Random(chk.seed * 7919 + 7)          # round 7 streams draw from their own generator (the older streams keep their cases for a given seed)
    for gen in (gen_sparsity_bound_configs, gen_ccp_spec_configs, gen_parafac2_user_ls_configs):
        for cfg in gen(chk.tier, rng7):
            evaluate_cfg(chk, cfg, stats)
    for cfg in gen_tucker_mu_signed_configs(chk.tier, random.Random(chk.seed * 7919 + 8)):      # round 8 stream, own generator
        evaluate_cfg(chk, cfg, stats)
    for cfg in gen_tucker_hals_core_sparsity_configs(chk.tier, random.Random(chk.seed * 7919 + 9)):
        evaluate_cfg(chk, cfg, stats)
    for cfg in gen_solver_cfgs(chk.tier, rng):
        evaluate_solver(chk, cfg, stats)
    stage("decomposition_runs")
    run_correspondence(chk, rng)
    stage("correspondence")
    chk.cov["stages"] = stages
    chk.cov["exhaustive"] = False
    chk.cov["rule"] = ("part A: corpus (witnesses of the four repaired defects) + 8 data classes {signed, non-negative, all-negative, sparse, sparse non-negative, integer, "
                       "signed generalized permutation, low-rank} x orders 2-4 (dims 2-4, thorough 2-5, x6 repetitions) x {svd, random, entrywise non-negative user init with zero columns / "
                       "non-unit weights} x caps {0,1,2,3,6} for non_negative_parafac, non_negative_parafac_hals (nn_modes all/None/subsets, sparsity, exact, fixed modes), non_negative_tucker, "
                       "non_negative_tucker_hals (fista / active_set, sparsity, fixed modes), constrained_parafac(non_negative = True / mode dict, inner caps 1/3/10), parafac2 (tensor or ragged "
                       "slices, nn_modes incl. 'all', line search on/off, caps 0-11) + dedicated line-search runs + non_negative_tucker(_hals) with init='svd' on standard-normal data at caps 0/1/5 "
                       "+ parafac2(nn_modes=[0,2], default line search) on signed / sparse slices at odd caps 7/9/11 (140 / 600 runs) + non_negative_parafac_hals with the last mode fixed and weights far from 1 at caps 0/1 "
                       "+ every entry point with tol=0.5 at caps 3-5 (the convergence exits) + round 7 streams (own generator): non_negative_parafac_hals / _tucker_hals with sparsity_coefficients > 0 on signed data "
                       "(entries on the bound), constrained_parafac with per-mode boolean lists / negative dictionary keys / False values, parafac2 with a caller-made _BroThesisLineSearch whose own nn_modes cover / lack the "
                       "declared modes (lacking: known finding) + direct solver calls; predicate: every entry of a declared mode, weights, core >= 0; "
                       "a case is non-trivial always (no all-size-1 / all-zero tensors are generated); distinct key = (entry point, shape, class, init, cap, nn_modes, options). "
                       "part B: dyadic few-bit inputs (formula layer, MU runs) / float inputs (fixed-point runs, initialisers, constrained_parafac, one PARAFAC2 outer iteration), model evaluated "
                       "inside Coq, tolerance atol + 1e-9 (|a|+|b|). corr:C10-static: the bodies of non_negative_parafac, non_negative_parafac_hals (nn_modes='all'), non_negative_tucker, "
                       "non_negative_tucker_hals are re-translated from the current source by an ast translator into programs of Model/NonnegSign.v and the sign analysis (sound by "
                       "C10_sign_analysis_sound) is evaluated on them inside Coq: every assignment of the body, in any order, keeps weights / factors / core entrywise >= 0; corr:C10-flow: see FLOW_TARGETS "
                       "(round 7: peeled active_set_nnls from a signed start, hals_nnls / fista flow-sensitively, constrained_parafac per registered mode, line_step for any nn_modes list); round 7 executed ops: OP2RunG "
                       "(partial nn_modes, own / user line search), OCcpE (raw non_negative argument), OHalsCpE with updated modes that are not declared; round 8: part A stream non_negative_tucker (MU) on "
                       "all-negative / mostly negative / signed / sparse data at caps 1-3 (odd caps for the all-negative data), executed ops OMuCpMask (non_negative_parafac with a 0/1 mask: imputation by the current "
                       "reconstruction before every mode update, exact rationals), OHalsCold (hals_nnls with V=None on the recorded tl.solve answer, toleranced), OHalsNzr (nonzero_rows=True on inputs where binary "
                       "floating point is exact, compared with atol 0); part A stream non_negative_tucker_hals (fista) with a large core_sparsity_coefficient at caps 2-4 (6 / 36 runs)")
    chk.assumptions = ["exact-arithmetic semantics: floating-point rounding is not modelled (bounded empirically by the toleranced comparison); IEEE inf / NaN are outside the model",
                       "every data- or LAPACK-dependent quantity of the iteration skeletons is an arbitrary function argument (the theorems quantify over all of them); only the formula layer "
                       "and the complete multiplicative-update runs are executed against the implementation",
                       "tl.norm is the Euclidean norm: a rational square root with ~157 correct bits in the executed model, sqrt over R in the proofs",
                       "runs in which the implementation raises (singular solves on degenerate data) return nothing and are not judged"]
    chk.trusted += ["round 7 translator rules: peel (a named loop runs at least once; C10_flow_peel_exact), msplit (one mode per iteration of a mode loop; registered modes = those with constraint 'non_negative'; "
                    "`order` is the index variable - checked; self-map X[c] = E(X[c]); `for mode in self.nn_modes` replaces every declared array)",
                    "the ast translator harness/props/C10_sign.py (Python expression -> bag-of-entries expression; versioning of re-assigned locals; alias classes for element updates; "
                    "`return a, b` returns the decomposition first; the specialisation `mode in nn_modes` = True for nn_modes='all')",
                    "numpy einsum recomputation of the non_negative_tucker numerators (conditioning test and the formula-level OMuTk cases)",
                    "OMuCpMask: masks with entries in {0, 1} only (C10_masked_imputation_idempotent is what makes the state-function oracle equal to the code's cumulative overwrite); "
                    "OHalsCold: the answer of tl.solve is recorded by interposing tl.solve inside the harness process",
                    "the momentum coefficients of fista are recomputed in Python (data independent) and passed to the model as exact rationals"]
    chk.cov["decomposition_runs_checked"] = stats["checked"]
    chk.cov["runs_with_negative_entries_on_undeclared_modes"] = stats["undeclared_negative"]
    chk.cov["runs_raising"] = len(stats["not_ok"])
    import collections as _c
    chk.notes += [f"raised x{n}: {k}" for k, n in _c.Counter((a, str(msg)[:70]) for a, _k, _i, msg in stats["not_ok"]).most_common(15)]
    return chk.finish(CLASSIFIERS)


def decode_cfg(inp):
    cfg = dict(inp)
    X = inp["tensor"]
    cfg["tensor"] = [arr(s) for s in X] if isinstance(X, list) else arr(X)
    if not isinstance(inp["init"], str):
        cfg["init"] = {k: ([arr(x) for x in v] if isinstance(v, list) else arr(v)) for k, v in inp["init"].items()}
    if cfg["opts"].get("mask") is not None:
        cfg["opts"] = dict(cfg["opts"]); cfg["opts"]["mask"] = arr(cfg["opts"]["mask"])
    return cfg


def load_corpus():
    d = os.path.join(C.VERIF, "corpus", "C10")
    out = []
    if os.path.isdir(d):
        for fn in sorted(os.listdir(d)):
            if fn.endswith(".json"):
                cfg = decode_cfg(json.load(open(os.path.join(d, fn))))
                cfg["klass"] = "corpus:" + fn[:-5]
                out.append(cfg)
    return out


def replay(payload):
    if payload.get("kind") != "failing-input":
        print("replay file names a broken theorem/correspondence, not an input:", payload.get("theorem_or_correspondence"))
        return 1
    inp = payload["inputs"]
    if "slices" in inp and "last" in inp:
        from tensorly.decomposition._parafac2 import _BroThesisLineSearch
        C.reset_backends()
        nn = inp["nn_modes"]
        ls = _BroThesisLineSearch(1.0, "truncated_svd", nn_modes=nn, acc_pow=inp["acc_pow"])
        last, cur = [arr(x) for x in inp["last"]], [arr(x) for x in inp["cur"]]
        if inp.get("after_rejected_jump"):
            it0 = inp["iteration"]
            C.call_impl(lambda: ls.line_step(it0 - 2 if it0 > 6 else it0, [arr(x) for x in inp["slices"]], [f.copy() for f in last], np.ones(last[0].shape[1]),
                                             [f.copy() for f in cur], [arr(x) for x in inp["projections"]], -np.inf), timeout=120)
        st, r = C.call_impl(lambda: ls.line_step(inp["iteration"], [arr(x) for x in inp["slices"]], last, np.ones(last[0].shape[1]), cur,
                                                 [arr(x) for x in inp["projections"]], np.inf), timeout=120)
        if st != "ok":
            print("replay: raised", r)
            return 1
        bad = [m for m in ([0, 1, 2] if nn == "all" else nn) if not (np.asarray(r[0][m]) >= 0).all()]
        print("replay: line_step ->", bad or "holds")
        return 1 if bad else 0
    if "solver" in inp:
        cfg = dict(inp)
        C.reset_backends()
        st, out = C.call_impl(lambda: run_solver(cfg), timeout=120)
        if st != "ok":
            print("replay: raised", out)
            return 1
        fails = solver_failures(cfg, out)
        print("replay:", cfg["solver"], "->", fails or "holds")
        return 1 if fails else 0
    cfg = decode_cfg(inp)
    C.reset_backends()
    st, out = C.call_impl(quiet_run, cfg, timeout=120)
    if st != "ok":
        print("replay: raised", out)
        return 1
    fails = sign_failures(cfg, out)
    print("replay:", cfg["algo"], "->", fails or "holds")
    return 1 if fails else 0


# ============================================================================= part B: correspondence with Model/Nonneg.v (executed in Coq)
ATOL_TINY = Fraction(1, 10 ** 40)


def dy(rng, lo, hi, den=4):
    """a dyadic number with few bits (keeps the exact rationals of the Coq run small)"""
    return rng.randint(int(lo * den), int(hi * den)) / den


def dy_mat(rng, rows, cols, lo, hi, den=4, zero_prob=0.0):
    return np.array([[0.0 if rng.random() < zero_prob else dy(rng, lo, hi, den) for _ in range(cols)] for _ in range(rows)]).reshape(rows, cols)


def qmat_lit(M):
    M = np.asarray(M, float)
    if M.ndim == 1:
        M = M.reshape(1, -1)
    if M.shape[0] == 0:
        return "(@nil (list Q))"
    return "[" + "; ".join(C.q_list([float(x) for x in r]) for r in M) + "]"


def qmats_lit(Ms):
    return "[" + "; ".join(qmat_lit(M) for M in Ms) + "]" if len(Ms) else "(@nil (list (list Q)))"


def qvec_lit(v):
    return C.q_list([float(x) for x in np.asarray(v, float).reshape(-1)])


def case_lit(cid, op, atol, w, Fs):
    return f"({cid}%nat, {op}, {C.q(atol)}, {qvec_lit(w)}, {qmats_lit(Fs)})"


def finite_all(*arrs):
    return all(np.all(np.isfinite(np.asarray(a, float))) for a in arrs)


IMPL_REJECTS = []      # valid calls of the raw-option correspondences on which the implementation raised (the generators construct accepted inputs: 0 in 618 calls on the unchanged tree)


def optfixed_lit(fixed):
    return "(@None (list nat))" if fixed is None else f"(Some {C.nat_list(list(fixed))})"


def spopt_lit(sps):
    if sps is None:
        return "SpNone"
    if isinstance(sps, float):
        return f"(SpScalar {C.q(sps)})"
    return f"(SpList {opt_list_lit(sps)})"


def quiet_call(f, timeout=60):
    def g():
        with warnings.catch_warnings():
            warnings.simplefilter("ignore")
            return f()
    return C.call_impl(g, timeout=timeout)


COST_SKIPPED = []      # cases not handed to Coq because their predicted model-evaluation cost is over budget (counted in the evidence; the random stream is not affected)


COND_SKIPPED = []      # complete HALS runs not judged because a component collapsed to rounding level (counted as ill-conditioned)


def collapsed_component(factors, what):
    """a returned factor column that is non-zero but at rounding level (max |entry| < 1e-9 x the largest entry of the decomposition): the HALS row update tests `if UtU[k, k]`
    (skip the row when the Gram diagonal is exactly zero), a decision that binary floating point (2e-16 left over by a cancellation) and exact arithmetic (exactly 0) take
    differently; everything after it differs by O(1).  Such a run is ill-conditioned for the toleranced comparison: counted, not judged."""
    fs = [np.asarray(f, float) for f in factors]
    scale = max([float(np.abs(f).max()) for f in fs if f.size] + [1e-300])
    for f in fs:
        if f.ndim == 2:
            cm = np.abs(f).max(axis=0)
            if ((cm > 0) & (cm < 1e-9 * scale)).any():
                COND_SKIPPED.append(what)
                return True
    return False


class _SweepCounter:
    """counts the inner hals_nnls sweeps of one decomposition call (harness-level interposition on the decomposition modules, /repo untouched): the cost of the
    model evaluation is proportional to it (every sweep is replayed at the fixed-point carrier, twice)"""
    def __enter__(self):
        from tensorly.decomposition import _nn_cp, _tucker
        self.mods, self.n = [(_nn_cp, _nn_cp.hals_nnls), (_tucker, _tucker.hals_nnls)], 0
        def make(orig):
            def wrapped(*a, **k):
                if k.get("callback") is None:
                    def cb(V, e):
                        self.n += 1
                    k = dict(k, callback=cb)
                return orig(*a, **k)
            return wrapped
        for m_, orig in self.mods:
            m_.hals_nnls = make(orig)
        return self

    def __exit__(self, *exc):
        for m_, orig in self.mods:
            m_.hals_nnls = orig


def corr_mu_cp(rng, tier):
    """complete runs of non_negative_parafac from a user initialisation, tol=0 (exactly n sweeps)"""
    from tensorly.decomposition import non_negative_parafac
    import tensorly as tl
    eps = float(tl.eps(np.float64))
    out = []
    nrun = 12 if tier == "quick" else 60
    heavy = 0
    for k in range(nrun):
        order = rng.choice([2, 3, 3])
        shape = tuple(rng.randint(2, 3) for _ in range(order))
        rank = rng.choice([1, 2])
        if tier == "quick" and order == 3 and rank == 2:       # order 3 x rank 2 in exact rationals can cost 6 CPU s: one such run per quick check
            heavy += 1
            rank = 2 if heavy == 1 else 1
        klass = rng.choice(["signed", "signed", "nonneg", "sparse", "negative"])
        if klass == "signed":
            X = dy_mat(rng, 1, int(np.prod(shape)), -3, 3).reshape(shape)
        elif klass == "nonneg":
            X = dy_mat(rng, 1, int(np.prod(shape)), 0, 3).reshape(shape)
        elif klass == "negative":
            X = dy_mat(rng, 1, int(np.prod(shape)), -3, -0.25).reshape(shape)
        else:
            X = dy_mat(rng, 1, int(np.prod(shape)), -3, 3, zero_prob=0.6).reshape(shape)
        Fs = [dy_mat(rng, s, rank, 0.25, 2, zero_prob=0.15) for s in shape]
        w = np.ones(rank) if rng.random() < 0.6 else np.array([rng.choice([0.5, 2.0, 1.0, 0.0 if rank > 1 else 1.5]) for _ in range(rank)])
        nm = rng.random() < 0.5 and not (order == 3 and rank > 1)      # normalised order-3 rank-2 runs cost minutes in exact rationals
        u = rng.random()
        fixed = None if u < 0.35 else [] if u < 0.6 else [rng.randrange(order)] if u < 0.9 else sorted({rng.randrange(order), order - 1})
        n = rng.choice([0, 1, 1, 2] if (order == 2 and (rank == 1 or (not nm and tier != "quick"))) else [0, 1, 1])    # exact rationals grow fast with the depth
        if tier == "quick" and nm and order == 3 and n >= 1:      # 107-bit square roots through an order-3 sweep: ~7 CPU s in exact rationals (thorough only)
            COST_SKIPPED.append("non_negative_parafac order 3 normalised")
            continue
        st, r = quiet_call(lambda: non_negative_parafac(X.copy(), rank, n_iter_max=n, init=(w.copy(), [f.copy() for f in Fs]), tol=0,
                                                        normalize_factors=nm, fixed_modes=None if fixed is None else list(fixed)))
        if st == "reject":
            IMPL_REJECTS.append({"corr": "non_negative_parafac", "raised": r, "tensor": X, "weights": w, "factors": Fs, "normalize": nm, "fixed": fixed, "n": n})
        if st != "ok" or not finite_all(r[0], *r[1]):
            continue
        op = (f"(OMuCpE {C.q(eps)} {C.qtensor(shape, [float(x) for x in X.reshape(-1)])} {qvec_lit(w)} {qmats_lit(Fs)} "
              f"{C.boolc(nm)} {optfixed_lit(fixed)} {n}%nat)")
        meta = {"corr": "non_negative_parafac", "tensor": X, "weights": w, "factors": Fs, "normalize": nm, "fixed": fixed, "n": n}
        out.append((op, ATOL_TINY, r[0], list(r[1]), meta))
    return out


def corr_hals(rng, tier):
    from tensorly.solvers.nnls import hals_nnls
    out = []
    nrun = 30 if tier == "quick" else 200
    for k in range(nrun):
        r, n = rng.randint(1, 3), rng.randint(1, 4)
        A = dy_mat(rng, rng.randint(r, r + 2), r, -2, 2, zero_prob=0.2)
        if rng.random() < 0.25:
            A[:, rng.randrange(r)] = 0.0               # a zero diagonal entry of UtU: the row update is skipped
        UtU = A.T @ A
        UtM = dy_mat(rng, r, n, -4, 4)
        Vkind = rng.choice(["nonneg", "nonneg", "signed", "zero"])
        V = dy_mat(rng, r, n, 0, 2) if Vkind == "nonneg" else dy_mat(rng, r, n, -2, 2) if Vkind == "signed" else np.zeros((r, n))
        eps = rng.choice([0.0, 0.0, 1e-8, 0.5, 2.0 ** -52])
        sp = rng.choice([None, None, 0.0, 0.25, 3.0])
        rg = rng.choice([None, None, 0.5, 2.0])
        it = rng.choice([1, 1, 2, 3])
        st, Vout = C.call_impl(lambda: hals_nnls(UtM.copy(), UtU.copy(), V.copy(), n_iter_max=it, tol=0, sparsity_coefficient=sp,
                                                 ridge_coefficient=rg, epsilon=eps), timeout=60)
        if st != "ok" or not finite_all(Vout):
            continue
        scale = max(1.0, float(np.abs(UtM).max()), float(np.abs(V).max()))
        op = (f"(OHals {C.q(eps)} {C.opt(sp, C.q)} {C.opt(rg, C.q)} {qmat_lit(UtM)} {qmat_lit(UtU)} {qmat_lit(V)} {it}%nat)")
        meta = {"corr": "hals_nnls", "UtM": UtM, "UtU": UtU, "V": V, "epsilon": eps, "sparsity": sp, "ridge": rg, "n_iter_max": it}
        out.append((op, Fraction(scale) / 10 ** 9, [], [Vout], meta))
    return out


def fista_betas(K):
    mo, bs = 1.0, []
    for _ in range(K):
        m = (1 + math.sqrt(1 + 4 * mo ** 2)) / 2
        bs.append((mo - 1) / m)
        mo = m
    return bs


def corr_fista(rng, tier):
    from tensorly.solvers.nnls import fista
    from tensorly.tenalg import kronecker
    out = []
    nrun = 24 if tier == "quick" else 160
    for k in range(nrun):
        multi = rng.random() < 0.4
        if multi:
            dims = [rng.randint(1, 2) for _ in range(rng.choice([2, 3]))]
            Gs = []
            for d in dims:
                A = dy_mat(rng, d + 1, d, -2, 2)
                Gs.append(A.T @ A)
            UtU_arg = [g.copy() for g in Gs]
            UtU_flat = np.asarray(kronecker(Gs))
            shape = tuple(dims)
        else:
            d = rng.randint(1, 4)
            A = dy_mat(rng, d + 1, d, -2, 2)
            UtU_flat = A.T @ A
            UtU_arg = UtU_flat.copy()
            shape = (d,)
        nflat = int(np.prod(shape))
        UtM = dy_mat(rng, 1, nflat, -4, 4).reshape(shape)
        xk = rng.choice(["nonneg", "signed", "zero"])
        x = (dy_mat(rng, 1, nflat, 0, 2) if xk == "nonneg" else dy_mat(rng, 1, nflat, -2, 2) if xk == "signed" else np.zeros((1, nflat))).reshape(shape)
        K = rng.choice([1, 2, 3, 4])
        nonneg = rng.random() < 0.8
        eps = rng.choice([1e-8, 0.0, 0.25])
        sp = rng.choice([0.0, 0.0, 0.5])
        rg = rng.choice([0.0, 0.0, 0.25])
        lr = rng.choice([0.125, 0.0625, 0.5])
        st, xo = C.call_impl(lambda: fista(UtM.copy(), UtU_arg, x=x.copy(), n_iter_max=K, non_negative=nonneg, sparsity_coef=sp,
                                           ridge_coef=rg, lr=lr, tol=0, epsilon=eps), timeout=60)
        if st != "ok" or not finite_all(xo):
            continue
        scale = max(1.0, float(np.abs(UtM).max()), float(np.abs(x).max()), float(np.abs(np.asarray(xo)).max()))
        op = (f"(OFista {C.q(eps)} {C.q(lr)} {C.q(sp)} {C.q(rg)} {C.boolc(nonneg)} {qmat_lit(UtU_flat)} {qvec_lit(UtM)} {qvec_lit(x)} "
              f"{C.q_list(fista_betas(K))})")
        meta = {"corr": "fista", "UtM": UtM, "UtU": UtU_flat, "x": x, "n_iter_max": K, "non_negative": nonneg, "epsilon": eps,
                "sparsity": sp, "ridge": rg, "lr": lr, "multi_mode": multi}
        out.append((op, Fraction(scale) / 10 ** 9, np.asarray(xo).reshape(-1), [], meta))
    return out


def corr_normalize(rng, tier):
    from tensorly.cp_tensor import cp_normalize
    from tensorly.tucker_tensor import tucker_normalize
    out = []
    nrun = 12 if tier == "quick" else 80
    for k in range(nrun):
        order = rng.choice([2, 3])
        shape = tuple(rng.randint(1, 3) for _ in range(order))
        rank = rng.randint(1, 3)
        signed = rng.random() < 0.4
        Fs = [dy_mat(rng, s, rank, -2 if signed else 0, 2, den=8, zero_prob=0.2) for s in shape]
        if rng.random() < 0.3:
            Fs[rng.randrange(order)][:, rng.randrange(rank)] = 0.0
        w = np.array([rng.choice([1.0, 0.5, 2.0, 0.0, 3.0]) for _ in range(rank)])
        st, r = C.call_impl(lambda: cp_normalize((w.copy(), [f.copy() for f in Fs])))
        if st == "ok" and finite_all(r[0], *r[1]):
            op = f"(ONormCp {qvec_lit(w)} {qmats_lit(Fs)})"
            out.append((op, Fraction(1, 10 ** 12), r[0], list(r[1]), {"corr": "cp_normalize", "weights": w, "factors": Fs}))
        ranks = [rng.randint(1, 2) for _ in shape]
        TFs = [dy_mat(rng, s, rk, -2 if signed else 0, 2, den=8, zero_prob=0.2) for s, rk in zip(shape, ranks)]
        if rng.random() < 0.3:
            j = rng.randrange(order)
            TFs[j][:, rng.randrange(ranks[j])] = 0.0
        core = dy_mat(rng, 1, int(np.prod(ranks)), -2 if signed else 0, 2, den=8).reshape(ranks)
        st, r = C.call_impl(lambda: tucker_normalize((core.copy(), [f.copy() for f in TFs])))
        if st == "ok" and finite_all(r[0], *r[1]):
            op = f"(ONormTk {C.qtensor(ranks, [float(x) for x in core.reshape(-1)])} {qmats_lit(TFs)})"
            out.append((op, Fraction(1, 10 ** 12), np.asarray(r[0]).reshape(-1), list(r[1]), {"corr": "tucker_normalize", "core": core, "factors": TFs}))
    return out


def tucker_mu_numden(X, core, Fs, mode):
    """numerator / denominator of the factor update of non_negative_tucker, recomputed with numpy (no TensorLy code)"""
    N = X.ndim
    letters = "abcdefgh"[:N]
    caps = "ABCDEFGH"[:N]
    # B[(other data indices), r_mode] = sum_{r_k, k != mode} core[r...] prod_{k != mode} F_k[i_k, r_k]
    ops, sub = [core], [caps]
    for k in range(N):
        if k != mode:
            ops.append(Fs[k]); sub.append(letters[k] + caps[k])
    outsub = "".join(letters[k] for k in range(N) if k != mode) + caps[mode]
    B = np.einsum(",".join(sub) + "->" + outsub, *ops).reshape(-1, core.shape[mode])
    Xm = np.moveaxis(X, mode, 0).reshape(X.shape[mode], -1)
    num = Xm @ B
    numabs = np.abs(Xm) @ np.abs(B)
    den = Fs[mode] @ (B.T @ B)
    return num, numabs, den


def tucker_mu_core_numden(X, core, Fs):
    N = X.ndim
    letters = "abcdefgh"[:N]
    caps = "ABCDEFGH"[:N]
    sub = [letters] + [letters[k] + caps[k] for k in range(N)]
    num = np.einsum(",".join(sub) + "->" + caps, X, *Fs)
    numabs = np.einsum(",".join(sub) + "->" + caps, np.abs(X), *[np.abs(f) for f in Fs])
    den = core
    lows = "ijklmnop"[:N]
    for k in range(N):
        G = Fs[k].T @ Fs[k]
        den = np.moveaxis(np.tensordot(G, den, axes=(1, k)), 0, k)
    return num, numabs, den


def corr_mu_tucker(rng, tier):
    """one sweep of non_negative_tucker from a user initialisation: every factor update and the core update against the entry formula"""
    from tensorly.decomposition import non_negative_tucker
    out = []
    eps = 10e-12
    nrun = 8 if tier == "quick" else 50
    skipped = 0
    for k in range(nrun):
        order = rng.choice([2, 3])
        shape = tuple(rng.randint(2, 3) for _ in range(order))
        ranks = [rng.randint(1, 2) for _ in shape]
        klass = rng.choice(["signed", "nonneg", "negative", "sparse"])
        lo, hi, zp = {"signed": (-3, 3, 0), "nonneg": (0, 3, 0), "negative": (-3, -0.25, 0), "sparse": (-3, 3, 0.6)}[klass]
        X = dy_mat(rng, 1, int(np.prod(shape)), lo, hi, zero_prob=zp).reshape(shape)
        Fs = [dy_mat(rng, s, r, 0.25, 2, zero_prob=0.15) for s, r in zip(shape, ranks)]
        core = dy_mat(rng, 1, int(np.prod(ranks)), 0.25, 2, zero_prob=0.1).reshape(ranks)
        st, r = C.call_impl(lambda: non_negative_tucker(X.copy(), list(ranks), n_iter_max=1, init=(core.copy(), [f.copy() for f in Fs]),
                                                        tol=0, normalize_factors=False), timeout=60)
        if st != "ok" or not finite_all(r[0], *r[1]):
            continue
        new_core, new_Fs = np.asarray(r[0]), [np.asarray(f) for f in r[1]]
        state = [f.copy() for f in Fs]
        for mode in range(order):
            num, numabs, den = tucker_mu_numden(X, core, state, mode)
            near = (np.abs(num - eps) <= 1e-7 * numabs + 1e-13) & (numabs > 0)
            if near.any():
                skipped += 1
            else:
                op = f"(OMuTk {C.q(eps)} {qmat_lit(state[mode])} {qmat_lit(num)} {qmat_lit(den)})"
                meta = {"corr": "non_negative_tucker factor update", "tensor": X, "core": core, "factors": Fs, "mode": mode}
                out.append((op, Fraction(1, 10 ** 18), [], [new_Fs[mode]], meta))
            state[mode] = new_Fs[mode]
        num, numabs, den = tucker_mu_core_numden(X, core, state)
        near = (np.abs(num - eps) <= 1e-7 * numabs + 1e-13) & (numabs > 0)
        if near.any():
            skipped += 1
        else:
            op = f"(OMuTk {C.q(eps)} {qmat_lit(core.reshape(1, -1))} {qmat_lit(num.reshape(1, -1))} {qmat_lit(den.reshape(1, -1))})"
            meta = {"corr": "non_negative_tucker core update", "tensor": X, "core": core, "factors": Fs}
            out.append((op, Fraction(1, 10 ** 18), [], [new_core.reshape(1, -1)], meta))
    return out, skipped


def tucker_sweep_well_conditioned(X, core, Fs, new_core, new_Fs, eps):
    """no numerator of this sweep (factor updates in Gauss-Seidel order, then the core) lies within rounding distance of the clipping threshold"""
    state = [f.copy() for f in Fs]
    for mode in range(X.ndim):
        num, numabs, den = tucker_mu_numden(X, core, state, mode)
        if ((np.abs(num - eps) <= 1e-6 * numabs + 1e-13) & (numabs > 0)).any():
            return False
        state[mode] = new_Fs[mode]
    num, numabs, den = tucker_mu_core_numden(X, core, state)
    return not ((np.abs(num - eps) <= 1e-6 * numabs + 1e-13) & (numabs > 0)).any()


def corr_tucker_full(rng, tier):
    """complete runs of non_negative_tucker from a user initialisation (0-2 sweeps, normalisation on/off) against the model's real oracles"""
    from tensorly.decomposition import non_negative_tucker
    out, skipped = [], 0
    eps = 10e-12
    nrun = 10 if tier == "quick" else 16
    heavy_tk = 0
    for k in range(nrun):
        order = rng.choice([2, 2, 2, 3])
        shape = tuple(rng.randint(2, 3) for _ in range(order)) if order == 2 else (2, 2, 2)
        ranks = [rng.randint(1, 2) for _ in shape]
        if order == 3:
            ranks[rng.randrange(3)] = 1          # exact rationals: keep the core small
        klass = rng.choice(["signed", "signed", "nonneg", "negative", "sparse"])
        lo, hi, zp = {"signed": (-3, 3, 0), "nonneg": (0, 3, 0), "negative": (-3, -0.25, 0), "sparse": (-3, 3, 0.6)}[klass]
        X = dy_mat(rng, 1, int(np.prod(shape)), lo, hi, zero_prob=zp).reshape(shape)
        Fs = [dy_mat(rng, s, r, 0.25, 2, zero_prob=0.15) for s, r in zip(shape, ranks)]
        core = dy_mat(rng, 1, int(np.prod(ranks)), 0.25, 2, zero_prob=0.1).reshape(ranks)
        nm = rng.random() < 0.4 and order == 2
        n = rng.choice([0, 1, 1, 1, 2]) if (order == 2 and not nm and int(np.prod(ranks)) <= (1 if tier == "quick" else 2)) else rng.choice([0, 1, 1])
        if order == 3 and int(np.prod(ranks)) > 2 and n >= 1:      # two rank-2 modes of an order-3 core: up to 60 CPU s in exact rationals (thorough: two such runs)
            heavy_tk += 1
            if tier == "quick" or heavy_tk > 2:
                COST_SKIPPED.append("non_negative_tucker order 3 with two rank-2 modes")
                continue
        run = lambda cap: C.call_impl(lambda: non_negative_tucker(X.copy(), list(ranks), n_iter_max=cap, init=(core.copy(), [f.copy() for f in Fs]),
                                                                  tol=0, normalize_factors=nm), timeout=60)
        ok, c0, f0, res = True, core, Fs, None
        for cap in range(1, n + 1):           # states after every sweep (deterministic): conditioning of each sweep
            st, r = run(cap)
            if st != "ok" or not finite_all(r[0], *r[1]):
                ok = False; break
            c1, f1 = np.asarray(r[0]), [np.asarray(f) for f in r[1]]
            if not nm:
                ok = ok and tucker_sweep_well_conditioned(X, c0, f0, c1, f1, eps)
            c0, f0, res = c1, f1, r
        if n == 0:
            st, res = run(0)
            ok = st == "ok"
        if nm and n >= 1:
            # the returned state is normalised: check the conditioning of the sweep on an unnormalised run of the same sweep
            st, r = C.call_impl(lambda: non_negative_tucker(X.copy(), list(ranks), n_iter_max=1, init=(core.copy(), [f.copy() for f in Fs]),
                                                            tol=0, normalize_factors=False), timeout=60)
            ok = ok and st == "ok" and tucker_sweep_well_conditioned(X, core, Fs, np.asarray(r[0]), [np.asarray(f) for f in r[1]], eps)
        if not ok or res is None:
            skipped += 1
            continue
        op = (f"(OTkMu {C.q(eps)} {C.qtensor(shape, [float(x) for x in X.reshape(-1)])} {C.qtensor(ranks, [float(x) for x in core.reshape(-1)])} "
              f"{qmats_lit(Fs)} {C.boolc(nm)} {n}%nat)")
        meta = {"corr": "non_negative_tucker", "tensor": X, "core": core, "factors": Fs, "normalize": nm, "n": n}
        out.append((op, Fraction(1, 10 ** 18), np.asarray(res[0]).reshape(-1), [np.asarray(f) for f in res[1]], meta))
    return out, skipped


def gen_float_tensor(rng, shape, klass):
    g = np.array([rng.gauss(0, 1) for _ in range(int(np.prod(shape)))]).reshape(shape)
    if klass == "nonneg":
        return np.abs(g) + 0.01
    if klass == "negative":
        return -np.abs(g) - 0.01
    if klass == "sparse":
        m = np.array([rng.random() < 0.5 for _ in range(g.size)]).reshape(shape)
        g = g * m
        if not g.any():
            g.flat[0] = 1.0
    return g


def opt_list_lit(xs):
    return "[" + "; ".join(C.opt(x, C.q) for x in xs) + "]"


def corr_hals_cp(rng, tier):
    """complete runs of non_negative_parafac_hals from a user initialisation (outer tol=0: exactly n sweeps; every inner hals_nnls call with
    its own stopping rule, up to 100 sweeps), executed by the model at the fixed-point carrier"""
    from tensorly.decomposition import non_negative_parafac_hals
    out = []
    nrun = 4 if tier == "quick" else 12
    for k in range(nrun):
        order = rng.choice([2, 3, 3])
        big = tier != "quick"
        shape = tuple(rng.randint(2, 4 if big else 3) for _ in range(order))
        rank = rng.choice([1, 2, 2, 3]) if big else (2 if k == 0 else 1)       # quick: one rank-2 run (every inner call runs its 100 sweeps, ~4 CPU s), the others rank 1
        klass = rng.choice(["signed", "signed", "nonneg", "negative", "sparse"])
        X = gen_float_tensor(rng, shape, klass)
        Fs = [np.array([[rng.random() + 0.05 for _ in range(rank)] for _ in range(s)]) for s in shape]
        if rng.random() < 0.15 and rank > 1:
            Fs[rng.randrange(order)][:, rng.randrange(rank)] = 0.0
        w = np.ones(rank) if rng.random() < 0.6 else np.array([rng.choice([0.5, 2.0, 1.0]) for _ in range(rank)])
        nm = rng.random() < 0.4
        fixed = [rng.randrange(order)] if rng.random() < 0.4 else []        # the last mode may be fixed here (weights then go into the last updated mode)
        modes = [m for m in range(order) if m not in fixed]
        nn = "all" if rng.random() < 0.5 else sorted(set(modes + ([fixed[0]] if fixed and rng.random() < 0.5 else [])))
        u = rng.random()
        sps = None if u < 0.55 else rng.choice([0.1, 0.5]) if u < 0.7 else [rng.choice([None, 0.0, 0.1, 0.5]) for _ in range(order)]
        n = rng.choice([0, 1, 1, 2]) if (rank == 1 or big) else rng.choice([0, 1, 1])     # rank >= 2: every inner call runs its 100 sweeps
        fixed_raw = None if (not fixed and rng.random() < 0.5) else list(fixed)
        st, r = quiet_call(lambda: non_negative_parafac_hals(X.copy(), rank, n_iter_max=n, init=(w.copy(), [f.copy() for f in Fs]), tol=0,
                                                             normalize_factors=nm, fixed_modes=None if fixed_raw is None else list(fixed_raw), nn_modes=nn,
                                                             sparsity_coefficients=sps if not isinstance(sps, list) else list(sps)), timeout=120)
        if st == "reject":
            IMPL_REJECTS.append({"corr": "non_negative_parafac_hals", "raised": r, "tensor": X, "weights": w, "factors": Fs, "normalize": nm, "fixed": fixed_raw,
                                 "nn_modes": nn, "sparsity": sps, "n": n})
        if st != "ok" or not finite_all(r[0], *r[1]) or collapsed_component(r[1], "non_negative_parafac_hals"):
            continue
        nn_lit = "NNAll" if nn == "all" else f"(NNList {C.nat_list(nn)})"
        op = (f"(OHalsCpE {C.qtensor(shape, [float(x) for x in X.reshape(-1)])} {qvec_lit(w)} {qmats_lit(Fs)} {optfixed_lit(fixed_raw)} {nn_lit} "
              f"{spopt_lit(sps)} {C.boolc(nm)} {n}%nat {C.q(1e-8)})")
        scale = max(1.0, max(float(np.abs(f).max()) for f in r[1]), float(np.abs(r[0]).max()))
        meta = {"corr": "non_negative_parafac_hals", "tensor": X, "weights": w, "factors": Fs, "normalize": nm, "fixed": fixed, "nn_modes": nn,
                "sparsity": sps, "n": n}
        out.append((op, Fraction(scale) / 10 ** 8, r[0], list(r[1]), meta))
    return out


def corr_tucker_hals(rng, tier):
    """complete runs of non_negative_tucker_hals(algorithm='fista') from a user initialisation, 0 or 1 outer sweeps: HALS factor updates from the
    model's own UtM / UtU with the inner stopping rule, FISTA core step with the recorded step size (SVD oracle), normalisation"""
    from tensorly.decomposition import non_negative_tucker_hals
    out = []
    nrun = 5 if tier == "quick" else 14
    for k in range(nrun):
        order = rng.choice([2, 3, 3])
        shape = tuple(rng.randint(2, 4 if tier != "quick" else 3) for _ in range(order))
        ranks = [rng.randint(1, min(2, s)) for s in shape]
        if tier == "quick":      # a rank-1 mode stops after 2 inner sweeps, a rank-2 mode runs its 100 (~5 CPU s, evaluated twice): exactly one rank-2 mode per quick run
            j = rng.randrange(order)
            ranks = [min(2, shape[m_]) if (k == 0 and m_ == j) else 1 for m_ in range(order)]
        klass = rng.choice(["signed", "signed", "nonneg", "negative", "sparse"])
        X = gen_float_tensor(rng, shape, klass)
        Fs = [np.array([[rng.random() + 0.05 for _ in range(r)] for _ in range(s)]) for s, r in zip(shape, ranks)]
        core = np.array([rng.random() + 0.05 for _ in range(int(np.prod(ranks)))]).reshape(ranks)
        nm = rng.random() < 0.4
        u = rng.random()      # raw fixed_modes: None, [], a mode (possibly the LAST one, which the entry point refuses to fix), a mode and the last one
        fixed_raw = None if u < 0.3 else [] if u < 0.6 else [rng.randrange(order)] if u < 0.85 else sorted({rng.randrange(order - 1), order - 1})
        fixed = [m for m in (fixed_raw or []) if m != order - 1]
        u = rng.random()
        sps = None if u < 0.55 else rng.choice([0.1, 0.5]) if u < 0.7 else [rng.choice([None, 0.0, 0.1, 0.5]) for _ in range(order)]
        csp = rng.choice([None, None, 0.1])
        n = rng.choice([0, 1, 1, 1])
        call = lambda norm: quiet_call(lambda: non_negative_tucker_hals(X.copy(), list(ranks), n_iter_max=n, init=(core.copy(), [f.copy() for f in Fs]), tol=0,
                                                                         normalize_factors=norm, fixed_modes=None if fixed_raw is None else list(fixed_raw), algorithm="fista",
                                                                         sparsity_coefficients=sps if not isinstance(sps, list) else list(sps),
                                                                         core_sparsity_coefficient=csp), timeout=120)
        st, r = call(nm)
        if st == "reject":
            IMPL_REJECTS.append({"corr": "non_negative_tucker_hals (fista)", "raised": r, "tensor": X, "core": core, "factors": Fs, "normalize": nm, "fixed": fixed_raw,
                                 "sparsity": sps, "core_sparsity": csp, "n": n})
        if st != "ok" or not finite_all(r[0], *r[1]) or collapsed_component(r[1], "non_negative_tucker_hals (fista)"):
            continue
        lr = 1.0
        if n == 1:
            st2, r2 = call(False) if nm else (st, r)     # the step size is computed from the unnormalised factors of this sweep
            if st2 != "ok":
                continue
            fs_sweep = [np.asarray(f) for f in r2[1]]
            if nm:
                # with normalisation the sweep starts from the normalised initialisation: redo the sweep from it without normalising
                from tensorly.tucker_tensor import tucker_normalize
                c0, f0 = tucker_normalize((core.copy(), [f.copy() for f in Fs]))
                st2, r2 = quiet_call(lambda: non_negative_tucker_hals(X.copy(), list(ranks), n_iter_max=1, init=(np.asarray(c0), [np.asarray(f) for f in f0]), tol=0,
                                                                       normalize_factors=False, fixed_modes=None if fixed_raw is None else list(fixed_raw), algorithm="fista",
                                                                       sparsity_coefficients=sps if not isinstance(sps, list) else list(sps),
                                                                       core_sparsity_coefficient=csp), timeout=120)
                if st2 != "ok":
                    continue
                fs_sweep = [np.asarray(f) for f in r2[1]]
            for f in fs_sweep:
                sv = float(np.linalg.svd(f.T @ f, compute_uv=False)[0])
                if sv > 0:
                    lr *= 1.0 / sv
        op = (f"(OTkHalsE {C.qtensor(shape, [float(x) for x in X.reshape(-1)])} {C.qtensor(ranks, [float(x) for x in core.reshape(-1)])} {qmats_lit(Fs)} "
              f"{optfixed_lit(fixed_raw)} {spopt_lit(sps)} {C.q(0.0 if csp is None else csp)} {C.boolc(nm)} {C.q(1e-8)} {C.q(lr)} "
              f"{C.q_list(fista_betas(n))} {n}%nat {C.q(1e-8)})")
        scale = max(1.0, max(float(np.abs(f).max()) for f in r[1]), float(np.abs(np.asarray(r[0])).max()))
        meta = {"corr": "non_negative_tucker_hals (fista)", "tensor": X, "core": core, "factors": Fs, "normalize": nm, "fixed": fixed_raw,
                "sparsity": sps, "core_sparsity": csp, "n": n, "lr": lr}
        out.append((op, Fraction(scale) / 10 ** 8, np.asarray(r[0]).reshape(-1), [np.asarray(f) for f in r[1]], meta))
    return out


def corr_aset(rng, tier):
    """active_set_nnls called directly vs the statement-by-statement transcription (exact rationals, elimination for the passive blocks)"""
    from tensorly.solvers.nnls import active_set_nnls
    out = []
    nrun = 14 if tier == "quick" else 60
    for k in range(nrun):
        r = rng.randint(1, 4 if tier == "quick" else 5)
        m = rng.randint(r, r + 3)
        A = np.array([[rng.gauss(0, 1) for _ in range(r)] for _ in range(m)])
        if rng.random() < 0.3:
            A = np.abs(A)
        G = A.T @ A
        if not np.all(np.isfinite(G)) or np.linalg.cond(G) > 1e6:
            continue
        b = np.array([rng.gauss(0, 1) for _ in range(m)]) * rng.choice([1.0, 1.0, -1.0])
        if rng.random() < 0.15:
            b = -np.abs(b)
        u = A.T @ b
        kind = rng.choice(["none", "nonneg", "signed", "zero"])
        x0 = {"none": None, "nonneg": np.abs(np.array([rng.gauss(0, 1) for _ in range(r)])), "signed": np.array([rng.gauss(0, 1) for _ in range(r)]),
              "zero": np.zeros(r)}[kind]
        n = rng.choice([1, 1, 2, 3, 5, 100])
        st, x = C.call_impl(lambda: active_set_nnls(u.copy(), G.copy(), x=None if x0 is None else x0.copy(), n_iter_max=n), timeout=60)
        if st != "ok" or not finite_all(x):
            continue
        x0m = np.zeros(r) if x0 is None else x0
        op = f"(OAset {qvec_lit(u)} {qmat_lit(G)} {qvec_lit(x0m)} {n}%nat {C.q(10e-8)})"
        scale = max(1.0, float(np.abs(x).max()))
        meta = {"corr": "active_set_nnls", "Utm": u, "UtU": G, "x0": x0, "n_iter_max": n}
        out.append((op, Fraction(scale) / 10 ** 8, np.asarray(x).reshape(-1), [], meta))
    return out


def corr_tucker_aset(rng, tier):
    """complete runs of non_negative_tucker_hals(algorithm='active_set'), 0 or 1 outer sweeps, from a user initialisation"""
    from tensorly.decomposition import non_negative_tucker_hals
    out = []
    nrun = 5 if tier == "quick" else 16
    for k in range(nrun):
        order = rng.choice([2, 3, 3])
        shape = tuple(rng.randint(2, 4 if tier != "quick" else 3) for _ in range(order))
        ranks = [rng.randint(1, min(2, s)) for s in shape]
        if tier == "quick":      # as in corr_tucker_hals: exactly one rank-2 mode per quick run
            j = rng.randrange(order)
            ranks = [min(2, shape[m_]) if (k == 0 and m_ == j) else 1 for m_ in range(order)]
        klass = rng.choice(["signed", "nonneg", "model", "model", "model"])
        X = gen_float_tensor(rng, shape, klass if klass != "model" else "signed")
        if klass == "model":     # a non-negative Tucker tensor with distinct components plus small signed noise: the HALS factors stay well conditioned
            Gs = [np.array([[0.3 * rng.random() + (1.0 if i % r == j else 0.0) for j in range(r)] for i in range(s)]) for s, r in zip(shape, ranks)]
            Y = np.array([rng.random() + 0.2 for _ in range(int(np.prod(ranks)))]).reshape(ranks)
            for kk, Gk in enumerate(Gs):
                Y = np.moveaxis(np.tensordot(Gk, Y, axes=(1, kk)), 0, kk)
            X = Y + 0.05 * X
        # columns with distinct dominant rows: the Kronecker product of the Gram matrices stays well conditioned
        Fs = [np.array([[0.3 * rng.random() + 0.02 + (1.0 if i % r == j else 0.0) for j in range(r)] for i in range(s)]) for s, r in zip(shape, ranks)]
        core = np.array([rng.random() + 0.05 for _ in range(int(np.prod(ranks)))]).reshape(ranks)
        nm = rng.random() < 0.3
        fixed = [rng.randrange(order - 1)] if rng.random() < 0.3 else []
        modes = [m for m in range(order) if m not in fixed]
        sps = None if rng.random() < 0.7 else [rng.choice([None, 0.0, 0.1]) for _ in range(order)]
        n = rng.choice([0, 1, 1, 1])
        st, r = C.call_impl(lambda: non_negative_tucker_hals(X.copy(), list(ranks), n_iter_max=n, init=(core.copy(), [f.copy() for f in Fs]), tol=0,
                                                             normalize_factors=nm, fixed_modes=list(fixed), algorithm="active_set",
                                                             sparsity_coefficients=None if sps is None else list(sps)), timeout=120)
        if st != "ok" or not finite_all(r[0], *r[1]) or collapsed_component(r[1], "non_negative_tucker_hals (active_set)"):
            continue
        kr = np.ones((1, 1))
        for f in r[1]:
            f = np.asarray(f)
            kr = np.kron(kr, f.T @ f)
        if not np.all(np.isfinite(kr)) or np.linalg.cond(kr) > 1e6:
            continue
        sps_model = [None] * order if sps is None else [None if m in fixed else sps[m] for m in range(order)]
        op = (f"(OTkAset {C.qtensor(shape, [float(x) for x in X.reshape(-1)])} {C.qtensor(ranks, [float(x) for x in core.reshape(-1)])} {qmats_lit(Fs)} "
              f"{opt_list_lit(sps_model)} {C.boolc(nm)} {C.nat_list(modes)} {n}%nat {C.q(1e-8)})")
        scale = max(1.0, max(float(np.abs(f).max()) for f in r[1]), float(np.abs(np.asarray(r[0])).max()))
        meta = {"corr": "non_negative_tucker_hals (active_set)", "tensor": X, "core": core, "factors": Fs, "normalize": nm, "fixed": fixed,
                "sparsity": sps, "n": n}
        out.append((op, Fraction(scale) / 10 ** 8, np.asarray(r[0]).reshape(-1), [np.asarray(f) for f in r[1]], meta))
    return out


def corr_line(rng, tier, chk):
    from tensorly.decomposition._parafac2 import _BroThesisLineSearch
    out = []
    nrun = 16 if tier == "quick" else 100
    for k in range(nrun):
        I, K, R = rng.randint(1, 3), rng.randint(2, 3), rng.randint(1, 2)
        rows = [rng.randint(R, 3) for _ in range(I)]
        slices = [np.array([[rng.gauss(0, 1) for _ in range(K)] for _ in range(j)]) for j in rows]
        last = [dy_mat(rng, I, R, 0, 2), dy_mat(rng, R, R, 0, 2), dy_mat(rng, K, R, 0, 2)]
        cur = [dy_mat(rng, I, R, 0, 2), dy_mat(rng, R, R, 0, 2), dy_mat(rng, K, R, 0, 2)]
        nn = rng.choice([[0], [2], [0, 2], [1], [0, 1, 2], [1, 2], [0, 1], None, "all"])
        it = rng.choice([6, 8, 10, 16, 30])
        acc = rng.choice([2.0, 2.0, 3.0])
        ls = _BroThesisLineSearch(1.0, "truncated_svd", nn_modes=nn, acc_pow=acc)
        jump = it ** (1.0 / acc)
        projs = [np.linalg.qr(np.array([[rng.gauss(0, 1) for _ in range(R)] for _ in range(j)]))[0] for j in rows]
        history = rng.random() < 0.4
        if history:         # multi-step sequence: a jump rejected earlier on the same object (error -inf cannot be improved), then the jump under test
            C.call_impl(lambda: ls.line_step(it - 2 if it > 6 else it, slices, [f.copy() for f in last], np.ones(R), [f.copy() for f in cur], projs, -np.inf), timeout=60)
            jump = it ** (1.0 / ls.acc_pow)
        st, r = C.call_impl(lambda: ls.line_step(it, slices, [f.copy() for f in last], np.ones(R), [f.copy() for f in cur], projs, np.inf), timeout=60)
        if st != "ok" or r[0] is None or not finite_all(*r[0]) or not np.isfinite(r[2]):
            continue
        decl = [0, 1, 2] if nn == "all" else (nn or [])
        for m_ in decl:         # the line-search iterate itself (observation point of the clipping)
            if not (np.asarray(r[0][m_]) >= 0).all():
                chk.finding("tensorly.decomposition._parafac2._BroThesisLineSearch.line_step",
                            {"nn_modes": nn, "iteration": it, "acc_pow": acc, "last": last, "cur": cur, "slices": slices, "projections": projs, "after_rejected_jump": history},
                            f"accepted line-search iterate of declared mode {m_} has negative entries: {float(np.min(r[0][m_]))!r}",
                            "line_search_iterate_nonnegative", observed=list(r[0]))
        op = f"(OLine {C.nat_list(decl)} {C.q(jump)} {qmats_lit(last)} {qmats_lit(cur)})"
        meta = {"corr": "_BroThesisLineSearch.line_step", "nn_modes": nn, "iteration": it, "acc_pow": acc, "last": last, "cur": cur, "after_rejected_jump": history}
        out.append((op, Fraction(1, 10 ** 9), [], list(r[0]), meta))
    return out


def corr_mu_cp_mask(rng, tier):
    """round 8: complete runs of non_negative_parafac WITH A MASK (0/1 entries, about a quarter unobserved) from a user initialisation, tol=0: before every mode update the
    unobserved entries are replaced by the current reconstruction (Model/NonnegMask.v cp_mu_num_mask); dyadic few-bit inputs, exact rationals"""
    from tensorly.decomposition import non_negative_parafac
    import tensorly as tl
    eps = float(tl.eps(np.float64))
    out = []
    for k in range(5 if tier == "quick" else 24):
        order = rng.choice([2, 2, 3])
        shape = tuple(rng.randint(2, 3) for _ in range(order))
        rank = rng.choice([1, 2]) if order == 2 else 1
        klass = rng.choice(["signed", "signed", "nonneg", "sparse", "negative"])
        lo, hi, zp = {"signed": (-3, 3, 0), "nonneg": (0, 3, 0), "negative": (-3, -0.25, 0), "sparse": (-3, 3, 0.6)}[klass]
        X = dy_mat(rng, 1, int(np.prod(shape)), lo, hi, zero_prob=zp).reshape(shape)
        mask = np.array([0.0 if rng.random() < 0.3 else 1.0 for _ in range(X.size)]).reshape(shape)
        if mask.all():
            mask.flat[rng.randrange(X.size)] = 0.0
        Fs = [dy_mat(rng, s_, rank, 0.25, 2, zero_prob=0.15) for s_ in shape]
        w = np.ones(rank) if rng.random() < 0.6 else np.array([rng.choice([0.5, 2.0, 1.0]) for _ in range(rank)])
        nm = rng.random() < 0.3 and rank == 1 and order == 2          # normalised order-3 runs cost 10+ CPU s in exact rationals (107-bit square roots)
        u = rng.random()
        fixed = None if u < 0.5 else [] if u < 0.7 else [rng.randrange(order)]
        n = rng.choice([1, 1, 2]) if (rank == 1 and not nm and order == 2) else 1
        st, r = quiet_call(lambda: non_negative_parafac(X.copy(), rank, n_iter_max=n, init=(w.copy(), [f.copy() for f in Fs]), tol=0, mask=mask.copy(),
                                                        normalize_factors=nm, fixed_modes=None if fixed is None else list(fixed)))
        if st == "reject":
            IMPL_REJECTS.append({"corr": "non_negative_parafac (mask)", "raised": r, "tensor": X, "mask": mask, "weights": w, "factors": Fs, "normalize": nm, "fixed": fixed, "n": n})
        if st != "ok" or not finite_all(r[0], *r[1]):
            continue
        op = (f"(OMuCpMask {C.q(eps)} {C.qtensor(shape, [float(x) for x in X.reshape(-1)])} {C.qtensor(shape, [float(x) for x in mask.reshape(-1)])} {qvec_lit(w)} "
              f"{qmats_lit(Fs)} {C.boolc(nm)} {optfixed_lit(fixed)} {n}%nat)")
        out.append((op, ATOL_TINY, r[0], list(r[1]), {"corr": "non_negative_parafac (masked)", "tensor": X, "mask": mask, "weights": w, "factors": Fs, "normalize": nm,
                                                      "fixed": fixed, "n": n}))
    return out


def corr_hals_cold(rng, tier):
    """round 8: hals_nnls called WITHOUT a start (V=None): the answer of tl.solve(UtU, UtM) is recorded (harness-level interposition), the clipping, the scaling by
    sum(UtM * V) / sum(UtU * V V^T) (which can be negative) and the sweeps are the model's; and hals_nnls(..., nonzero_rows=True) from a warm start on inputs on which
    binary floating point is exact (dyadic data, power-of-two diagonal of UtU, epsilon = 0): the all-zero row is replaced by eps(float64) * max(V), compared exactly"""
    import tensorly as tl
    from tensorly.solvers import nnls as NN
    out = []
    for k in range(8 if tier == "quick" else 60):
        r, n = rng.randint(1, 3), rng.randint(1, 3)
        A = np.array([[rng.gauss(0, 1) for _ in range(r)] for _ in range(r + rng.randint(0, 2))])
        if rng.random() < 0.3:
            A = np.abs(A)              # positively correlated columns: negative scaling factors of the cold start become likely
        G = A.T @ A
        if not np.all(np.isfinite(G)) or np.linalg.cond(G) > 1e4:
            continue
        UtM = np.array([[rng.gauss(0, 1) for _ in range(n)] for _ in range(r)]) * rng.choice([1.0, 1.0, -1.0])
        eps = rng.choice([0.0, 0.0, 1e-8, 0.25])
        sp, rg = rng.choice([None, None, 0.25]), rng.choice([None, None, 0.5])
        it = rng.choice([0, 1, 1, 2])
        tape = []
        orig = tl.solve
        def rec(a, b):
            x = orig(a, b); tape.append(np.array(x, copy=True)); return x
        tl.solve = rec
        try:
            st, V = C.call_impl(lambda: NN.hals_nnls(UtM.copy(), G.copy(), None, n_iter_max=it, tol=0, sparsity_coefficient=sp, ridge_coefficient=rg, epsilon=eps), timeout=60)
        finally:
            tl.solve = orig
        if st != "ok" or len(tape) != 1 or not finite_all(V, tape[0]):
            continue
        S0 = tape[0]
        Vc = np.clip(S0, 0, None)
        nrm = float(np.sum(G * (Vc @ Vc.T)))
        if 0 < nrm < 1e-9 or (np.abs(S0) < 1e-9).any() and False:
            continue
        scale = max(1.0, float(np.abs(UtM).max()), float(np.abs(np.asarray(V)).max()), float(np.abs(S0).max()))
        op = f"(OHalsCold {C.q(eps)} {C.opt(sp, C.q)} {C.opt(rg, C.q)} {qmat_lit(UtM)} {qmat_lit(G)} {qmat_lit(S0)} {it}%nat)"
        out.append((op, Fraction(scale) / 10 ** 8, [], [np.asarray(V)], {"corr": "hals_nnls cold start (V=None)", "UtM": UtM, "UtU": G, "solve_answer": S0, "epsilon": eps,
                                                                          "sparsity": sp, "ridge": rg, "n_iter_max": it,
                                                                          "scaling_factor_negative": bool(nrm > 0 and float(np.sum(UtM * Vc)) < 0)}))
    epsm = float(tl.eps(np.float64))
    for k in range(10 if tier == "quick" else 60):
        r, n = rng.choice([1, 1, 2, 2, 3]), rng.randint(1, 3)
        G = dy_mat(rng, r, r, -2, 2)
        G = (G + G.T) / 2
        for i in range(r):
            G[i, i] = rng.choice([1.0, 2.0, 4.0, 0.5])
        UtM = dy_mat(rng, r, n, -4, 1)          # mostly negative right-hand sides: whole rows are clipped to zero
        if rng.random() < 0.7:                  # the LAST row all negative (reset there keeps the arithmetic exact), the rows before it clearly positive
            UtM[:r - 1, :] = dy_mat(rng, r - 1, n, 3, 6) if r > 1 else UtM[:0, :]
            UtM[r - 1, :] = -abs(dy(rng, 1, 4))
        V = dy_mat(rng, r, n, 0, 2, zero_prob=0.2)
        sp = rng.choice([None, None, 0.25, 1.0])
        it = rng.choice([1, 1, 2]) if r == 1 else 1
        st, Vout = C.call_impl(lambda: NN.hals_nnls(UtM.copy(), G.copy(), V.copy(), n_iter_max=it, tol=0, sparsity_coefficient=sp, epsilon=0.0, nonzero_rows=True), timeout=60)
        if st != "ok" or not finite_all(Vout):
            continue
        # binary floating point stays exact as long as no row BEFORE the last one was reset to eps * max(V) (a 2^-52-sized term would then be added to few-bit dyadics)
        reset = [i for i, row in enumerate(np.asarray(Vout)) if len(set(row.tolist())) == 1 and 0 < row[0] < 1e-12]
        if any(i < r - 1 for i in reset):
            continue
        op = f"(OHalsNzr {C.q(epsm)} {C.q(0.0)} {C.opt(sp, C.q)} {C.opt(None, C.q)} {qmat_lit(UtM)} {qmat_lit(G)} {qmat_lit(V)} {it}%nat)"
        out.append((op, Fraction(0), [], [np.asarray(Vout)], {"corr": "hals_nnls (nonzero_rows=True, exact dyadic inputs)", "UtM": UtM, "UtU": G, "V": V, "sparsity": sp, "n_iter_max": it,
                                                             "rows_reset": int(sum(1 for row in np.asarray(Vout) if len(set(row.tolist())) == 1 and 0 < row[0] < 1e-12))}))
    return out


EXTRA_CORR = []


def run_correspondence(chk, rng):
    del IMPL_REJECTS[:]
    del OWN_LS_MISMATCH[:]
    del COST_SKIPPED[:]
    del COND_SKIPPED[:]
    groups = []
    groups += corr_mu_cp(rng, chk.tier)
    groups += corr_hals(rng, chk.tier)
    groups += corr_fista(rng, chk.tier)
    groups += corr_normalize(rng, chk.tier)
    tk, skipped_py = corr_mu_tucker(rng, chk.tier)
    groups += tk
    tkf, skipped_py2 = corr_tucker_full(rng, chk.tier)
    groups += tkf
    skipped_py += skipped_py2
    groups += corr_hals_cp(rng, chk.tier)
    groups += corr_tucker_hals(rng, chk.tier)
    groups += corr_aset(rng, chk.tier)
    groups += corr_tucker_aset(rng, chk.tier)
    groups += corr_initialisers(rng, chk.tier)
    groups += corr_ccp(rng, chk.tier)
    groups += corr_parafac2_iter(rng, chk.tier)
    groups += corr_parafac2_run(rng, chk.tier)
    groups += corr_parafac2_run_g(random.Random(chk.seed * 7919 + 11), chk.tier)
    groups += corr_ccp_spec(random.Random(chk.seed * 7919 + 13), chk.tier)
    groups += corr_hals_cp_undeclared(random.Random(chk.seed * 7919 + 17), chk.tier)
    groups += corr_line(rng, chk.tier, chk)
    rng8 = random.Random(chk.seed * 7919 + 23)          # round 8 streams
    groups += corr_mu_cp_mask(rng8, chk.tier)
    groups += corr_hals_cold(rng8, chk.tier)
    groups += corr_sign(chk)
    groups += corr_flow(chk)
    # interleave the groups so that every shard gets a mix of cheap and expensive cases
    nsh = max(1, -(-len(groups) // (11 if chk.tier == "quick" else 15)))
    groups = [g for k in range(nsh) for g in groups[k::nsh]]
    cases, meta = [], []
    for op, atol, w, Fs, m in groups:
        cid = len(cases)
        cases.append(case_lit(cid, op, atol, w, Fs))
        meta.append(m)
        chk.hist("correspondence", m["corr"])
        chk.count(key=("corr", m["corr"], cid), nontrivial=True)
    for i in (0, len(cases) // 2, len(cases) - 1):
        if 0 <= i < len(cases):
            chk.sample({"correspondence": meta[i]["corr"], "inputs": C.jsonable({k: v for k, v in meta[i].items() if k != "corr"})})
    shard = 11 if chk.tier == "quick" else 15
    failing, n_eval, broken = C.run_case_shards("C10", HEADER, "case", cases, shard=shard, timeout=400)
    chk.checker_cmds.append("coqc (vm_compute) on generated build/cases/C10/*.v: Corr.C10.failing")
    # a shard that ran out of time / memory (shared machine) is re-run case by case; a single case that still exceeds its budget
    # is counted as skipped, never as a disagreement; many unevaluated cases mean the machinery is broken and are reported
    over_budget = 0
    if broken and len(broken) * shard <= 0.25 * len(cases) + shard:
        import re as _re, shutil as _sh
        redo = []
        for b in broken:
            k = int(_re.search(r"S(\d+)\.v$", b["shard"]).group(1))
            redo += list(range(k * shard, min(len(cases), (k + 1) * shard)))
            _sh.rmtree(os.path.dirname(b["shard"]), ignore_errors=True)
        f2, n2, b2 = C.run_case_shards("C10", HEADER, "case", [cases[i] for i in redo], shard=1, timeout=150, tag="retry")
        failing |= f2
        n_eval += n2
        over_budget = len(b2)
        if b2:
            _sh.rmtree(os.path.dirname(b2[0]["shard"]), ignore_errors=True)
        broken = [] if over_budget <= 3 else b2
    chk.cov["skipped_model_evaluation_over_budget"] = over_budget
    chk.cov["not_emitted_predicted_cost_over_quick_budget"] = list(COST_SKIPPED)
    skipped = sorted(i // 2 for i in failing if i % 2 == 1)
    bad = sorted(i // 2 for i in failing if i % 2 == 0)
    chk.cov["traces_validated_against_impl"] = n_eval - len(skipped)
    chk.cov["skipped_ill_conditioned"] = len(skipped) + skipped_py + len(COND_SKIPPED)
    chk.cov["skipped_collapsed_component"] = list(COND_SKIPPED)
    for b in broken:
        chk.broken.append({"what": "correspondence corr:C10 shard not evaluated", "detail": b})
    chk.cov["implementation_raised_on_valid_raw_option_calls"] = len(IMPL_REJECTS)
    searched = set()
    for m_ in OWN_LS_MISMATCH:
        key_ = (str(m_["nn_modes"]), m_.get("normalize"), m_.get("init"))
        if "init" in m_ and key_ not in searched and len(searched) < 4:
            searched.add(key_)
            cfg_ = search_failing_input_for_own_ls(m_)
            if cfg_ is not None:
                evaluate_cfg(chk, cfg_, {"not_ok": [], "checked": 0, "undeclared_negative": 0})
    for m_ in OWN_LS_MISMATCH:
        chk.disagreement("corr:C10 (parafac2(nn_modes=" + str(m_["nn_modes"]) + ", linesearch=True) built its own _BroThesisLineSearch with nn_modes=" + m_["line_search_nn_modes"] +
                         ", which does not contain every declared mode: Model/Nonneg.v parafac2 / C10_parafac2_own_linesearch take the declared modes)", m_)
    for m_ in IMPL_REJECTS:
        chk.disagreement("corr:C10 (the implementation raises " + str(m_["raised"])[:120] + " on a call of " + m_["corr"] + " that the model of the entry point "
                         "(Model/NonnegOptions.v: option parsing + skeleton) accepts and decomposes)", m_)
    for i in bad:
        if meta[i]["corr"].startswith("corr:C10-static"):
            chk.disagreement(meta[i]["corr"] + ": the sign analysis (Model/NonnegSign.v, theorem C10_sign_analysis_sound) does not establish that the decomposition returned by "
                             "the CURRENT source of this function is entrywise >= 0 (an assignment to the factors / weights / core whose sign is not derivable: a missing clip / abs, "
                             "a solver called outside its contract, an initialiser without non_negative=True, ...)", meta[i])
        else:
            chk.disagreement("corr:C10 (Model/Nonneg.v vs " + meta[i]["corr"] + ")", meta[i])
    return len(cases)


# ============================================================================= round 4: initialisers, constrained_parafac, PARAFAC2 outer iteration
class _SvdTape:
    """records the answers of svd_interface inside one decomposition module (harness-level interposition, /repo untouched)"""
    def __init__(self, module):
        self.module, self.calls = module, []

    def __enter__(self):
        self.orig = self.module.svd_interface
        def rec(*a, **k):
            r = self.orig(*a, **k)
            self.calls.append(tuple(None if x is None else np.array(x, copy=True) for x in r))
            return r
        self.module.svd_interface = rec
        return self

    def __exit__(self, *exc):
        self.module.svd_interface = self.orig


def corr_initialisers(rng, tier):
    import tensorly as tl
    from tensorly.decomposition import _cp, _tucker, _constrained_cp, _parafac2
    from tensorly.decomposition import parafac2
    from tensorly.random import random_cp
    out = []
    nrun = 6 if tier == "quick" else 30
    for k in range(nrun):
        order = rng.choice([2, 3])
        shape = tuple(rng.randint(2, 4) for _ in range(order))
        rank = rng.randint(1, min(shape))
        klass = rng.choice(["signed", "signed", "nonneg", "negative", "sparse"])
        X = gen_float_tensor(rng, shape, klass)
        nm = rng.random() < 0.5
        seed = rng.randrange(10 ** 6)
        # ---- initialize_cp(non_negative=True): svd (NNDSVD answers recorded) / random (random_cp re-drawn with the same seed)
        if rng.random() < 0.6:
            with _SvdTape(_cp) as tape:
                st, r = C.call_impl(lambda: _cp.initialize_cp(X.copy(), rank, init="svd", non_negative=True, normalize_factors=nm, random_state=seed))
            if st == "ok" and len(tape.calls) == order and finite_all(r[0], *r[1]):
                Us = [c[0][:, :rank] for c in tape.calls]
                S0 = tape.calls[0][1][:rank]
                out.append((f"(OInitCp {rank}%nat {qmats_lit(Us)} {qvec_lit(S0)} {C.boolc(nm)})", Fraction(1, 10 ** 12), r[0], list(r[1]),
                            {"corr": "initialize_cp (svd, non_negative)", "tensor": X, "rank": rank, "normalize": nm}))
        else:
            st, r = C.call_impl(lambda: _cp.initialize_cp(X.copy(), rank, init="random", non_negative=True, normalize_factors=nm, random_state=seed))
            raw = random_cp(shape, rank, normalise_factors=False, random_state=tl.check_random_state(seed))
            if st == "ok" and finite_all(r[0], *r[1]):
                out.append((f"(OInitCp {rank}%nat {qmats_lit(list(raw[1]))} {qvec_lit(np.ones(rank))} {C.boolc(nm)})", Fraction(1, 10 ** 12), r[0], list(r[1]),
                            {"corr": "initialize_cp (random, non_negative)", "tensor": X, "rank": rank, "normalize": nm, "seed": seed}))
        # ---- initialize_tucker(non_negative=True): a SIGNED user (core, factors) and the svd start (signed core recomputed by the model)
        ranks = [rng.randint(1, min(2, s)) for s in shape]
        ucore = np.array([rng.gauss(0, 1) for _ in range(int(np.prod(ranks)))]).reshape(ranks)
        uFs = [np.array([[rng.gauss(0, 1) for _ in range(r_)] for _ in range(s_)]) for s_, r_ in zip(shape, ranks)]
        st, r = C.call_impl(lambda: _tucker.initialize_tucker(X.copy(), list(ranks), list(range(order)), None, init=(ucore.copy(), [f.copy() for f in uFs]), non_negative=True))
        if st == "ok":
            out.append((f"(OInitTk {C.qtensor(ranks, [float(x) for x in ucore.reshape(-1)])} {qmats_lit(uFs)})", Fraction(0), np.asarray(r[0]).reshape(-1), list(r[1]),
                        {"corr": "initialize_tucker (signed user init, non_negative)", "core": ucore, "factors": uFs}))
        with _SvdTape(_tucker) as tape:
            st, r = C.call_impl(lambda: _tucker.initialize_tucker(X.copy(), list(ranks), list(range(order)), seed, init="svd", non_negative=True))
        if st == "ok" and len(tape.calls) == order and finite_all(r[0], *r[1]):
            Us = [c[0] for c in tape.calls]
            if all(u.shape[1] == rk for u, rk in zip(Us, ranks)):
                out.append((f"(OInitTkSvd {C.qtensor(shape, [float(x) for x in X.reshape(-1)])} {C.nat_list(ranks)} {qmats_lit(Us)})",
                            Fraction(max(1.0, float(np.abs(X).max()))) / 10 ** 10, np.asarray(r[0]).reshape(-1), list(r[1]),
                            {"corr": "initialize_tucker (svd, non_negative)", "tensor": X, "rank": ranks}))
        # ---- initialize_constrained_parafac(non_negative = modes): plain (signed) SVD answers recorded
        nn = sorted(rng.sample(range(order), rng.randint(1, order)))
        with _SvdTape(_constrained_cp) as tape:
            st, r = C.call_impl(lambda: _constrained_cp.initialize_constrained_parafac(X.copy(), rank, init="svd", random_state=seed,
                                                                                       non_negative={m: True for m in nn}))
        if st == "ok" and len(tape.calls) == order and finite_all(*r[1]):
            Us = [c[0][:, :rank] for c in tape.calls]
            S0 = tape.calls[0][1][:rank]
            out.append((f"(OInitCcp {C.nat_list(nn)} {qmats_lit(Us)} {qvec_lit(S0)})", Fraction(1, 10 ** 12), [], list(r[1]),
                        {"corr": "initialize_constrained_parafac (svd, non_negative)", "tensor": X, "rank": rank, "nn_modes": nn}))
        # ---- parafac2 built-in start at cap 0 (raw factors = initialize_decomposition, deterministic)
        I, J, K = rng.randint(2, 3), rng.randint(2, 4), rng.randint(2, 4)
        R = rng.randint(1, min(J, K, 2))
        slices = [np.array([[rng.gauss(0, 1) for _ in range(K)] for _ in range(J)]) for _ in range(I)]
        nn2 = rng.choice(["all", [0], [2], [0, 2], [1, 2], [0, 1, 2]])
        st, raw = C.call_impl(lambda: _parafac2.initialize_decomposition([s_.copy() for s_ in slices], R, init="svd", random_state=tl.check_random_state(seed)))
        st2, r = C.call_impl(lambda: parafac2([s_.copy() for s_ in slices], R, n_iter_max=0, init="svd", nn_modes=nn2, normalize_factors=nm, random_state=seed))
        if st == "ok" and st2 == "ok" and finite_all(r[0], *r[1]):
            decl = [0, 1, 2] if nn2 == "all" else nn2
            out.append((f"(OInitP2 {C.nat_list(decl)} {qmats_lit([np.asarray(f) for f in raw[1]])} {C.boolc(nm)})", Fraction(1, 10 ** 12), r[0], list(r[1]),
                        {"corr": "parafac2 built-in start (svd, nn_modes, cap 0)", "slices": slices, "rank": R, "nn_modes": nn2, "normalize": nm}))
    return out


def corr_ccp(rng, tier):
    """complete constrained_parafac(non_negative=...) runs: mttkrp, Hadamard Gram, rho, the split solve (elimination inside Coq), prox, dual update,
    which of (x, x_split) is returned; tol_inner = tol_outer = 0 -> exactly inner x n iterations"""
    from tensorly.decomposition import constrained_parafac
    out = []
    nrun = 6 if tier == "quick" else 40
    for k in range(nrun):
        order = rng.choice([2, 3])
        shape = tuple(rng.randint(2, 3) for _ in range(order))
        rank = rng.choice([1, 2])
        X = gen_float_tensor(rng, shape, rng.choice(["signed", "signed", "nonneg", "negative", "sparse"]))
        Fs = [np.array([[rng.random() + 0.1 for _ in range(rank)] for _ in range(s)]) for s in shape]
        fixed = [rng.randrange(order - 1)] if rng.random() < 0.25 else []
        modes = [m for m in range(order) if m not in fixed]
        nn = list(range(order)) if rng.random() < 0.5 else sorted(rng.sample(range(order), rng.randint(1, order)))
        n, inner = rng.choice([1, 1, 2]), rng.choice([1, 2, 3])
        st, r = C.call_impl(lambda: constrained_parafac(X.copy(), rank, n_iter_max=n, n_iter_max_inner=inner, init=(np.ones(rank), [f.copy() for f in Fs]),
                                                        tol_outer=0, tol_inner=0, fixed_modes=list(fixed), non_negative={m: True for m in nn}), timeout=120)
        if st != "ok" or not finite_all(*r[1]):
            continue
        op = f"(OCcp {C.qtensor(shape, [float(x) for x in X.reshape(-1)])} {qmats_lit(Fs)} {C.nat_list(nn)} {C.nat_list(modes)} {n}%nat {inner}%nat)"
        scale = max(1.0, max(float(np.abs(f).max()) for f in r[1]))
        out.append((op, Fraction(scale) / 10 ** 8, [], list(r[1]),
                    {"corr": "constrained_parafac (non_negative)", "tensor": X, "factors": Fs, "nn_modes": nn, "fixed": fixed, "n": n, "inner": inner}))
    return out


def corr_parafac2_iter(rng, tier):
    """one outer iteration of parafac2(nn_modes='all', linesearch=False) from a user (weights, factors, projections): the projections of that
    iteration (SVD oracle) are recomputed with TensorLy's own helper and the projected tensor is handed to the model as data"""
    from tensorly.decomposition import parafac2
    from tensorly.decomposition import _parafac2 as P2
    from tensorly.cp_tensor import cp_normalize
    out = []
    nrun = 1 if tier == "quick" else 6           # ~13-20 CPU s per case (two fixed-point runs of up to 2 x 3 x 100 inner sweeps); the multi-iteration runs (OP2Run / OP2RunG) cover the same skeleton
    for k in range(nrun):
        I, J, K = rng.randint(2, 3), rng.randint(2, 4), rng.randint(2, 3)
        R = rng.randint(1, min(J, K, 2))
        if tier == "quick":
            R = 1          # a rank-2 iteration costs 13-20 CPU s (3 modes x 100 inner sweeps, evaluated twice): thorough only; quick keeps rank-2 inner HALS in OHalsCpE
        slices = [np.array([[rng.gauss(0, 1) for _ in range(K)] for _ in range(J)]) for _ in range(I)]
        if rng.random() < 0.3:
            slices = [np.abs(s_) for s_ in slices]
        Fs = [np.array([[rng.random() + 0.1 for _ in range(R)] for _ in range(d)]) for d in (I, R, K)]
        w = np.ones(R) if rng.random() < 0.5 else np.array([rng.choice([0.5, 2.0, 1.5]) for _ in range(R)])
        projs = [np.linalg.qr(np.array([[rng.gauss(0, 1) for _ in range(R)] for _ in range(J)]))[0] for _ in range(I)]
        nm = rng.random() < 0.4
        nip = rng.choice([1, 2])
        st, r = C.call_impl(lambda: parafac2([s_.copy() for s_ in slices], R, n_iter_max=1, init=(w.copy(), [f.copy() for f in Fs], [p.copy() for p in projs]),
                                             nn_modes="all", linesearch=False, normalize_factors=nm, n_iter_parafac=nip, tol=1e-8), timeout=120)
        if st != "ok" or not finite_all(r[0], *r[1]) or collapsed_component(r[1], "parafac2 outer iteration"):
            continue
        w1, f1 = (w, Fs)
        if nm:
            w1, f1 = cp_normalize((w.copy(), [f.copy() for f in Fs]))
            w1, f1 = np.asarray(w1), [np.asarray(f) for f in f1]
        f1 = [f.copy() for f in f1]
        f1[1] = f1[1] * w1.reshape(1, -1)
        st2, T = C.call_impl(lambda: P2._project_tensor_slices(slices, P2._compute_projections(slices, f1, "truncated_svd")))
        if st2 != "ok":
            continue
        T = np.asarray(T)
        op = f"(OP2Iter {C.qtensor(T.shape, [float(x) for x in T.reshape(-1)])} {qvec_lit(w)} {qmats_lit(Fs)} {nip}%nat {C.boolc(nm)} {C.q(1e-8)})"
        scale = max(1.0, max(float(np.abs(f).max()) for f in r[1]), float(np.abs(r[0]).max()))
        out.append((op, Fraction(scale) / 10 ** 8, r[0], list(r[1]),
                    {"corr": "parafac2 outer iteration", "slices": slices, "weights": w, "factors": Fs, "normalize": nm, "n_iter_parafac": nip}))
    return out


# ============================================================================= round 5: corr:C10-static -- sign analysis of the regenerated bodies
SIGN_TARGETS = [
    # (file under tensorly/, function, sign assumptions on the parameters, `if` tests taken as true / as false for the analysed configuration)
    ("decomposition/_nn_cp.py", "non_negative_parafac", {"init": "SgNN"}, (), ()),
    ("decomposition/_nn_cp.py", "non_negative_parafac_hals", {"init": "SgNN"}, ("mode in nn_modes",), ()),      # nn_modes='all': every updated mode is declared
    ("decomposition/_tucker.py", "non_negative_tucker", {}, (), ()),
    ("decomposition/_tucker.py", "non_negative_tucker_hals", {}, (), ()),
    # the two solvers whose call contracts the bodies above use: warm start V >= 0, epsilon >= 0 / x >= 0, non_negative=True, epsilon >= 0
    ("solvers/nnls.py", "hals_nnls", {"V": "SgNN", "epsilon": "SgNN"}, (), ("V is None",)),
    ("solvers/nnls.py", "fista", {"x": "SgNN", "epsilon": "SgNN"}, ("non_negative",), ()),
]


def corr_sign(chk):
    """the bodies of the four non_negative_* entry points (and of hals_nnls / fista in the configuration the entry points call them) are re-translated from the CURRENT source (ast, harness/props/C10_sign.py) into programs of
    Model/NonnegSign.v; Coq evaluates the (proved sound) sign analysis on them: verdict 0 = the returned decomposition is entrywise >= 0 in every
    reachable state.  Fail closed: an untranslatable construct or a stale specialisation is a broken tie."""
    from harness.props import C10_sign as S
    out, info = [], {}
    for rel, fname, signs, assume, assume_f in SIGN_TARGETS:
        path = os.path.join(C.REPO, "tensorly", rel)
        try:
            with warnings.catch_warnings():
                warnings.simplefilter("ignore")
                r = S.translate_function(open(path).read(), fname, signs, assume, assume_f)
        except (S.Untranslatable, SyntaxError, OSError) as e:
            chk.broken.append({"what": f"corr:C10-static: {fname} ({rel}) cannot be translated into the sign-analysis language (broken tie)", "detail": str(e)[:300]})
            continue
        info[fname] = {k: r[k] for k in ("n_stmts", "n_vars", "n_returns", "unknown_calls")}
        op = f"(OSign {r['prog']} {r['a0']} {r['ret']})"
        out.append((op, Fraction(0), [0.0], [], {"corr": f"corr:C10-static {fname}", "file": rel, "function": fname, "assumed_true": list(assume), "assumed_false": list(assume_f),
                                                 "parameter_signs": signs, "statements": r["n_stmts"], "variables": r["n_vars"]}))
    chk.cov["static_sign_analysis"] = info
    return out


# ============================================================================= round 6: corr:C10-flow -- flow-sensitive analysis of structured bodies (closures / callees / methods inlined)
_P2_TRUE = ("nn_modes is not None and isinstance(init, str)", "mode in nn_modes_init", "self.nn_modes", "self.nn_modes == 'all'", "mode in nn_modes")
_P2_FALSE = ("nn_modes is None", "isinstance(init, (tuple, list, Parafac2Tensor, CPTensor))")
_P2_CALLEES = {"initialize_decomposition": ("decomposition/_parafac2.py", "initialize_decomposition", None),
               "line_step": ("decomposition/_parafac2.py", "line_step", "_BroThesisLineSearch"),
               "non_negative_parafac_hals": ("decomposition/_nn_cp.py", "non_negative_parafac_hals", None)}
_CC_CALLEES = {"initialize_constrained_parafac": ("decomposition/_constrained_cp.py", "initialize_constrained_parafac", None),
               "admm": ("solvers/admm.py", "admm", None), "proximal_operator": ("tenalg/proximal.py", "proximal_operator", None)}
FLOW_TARGETS = [
    # (label, file, function, parameter signs, tests taken as true, as false, callees to inline[, split[, records]])
    ("active_set_nnls (x >= 0)", "solvers/nnls.py", "active_set_nnls", {"x": "SgNN"}, (), (), {}),
    # round 7: ANY (signed) start when at least one iteration runs (n_iter_max >= 1): the outer loop is peeled once, every iteration ends with the clip
    ("active_set_nnls (ANY signed start, n_iter_max >= 1)", "solvers/nnls.py", "active_set_nnls", {}, (), (), {}, None, None,
     {"peel": ("iteration in range(n_iter_max)",)}),
    # round 7: the two inner solvers once more, flow-sensitively (the ORDER of the l1 shift / ridge and the projection matters: strong updates)
    ("hals_nnls (warm start V >= 0, epsilon >= 0, any sparsity / ridge coefficient)", "solvers/nnls.py", "hals_nnls", {"V": "SgNN", "epsilon": "SgNN"}, (), ("V is None",), {}),
    ("fista (non_negative=True, x >= 0, epsilon >= 0)", "solvers/nnls.py", "fista", {"x": "SgNN", "epsilon": "SgNN"}, ("non_negative",), (), {}),
    ("initialize_tucker (non_negative=True, any init incl. a signed user start)", "decomposition/_tucker.py", "initialize_tucker", {}, ("non_negative is True",), (), {}),
    ("initialize_cp (non_negative=True: built-in init or an entrywise non-negative user init)", "decomposition/_cp.py", "initialize_cp", {"init": "SgNN"},
     ("non_negative",), (), {}, None, {"kt": ("weights", "factors")}),
    ("parafac2 (nn_modes='all', built-in init, default line search)", "decomposition/_parafac2.py", "parafac2", {}, _P2_TRUE, _P2_FALSE, _P2_CALLEES),
    ("parafac2 (nn_modes='all', USER init with entrywise non-negative weights and factors, arbitrary projections, default line search)", "decomposition/_parafac2.py", "parafac2",
     {"init@weights": "SgNN", "init@factors": "SgNN"},
     ("isinstance(init, (tuple, list, Parafac2Tensor, CPTensor))", "self.nn_modes", "self.nn_modes == 'all'", "mode in nn_modes"),
     ("init == 'random'", "init == 'svd'", "nn_modes is None", "nn_modes is not None and isinstance(init, str)"), _P2_CALLEES, None,
     {"init": ("weights", "factors", "projections"), "initialize_decomposition.decomposition": ("weights", "factors", "projections")}),
    ("parafac2 (nn_modes='all', built-in init, linesearch=False)", "decomposition/_parafac2.py", "parafac2", {},
     _P2_TRUE[:2] + _P2_TRUE[4:], _P2_FALSE + ("line_iter", "linesearch and iteration % 2 == 0 and (iteration > 5)"), _P2_CALLEES),
    ("constrained_parafac (non_negative=True, any built-in or entrywise non-negative user init)", "decomposition/_constrained_cp.py", "constrained_parafac",
     {"init": "SgNN"}, ("constraint == 'non_negative'",), ("n_const is None", "constraint is None"), _CC_CALLEES),
    # round 7: the line-search step for ANY nn_modes LIST: the extrapolated factors of the declared modes (self.nn_modes) are all replaced by their clipped values; a rejected
    # jump returns the current factors (declared modes >= 0 by assumption)
    ("_BroThesisLineSearch.line_step (ANY nn_modes list: the factors of the declared modes, accepted or rejected jump)", "decomposition/_parafac2.py", ("line_step", "_BroThesisLineSearch"),
     {"factors@D": "SgNN"}, ("self.nn_modes",), ("self.nn_modes == 'all'",), {}, None, None,
     {"msplit": {"lists": {"factors": (), "factors_ls": (), "factors_last": ()}, "declared_iters": ("self.nn_modes",)}}),
    # round 7: ANY per-mode non_negative argument (list / dictionary): the guard is implicit (validate_constraints(..., order=mode) inside the inlined proximal_operator):
    # `factors` is split into the arrays of the REGISTERED modes and the others, every mode loop is analysed once per case
    ("constrained_parafac (ANY per-mode non_negative list / dictionary: the factors of the registered modes; built-in or entrywise non-negative user init)",
     "decomposition/_constrained_cp.py", "constrained_parafac", {"init": "SgNN"}, (), ("n_const is None",), _CC_CALLEES, None, None,
     {"msplit": {"lists": {"factors": ("mode", "i")}, "declared_true": ("constraint == 'non_negative'",), "declared_false": ("constraint is None",),
                 "undeclared_false": ("constraint == 'non_negative'",)}}),
    # ANY nn_modes ('all', None, a list): `factors` is split into the arrays of the declared modes (guard `mode in nn_modes`) and the others; the verdict is
    # about the weights and the declared factors; cp_normalize is used through its declared-modes contract (c_cpnorm_D)
    ("non_negative_parafac_hals (any nn_modes: weights and the factors of the declared modes)", "decomposition/_nn_cp.py", "non_negative_parafac_hals",
     {"init": "SgNN"}, (), (), {}, {"factors": "mode in nn_modes"}),
    # the six bodies of corr:C10-static once more, structured (strong updates make the analysis independent of variable re-use)
    ("non_negative_parafac", "decomposition/_nn_cp.py", "non_negative_parafac", {"init": "SgNN"}, (), (), {}),
    ("non_negative_parafac_hals (nn_modes='all')", "decomposition/_nn_cp.py", "non_negative_parafac_hals", {"init": "SgNN"}, ("mode in nn_modes",), (), {}),
    ("non_negative_tucker", "decomposition/_tucker.py", "non_negative_tucker", {}, (), (), {}),
    ("non_negative_tucker_hals", "decomposition/_tucker.py", "non_negative_tucker_hals", {}, (), (), {}),
]


def corr_flow(chk):
    """structured bodies regenerated from the CURRENT source (FlowTranslator of harness/props/C10_sign.py); Coq evaluates the flow-sensitive analysis of
    Model/NonnegFlow.v (sound by C10_flow_analysis_sound): verdict 0 = every value the function can return is entrywise >= 0.  Fail closed."""
    from harness.props import C10_sign as S
    out, info = [], {}
    def src(rel):
        return open(os.path.join(C.REPO, "tensorly", rel)).read()
    for label, rel, fname, signs, assume, assume_f, callees, *rest in FLOW_TARGETS:
        split = rest[0] if rest else None
        records = rest[1] if len(rest) > 1 else None
        extra = rest[2] if len(rest) > 2 else {}
        try:
            with warnings.catch_warnings():
                warnings.simplefilter("ignore")
                fn_, cls_ = (fname, None) if isinstance(fname, str) else fname
                r = S.translate_flow(src(rel), fn_, signs, assume, assume_f, {k: (src(v[0]), v[1], v[2]) for k, v in callees.items()}, split=split, records=records,
                                     **dict(extra, **({"cls": cls_} if cls_ else {})))
        except (S.Untranslatable, SyntaxError, OSError, IndexError, KeyError) as e:
            chk.broken.append({"what": f"corr:C10-flow: {label} ({rel}) cannot be translated into the structured sign-analysis language (broken tie)",
                               "detail": f"{type(e).__name__}: {e}"[:300]})
            continue
        info[label] = {k: r[k] for k in ("n_stmts", "n_vars", "n_inlined")}
        op = f"(OFlow {r['prog']} {r['a0']})"
        out.append((op, Fraction(0), [0.0], [], {"corr": f"corr:C10-static (flow) {label}", "file": rel, "function": fname, "assumed_true": list(assume),
                                                 "assumed_false": list(assume_f), "inlined": sorted(callees), "parameter_signs": signs,
                                                 "statements": r["n_stmts"], "variables": r["n_vars"]}))
    chk.cov["flow_sign_analysis"] = info
    return out


# ============================================================================= round 6: complete parafac2 runs of several outer iterations, line search inside the loop
def corr_parafac2_run(rng, tier):
    """parafac2(nn_modes='all', init=(weights, factors, projections), tol=0, n_iter_max=n) with n in 2..9, with and without the line search: the projected
    tensor of every outer iteration (SVD oracle) is recorded by interposing _project_tensor_slices, the jump and the acceptance of every line-search
    iteration by interposing _BroThesisLineSearch.line_step (harness-level, /repo untouched); the model replays the whole run (Corr.C10.p2run_fx).
    Tiny shapes and rank 1-2: a rank-1 inner HALS call stops after 2 sweeps, which keeps a 9-iteration run cheap."""
    import sys as _sys
    from tensorly.decomposition import parafac2
    from tensorly.decomposition import _parafac2 as P2
    out = []
    nrun = 2 if tier == "quick" else 9
    for k in range(nrun):
        I, J, K = rng.randint(2, 3), rng.randint(2, 3), rng.randint(2, 3)
        ls = (k % 3 == 0)
        R = 2 if (tier != "quick" and k == 1) else 1       # rank 2: every inner HALS call runs its 100 sweeps (~20 CPU s per case: one short run per thorough check)
        n = (7 if tier == "quick" else rng.choice([7, 9])) if ls else (rng.choice([2, 3, 4]) if R == 1 else 2)
        slices = [np.array([[rng.gauss(0, 1) for _ in range(K)] for _ in range(J)]) for _ in range(I)]
        if rng.random() < 0.3:
            slices = [np.abs(s_) for s_ in slices]
        Fs = [np.array([[rng.random() + 0.1 for _ in range(R)] for _ in range(d)]) for d in (I, R, K)]
        w = np.ones(R) if rng.random() < 0.5 else np.array([rng.choice([0.5, 2.0, 1.5]) for _ in range(R)])
        projs = [np.linalg.qr(np.array([[rng.gauss(0, 1) for _ in range(R)] for _ in range(J)]))[0] for _ in range(I)]
        nm = rng.random() < 0.3
        nip = 1 if (tier == "quick" or R > 1) else rng.choice([1, 2])
        Ts, steps = [], {}
        orig_proj, orig_step = P2._project_tensor_slices, P2._BroThesisLineSearch.line_step
        def rec_proj(tensor_slices, projections):
            r_ = orig_proj(tensor_slices, projections)
            if _sys._getframe(1).f_code.co_name == "parafac2":
                Ts.append(np.array(r_, copy=True))
            return r_
        def rec_step(self, iteration, tensor_slices, factors_last, weights, factors, projections, rec_error):
            jump = iteration ** (1.0 / self.acc_pow)
            r_ = orig_step(self, iteration, tensor_slices, factors_last, weights, factors, projections, rec_error)
            steps[iteration] = (jump, r_[0] is not factors)
            return r_
        P2._project_tensor_slices, P2._BroThesisLineSearch.line_step = rec_proj, rec_step
        try:
            with _SweepCounter() as sweeps:
                st, r = quiet_call(lambda: parafac2([s_.copy() for s_ in slices], R, n_iter_max=n, init=(w.copy(), [f.copy() for f in Fs], [p.copy() for p in projs]),
                                                    nn_modes="all", linesearch=ls, normalize_factors=nm, n_iter_parafac=nip, tol=0), timeout=120)
        finally:
            P2._project_tensor_slices, P2._BroThesisLineSearch.line_step = orig_proj, orig_step
        if st != "ok" or not finite_all(r[0], *r[1]) or len(Ts) != n or collapsed_component(r[1], "parafac2 complete run"):
            continue
        if sweeps.n > (450 if tier == "quick" else 1500):      # an inner HALS call that does not stop after its second sweep runs 100: ~0.05 CPU s per replayed sweep
            COST_SKIPPED.append(f"parafac2 complete run with {sweeps.n} inner sweeps")
            continue
        lines = [steps[i][0] if i in steps else None for i in range(n)]
        accepts = [bool(steps[i][1]) if i in steps else False for i in range(n)]
        Ts_lit = "[" + "; ".join(C.qtensor(T_.shape, [float(x) for x in T_.reshape(-1)]) for T_ in Ts) + "]"
        op = (f"(OP2Run {Ts_lit} {qvec_lit(w)} {qmats_lit(Fs)} {nip}%nat {C.boolc(nm)} {C.q(1e-8)} {opt_list_lit(lines)} "
              f"[{'; '.join(C.boolc(a) for a in accepts)}])")
        scale = max(1.0, max(float(np.abs(f).max()) for f in r[1]), float(np.abs(r[0]).max()))
        out.append((op, Fraction(scale) / 10 ** 7, r[0], list(r[1]),
                    {"corr": "parafac2 complete run (several outer iterations" + (", line search inside the loop)" if ls else ")"), "slices": slices, "weights": w,
                     "factors": Fs, "normalize": nm, "n_iter_parafac": nip, "n": n, "linesearch": ls,
                     "line_search_iterations": sorted(steps), "accepted": [i for i in sorted(steps) if steps[i][1]]}))
    return out


# ============================================================================= round 7: complete parafac2 runs for ANY nn_modes list and for a user-supplied line-search object
OWN_LS_MISMATCH = []


def parafac2_projects_user_line_step():
    """behavioural probe (round 8): does parafac2 project the step returned by a CALLER-MADE line-search object on the declared modes?  The current code uses the step as it is
    (known finding parafac2_user_linesearch_own_nn_modes); the candidate repair build/fix_candidates/C10_parafac2_user_linesearch_v2.diff clips it.  The executed model of OP2RunG
    follows whichever behaviour the implementation shows: clipping on ls_nn and then on nn is clipping on their union (Model/NonnegP2Ls.v parafac2_ls with ls_nn := ls_nn ++ nn)."""
    from tensorly.decomposition import parafac2
    from tensorly.decomposition._parafac2 import _BroThesisLineSearch

    class Probe(_BroThesisLineSearch):
        def line_step(self, iteration, tensor_slices, factors_last, weights, factors, projections, rec_error):
            fs = [np.array(f, copy=True) for f in factors]
            fs[0] = -np.abs(fs[0]) - 1.0
            return fs, projections, rec_error
    X = np.arange(1.0, 13.0).reshape(2, 3, 2) % 5 + 0.5
    st, r = quiet_call(lambda: parafac2(X, 1, n_iter_max=7, init="random", random_state=0, nn_modes=[0], linesearch=Probe(1.0, "truncated_svd", nn_modes=[]), tol=0,
                                        normalize_factors=False, n_iter_parafac=1), timeout=60)
    return bool(st == "ok" and (np.asarray(r[1][0]) >= 0).all())


def probe_own_linesearch_modes():
    """round 8, deterministic tie (no random draw, ~25 tiny runs): the line-search object parafac2 BUILDS ITSELF for linesearch=True must clip on every declared mode, for every
    combination of normalize_factors x init x nn_modes form x tensor / slice-list input; read off the object at its first line-search step (cap 7) by interposing line_step"""
    from tensorly.decomposition import parafac2
    from tensorly.decomposition import _parafac2 as P2
    X = (np.arange(1.0, 25.0).reshape(2, 3, 4) * 7 % 11) - 4.0
    orig_step = P2._BroThesisLineSearch.line_step
    for nm in (False, True):
        for init in ("random", "svd"):
            for nn in ([0], [2], [0, 2], [1, 2], [0, 1, 2], "all"):
                for as_list in ((False, True) if nn in ([0, 2], "all") else (False,)):
                    seen = []
                    def rec_step(self, *a, **k):
                        seen.append(self.nn_modes)
                        return orig_step(self, *a, **k)
                    P2._BroThesisLineSearch.line_step = rec_step
                    try:
                        st, r = quiet_call(lambda: parafac2([x_.copy() for x_ in X] if as_list else X.copy(), 2, n_iter_max=7, init=init, random_state=3,
                                                            nn_modes=nn if nn == "all" else list(nn), linesearch=True, normalize_factors=nm, tol=0, n_iter_parafac=1), timeout=60)
                    finally:
                        P2._BroThesisLineSearch.line_step = orig_step
                    if st == "ok" and seen and not all(set(mode_list(nn)) <= set(mode_list(x_)) for x_ in seen):
                        OWN_LS_MISMATCH.append({"corr": "parafac2 own line search (deterministic probe)", "nn_modes": nn, "line_search_nn_modes": repr(seen[0]), "normalize": nm, "init": init,
                                                "slice_list": as_list, "n": 7, "tensor": X})


def search_failing_input_for_own_ls(m, budget=150):
    """a mismatch of probe_own_linesearch_modes is a broken tie; look for a concrete failing input next to it (only runs when a mismatch exists): the same option
    combination on sparse signed slices at odd caps, until a declared mode comes back with a negative entry"""
    rs = random.Random(12345)
    for k in range(budget):
        I, J, K = rs.randint(2, 4), rs.randint(2, 5), rs.randint(2, 4)
        R = rs.randint(1, min(J, K, 3))
        g = np.array([rs.gauss(0, 1) for _ in range(I * J * K)]).reshape(I, J, K) * np.array([rs.random() < 0.5 for _ in range(I * J * K)]).reshape(I, J, K)
        if not g.any():
            g[0, 0, 0] = 1.0
        cfg = dict(algo="parafac2", tensor=g, klass="own-linesearch-search", rank=R, init=m["init"], n=(7, 9, 11)[k % 3], rs=rs.randrange(10 ** 6), nn_modes=m["nn_modes"],
                   opts=dict(tol=1e-300, normalize=m["normalize"], linesearch=True, n_iter_parafac=1))
        st, out = C.call_impl(quiet_run, cfg, timeout=60)
        if st == "ok" and sign_failures(cfg, out):
            return cfg
    return None


def corr_parafac2_run_g(rng, tier):
    """parafac2(nn_modes = a PARTIAL list or 'all', init=(weights, factors, projections), tol=0, n_iter_max=n), linesearch in {False, True, a _BroThesisLineSearch
    instance made by the caller with its own nn_modes}: the undeclared modes go through tl.solve (elimination inside Coq), the line search clips on the
    instance's nn_modes (Model/NonnegP2Ls.v parafac2_ls).  Recording as in corr_parafac2_run.  Rank 1 in quick (1 x 1 Gram matrices: the solve is a division)."""
    import sys as _sys
    from tensorly.decomposition import parafac2
    from tensorly.decomposition import _parafac2 as P2
    out = []
    post_clip = parafac2_projects_user_line_step()
    probe_own_linesearch_modes()
    nrun = 3 if tier == "quick" else 12
    for k in range(nrun):
        I, J, K = rng.randint(2, 3), rng.randint(2, 3), rng.randint(2, 3)
        kind = ("user", "none", "own", "user")[k % 4]
        R = 1          # rank 1: the least-squares solves of the undeclared modes are divisions by a positive number (no conditioning issue at any intermediate state); rank 2 solves: corr_hals_cp_undeclared
        n = (7 if tier == "quick" else rng.choice([7, 9])) if kind != "none" else rng.choice([2, 3, 4])
        nn = rng.choice([[0, 2], [0, 2], [2], [0], [1, 2], [0, 1]])
        if kind == "own":          # single-mode and two-mode lists in turn (the object parafac2 builds must carry exactly these)
            nn = ([2], [0, 2], [0], [1, 2])[(k // 4) % 4]
        slices = [np.array([[rng.gauss(0, 1) for _ in range(K)] for _ in range(J)]) for _ in range(I)]
        if rng.random() < 0.3:
            slices = [np.abs(s_) for s_ in slices]
        Fs = [np.array([[rng.random() + 0.1 for _ in range(R)] for _ in range(d)]) for d in (I, R, K)]
        w = np.ones(R) if rng.random() < 0.5 else np.array([rng.choice([0.5, 2.0, 1.5]) for _ in range(R)])
        projs = [np.linalg.qr(np.array([[rng.gauss(0, 1) for _ in range(R)] for _ in range(J)]))[0] for _ in range(I)]
        nm = rng.random() < 0.3
        ls_nn = None
        if kind == "own":
            ls, ls_nn = True, nn
        elif kind == "user":
            ls_nn = rng.choice([None, [], [1], "all", nn, [nn[0]]])
            ls = make_user_linesearch(slices, ls_nn)
        else:
            ls = False
        Ts, steps, seen_nn = [], {}, []
        orig_proj, orig_step = P2._project_tensor_slices, P2._BroThesisLineSearch.line_step
        def rec_proj(tensor_slices, projections):
            r_ = orig_proj(tensor_slices, projections)
            if _sys._getframe(1).f_code.co_name == "parafac2":
                Ts.append(np.array(r_, copy=True))
            return r_
        def rec_step(self, iteration, tensor_slices, factors_last, weights, factors, projections, rec_error):
            jump = iteration ** (1.0 / self.acc_pow)
            r_ = orig_step(self, iteration, tensor_slices, factors_last, weights, factors, projections, rec_error)
            steps[iteration] = (jump, r_[0] is not factors)
            seen_nn.append(self.nn_modes)
            return r_
        P2._project_tensor_slices, P2._BroThesisLineSearch.line_step = rec_proj, rec_step
        try:
            with _SweepCounter() as sweeps:
                st, r = quiet_call(lambda: parafac2([s_.copy() for s_ in slices], R, n_iter_max=n, init=(w.copy(), [f.copy() for f in Fs], [p.copy() for p in projs]),
                                                    nn_modes=list(nn), linesearch=ls, normalize_factors=nm, n_iter_parafac=1, tol=0), timeout=120)
        finally:
            P2._project_tensor_slices, P2._BroThesisLineSearch.line_step = orig_proj, orig_step
        if sweeps.n > (450 if tier == "quick" else 1500):
            COST_SKIPPED.append(f"parafac2 complete run (partial nn_modes) with {sweeps.n} inner sweeps")
            continue
        # the line search parafac2 builds itself (linesearch=True) must clip on every declared mode: read off the object it actually used
        if kind == "own" and st == "ok" and seen_nn and not all(set(nn) <= set(mode_list(x_)) for x_ in seen_nn):
            OWN_LS_MISMATCH.append({"corr": "parafac2 own line search", "nn_modes": nn, "line_search_nn_modes": repr(seen_nn[0]), "slices": slices, "n": n})
        if st != "ok" or not finite_all(r[0], *r[1]) or len(Ts) != n or collapsed_component(r[1], "parafac2 complete run (partial nn_modes)"):
            continue
        # the undeclared modes are least-squares solves: keep the well-conditioned runs (the Gram matrices of the returned factors; rank 1: a positive number)
        grams = [np.asarray(f).T @ np.asarray(f) for f in r[1]]
        if any((not np.all(np.isfinite(g_))) or np.linalg.cond(g_) > 1e6 or abs(np.linalg.det(g_)) < 1e-8 for g_ in grams):
            continue
        lines = [steps[i][0] if i in steps else None for i in range(n)]
        accepts = [bool(steps[i][1]) if i in steps else False for i in range(n)]
        Ts_lit = "[" + "; ".join(C.qtensor(T_.shape, [float(x) for x in T_.reshape(-1)]) for T_ in Ts) + "]"
        op = (f"(OP2RunG {Ts_lit} {qvec_lit(w)} {qmats_lit(Fs)} {C.nat_list(nn)} {C.nat_list(sorted(set(mode_list(ls_nn)) | set(nn)) if post_clip else mode_list(ls_nn))} 1%nat {C.boolc(nm)} {C.q(1e-8)} {opt_list_lit(lines)} "
              f"[{'; '.join(C.boolc(a) for a in accepts)}])")
        scale = max(1.0, max(float(np.abs(f).max()) for f in r[1]), float(np.abs(r[0]).max()))
        out.append((op, Fraction(scale) / 10 ** 7, r[0], list(r[1]),
                    {"corr": "parafac2 complete run, partial nn_modes" + {"none": "", "own": ", own line search", "user": ", user-supplied line-search object"}[kind],
                     "slices": slices, "weights": w, "factors": Fs, "normalize": nm, "nn_modes": nn, "linesearch": kind, "linesearch_nn_modes": ls_nn, "n": n,
                     "parafac2_projects_the_returned_line_step_on_the_declared_modes": post_clip,
                     "line_search_iterations": sorted(steps), "accepted": [i for i in sorted(steps) if steps[i][1]]}))
    return out


def nn_spec_lit(spec):
    if spec is None:
        return "NSNone"
    if isinstance(spec, bool):
        return f"(NSBool {C.boolc(spec)})"
    if isinstance(spec, list):
        return "(NSList [" + "; ".join(C.boolc(bool(b)) for b in spec) + "])" if spec else "(NSList (@nil bool))"
    items = "; ".join(f"({C.z(int(k))}, {C.boolc(bool(v))})" for k, v in spec.items())
    return f"(NSDict [{items}])" if spec else "(NSDict (@nil (Z * bool)))"


def corr_ccp_spec(rng, tier):
    """round 7: complete constrained_parafac runs with the RAW non_negative argument (True / False / list of booleans, possibly short / dictionary with negative
    keys and False values), raw fixed_modes (None / [] / lists containing the last mode) and non-unit user weights: the registration of validate_constraints, the
    fixed-mode glue and the absorption of the weights are part of the executed model (Model/NonnegCcpSpec.v constrained_parafac_entry)"""
    from tensorly.decomposition import constrained_parafac
    out = []
    nrun = 6 if tier == "quick" else 40
    for k in range(nrun):
        order = rng.choice([2, 3])
        shape = tuple(rng.randint(2, 3) for _ in range(order))
        rank = rng.choice([1, 2])
        X = gen_float_tensor(rng, shape, rng.choice(["signed", "signed", "nonneg", "negative", "sparse"]))
        Fs = [np.array([[rng.random() + 0.1 for _ in range(rank)] for _ in range(s)]) for s in shape]
        w = np.ones(rank) if rng.random() < 0.4 else np.array([rng.choice([0.5, 2.0, 1.5]) for _ in range(rank)])
        form = rng.choice(["true", "list", "list", "shortlist", "negkey", "falseval", "dict", "false"])
        if form == "true":
            spec = True
        elif form == "false":
            spec = False
        elif form == "list":
            spec = [rng.random() < 0.6 for _ in range(order)]
        elif form == "shortlist":
            spec = [True] + [rng.random() < 0.5 for _ in range(order - 2)]
        elif form == "negkey":
            spec = {-rng.randint(1, order): True}
            if rng.random() < 0.5 and order == 3:
                spec[0] = True
                if -order in spec:
                    del spec[0]
        elif form == "falseval":
            ms = rng.sample(range(order), 2)
            spec = {ms[0]: True, ms[1]: False}
        else:
            spec = {m: True for m in sorted(rng.sample(range(order), rng.randint(1, order)))}
        u = rng.random()
        fixed = None if u < 0.4 else [] if u < 0.6 else [rng.randrange(order)] if u < 0.9 else sorted({rng.randrange(order), order - 1})
        n, inner = rng.choice([1, 1, 2]), rng.choice([1, 2, 3])
        arg = (dict(spec) if isinstance(spec, dict) else list(spec) if isinstance(spec, list) else spec)
        st, r = quiet_call(lambda: constrained_parafac(X.copy(), rank, n_iter_max=n, n_iter_max_inner=inner, init=(w.copy(), [f.copy() for f in Fs]),
                                                        tol_outer=0, tol_inner=0, fixed_modes=None if fixed is None else list(fixed), non_negative=arg), timeout=120)
        if st == "reject" and "LinAlgError" not in str(r) and "ingular" not in str(r):      # a singular ADMM system (a factor clipped to zero on degenerate data) is a legitimate outcome: counted, not judged
            IMPL_REJECTS.append({"corr": "constrained_parafac (raw non_negative)", "raised": r, "tensor": X, "weights": w, "factors": Fs, "non_negative": repr(spec), "fixed": fixed})
        if st != "ok" or not finite_all(*r[1]):
            continue
        op = (f"(OCcpE {C.qtensor(shape, [float(x) for x in X.reshape(-1)])} {qvec_lit(w)} {qmats_lit(Fs)} {nn_spec_lit(spec)} {optfixed_lit(fixed)} {n}%nat {inner}%nat)")
        scale = max(1.0, max(float(np.abs(f).max()) for f in r[1]))
        out.append((op, Fraction(scale) / 10 ** 8, [], list(r[1]),
                    {"corr": "constrained_parafac (raw non_negative argument)", "tensor": X, "weights": w, "factors": Fs, "non_negative": repr(spec), "form": form,
                     "fixed": fixed, "n": n, "inner": inner}))
    return out


def corr_hals_cp_undeclared(rng, tier):
    """round 7: complete non_negative_parafac_hals runs in which some UPDATED modes are NOT declared (nn_modes a strict sub-list / None): those modes are
    least-squares solves (tl.solve; elimination inside Coq), the declared ones HALS; raw options as in corr_hals_cp.  Well-conditioned runs only (the weighted
    Hadamard Gram of the other factors before and after the run)."""
    from tensorly.decomposition import non_negative_parafac_hals
    out = []
    nrun = 4 if tier == "quick" else 14
    for k in range(nrun):
        order = rng.choice([2, 3, 3])
        shape = tuple(rng.randint(2, 3 if tier == "quick" else 4) for _ in range(order))
        rank = rng.choice([1, 2]) if tier != "quick" else (2 if k == 0 else 1)
        X = gen_float_tensor(rng, shape, rng.choice(["signed", "signed", "nonneg", "sparse"]))
        # columns with distinct dominant rows: the Hadamard Gram matrices stay well conditioned
        Fs = [np.array([[0.3 * rng.random() + 0.05 + (1.0 if i % rank == j else 0.0) for j in range(rank)] for i in range(s)]) for s in shape]
        w = np.ones(rank) if rng.random() < 0.6 else np.array([rng.choice([0.5, 2.0, 1.0]) for _ in range(rank)])
        nm = rng.random() < 0.3
        nn = None if rng.random() < 0.2 else sorted(rng.sample(range(order), rng.randint(1, order - 1)))
        sps = None if rng.random() < 0.6 else [rng.choice([None, 0.0, 0.1]) for _ in range(order)]
        n = 1 if rank == 2 else rng.choice([1, 2])
        fixed_raw = rng.choice([None, [], None])
        st, r = quiet_call(lambda: non_negative_parafac_hals(X.copy(), rank, n_iter_max=n, init=(w.copy(), [f.copy() for f in Fs]), tol=0, normalize_factors=nm,
                                                             fixed_modes=None if fixed_raw is None else list(fixed_raw), nn_modes=nn,
                                                             sparsity_coefficients=None if sps is None else list(sps)), timeout=120)
        if st != "ok" or not finite_all(r[0], *r[1]) or collapsed_component(r[1], "non_negative_parafac_hals (undeclared modes)"):
            continue
        def hadamard_ok(fs):
            for m in range(order):
                G = np.ones((rank, rank))
                for i, f in enumerate(fs):
                    if i != m:
                        f = np.asarray(f); G = G * (f.T @ f)
                if not np.all(np.isfinite(G)) or np.linalg.cond(G) > 1e5 or abs(np.linalg.det(G)) < 1e-9:
                    return False
            return True
        # every intermediate state of a single sweep (modes updated so far at their final value, the others at their initial value)
        mixed_ok = n != 1 or all(hadamard_ok([np.asarray(r[1][i]) if i < m else Fs[i] for i in range(order)]) for m in range(1, order))
        if not (hadamard_ok(Fs) and hadamard_ok(r[1]) and mixed_ok) or (rank > 1 and n != 1):
            continue
        nn_lit = "NNNone" if nn is None else f"(NNList {C.nat_list(nn)})"
        op = (f"(OHalsCpE {C.qtensor(shape, [float(x) for x in X.reshape(-1)])} {qvec_lit(w)} {qmats_lit(Fs)} {optfixed_lit(fixed_raw)} {nn_lit} "
              f"{spopt_lit(sps)} {C.boolc(nm)} {n}%nat {C.q(1e-8)})")
        scale = max(1.0, max(float(np.abs(f).max()) for f in r[1]), float(np.abs(r[0]).max()))
        out.append((op, Fraction(scale) / 10 ** 7, r[0], list(r[1]),
                    {"corr": "non_negative_parafac_hals (updated modes that are not declared: least-squares solves)", "tensor": X, "weights": w, "factors": Fs, "normalize": nm,
                     "fixed": fixed_raw, "nn_modes": nn, "sparsity": sps, "n": n}))
    return out
