"""C10 -- ast translator: the CURRENT Python source of a non-negative decomposition -> a `list stmt` of Model/NonnegSign.v.

One statement per assignment of the function body (any nesting); values are bags of entries; everything that is not recognised
becomes XAny (the analysis then cannot establish a sign through it: fail closed).  Constructs the translator cannot represent at
all (nested functions, starred targets, global/nonlocal, del, walrus) raise Untranslatable -> reported as a broken tie.

Trusted conventions of the translation (the Coq theorem is about the translated program):
* a local variable gets one model variable per assignment (`x#k`) plus `x#all`, which every assignment to x also writes; a use refers
  to `x#k` only when that assignment is an earlier statement of the same or of an enclosing block and nothing in between (nor the
  compound statement containing the use) assigns x; otherwise to `x#all`;
* `x[i] = e`, `x[i] op= e`, `x.attr = e`, `x.append(e)`, `x op= e` update (SUpdate) every model variable of every name that may
  alias x (names connected by assignments whose right-hand side is a view / container of the other: plain names, subscripts, tuples,
  CPTensor / TuckerTensor / list / .copy() / transpose / reshape / unfold ...);
* a `return a, b` returns the decomposition in its first component;
* `assume_true` / `assume_false`: tests of `if` statements (source text) fixed for the analysed configuration: only the body (spliced into
  the enclosing block) / only the else branch is translated (e.g. `mode in nn_modes` for nn_modes='all', `V is None` false for a warm
  start); an assumption that matches no `if` is reported (stale specialisation)."""
import ast

FN = {"hals_nnls": "FHalsNnls", "fista": "FFista", "active_set_nnls": "FActiveSet", "cp_normalize": "FCpNormalize",
      "tucker_normalize": "FTuckerNormalize", "initialize_cp": "FInitCp", "initialize_tucker": "FInitTucker"}
PASS_THROUGH = {"transpose", "reshape", "copy", "conj", "unfold", "tensor_to_vec", "vec_to_tensor", "tensor", "list", "tuple", "CPTensor", "TuckerTensor",
                "enumerate", "reversed", "sorted", "fold", "moveaxis", "to_numpy", "max", "min"}
COPIES = {"copy"}            # tl.copy: a new array, no aliasing (x.copy() on a list is shallow: treated as aliasing)
POLY = {"dot", "matmul", "mode_dot", "multi_mode_dot", "tucker_to_tensor", "tucker_to_unfolded", "cp_to_tensor", "cp_to_unfolded", "kronecker",
        "khatri_rao", "unfolding_dot_khatri_rao", "sum", "inner", "outer", "tensordot", "einsum", "trace"}
NONNEG_CALLS = {"ones", "zeros", "norm", "range", "len", "ndim", "shape", "eye", "cp_norm"}
POS_CALLS = {"eps"}


class Untranslatable(Exception):
    pass


def _dotted(f):
    if isinstance(f, ast.Name):
        return f.id
    if isinstance(f, ast.Attribute):
        return _dotted(f.value) + "." + f.attr if _dotted(f.value) else f.attr
    return ""


def _assigned_names(node):
    """names assigned anywhere inside the statement(s) (any nesting), incl. element / attribute updates and loop targets"""
    out = set()
    def tgt(t):
        if isinstance(t, ast.Name):
            out.add(t.id)
        elif isinstance(t, (ast.Tuple, ast.List)):
            for e in t.elts:
                tgt(e)
        elif isinstance(t, (ast.Subscript, ast.Attribute)):
            b = t
            while isinstance(b, (ast.Subscript, ast.Attribute)):
                b = b.value
            if isinstance(b, ast.Name):
                out.add(b.id)
        elif isinstance(t, ast.Starred):
            tgt(t.value)
    for n in ast.walk(node):
        if isinstance(n, ast.Assign):
            for t in n.targets:
                tgt(t)
        elif isinstance(n, (ast.AugAssign, ast.AnnAssign)):
            tgt(n.target)
        elif isinstance(n, (ast.For, ast.AsyncFor)):
            tgt(n.target)
        elif isinstance(n, ast.With):
            for it in n.items:
                if it.optional_vars is not None:
                    tgt(it.optional_vars)
        elif isinstance(n, ast.NamedExpr):
            tgt(n.target)
        elif isinstance(n, ast.Expr) and isinstance(n.value, ast.Call) and isinstance(n.value.func, ast.Attribute) \
                and n.value.func.attr in ("append", "extend", "insert") and isinstance(n.value.func.value, ast.Name):
            out.add(n.value.func.value.id)
        elif isinstance(n, ast.ExceptHandler) and n.name:
            out.add(n.name)
    return out


class Translator:
    def __init__(self, fdef, param_signs, assume_true=(), assume_false=()):
        self.fdef = fdef
        self.vars = {}              # (name, version) -> id ; version "all" or int
        self.order = []
        self.nver = {}
        self.stmts = []             # ("assign", [ids], sx) | ("update", name, sx)
        self.returns = []
        self.alias = {}             # union-find over names
        self.assume = {a: 0 for a in assume_true}
        self.assume_f = {a: 0 for a in assume_false}
        self.unknown_calls = {}
        self.params = []
        a = fdef.args
        if a.vararg or a.kwarg:
            raise Untranslatable("*args / **kwargs in the signature")
        for p in a.posonlyargs + a.args + a.kwonlyargs:
            self.params.append(p.arg)
            self.vid(p.arg, "all")
        self.param_signs = dict(param_signs)

    # ------------------------------------------------------------ variables
    def vid(self, name, ver):
        k = (name, ver)
        if k not in self.vars:
            self.vars[k] = len(self.order)
            self.order.append(k)
        return self.vars[k]

    def find(self, x):
        while self.alias.get(x, x) != x:
            x = self.alias[x]
        return x

    def union(self, x, y):
        x, y = self.find(x), self.find(y)
        if x != y:
            self.alias[x] = y

    # ------------------------------------------------------------ expressions
    def tx(self, e, cur, sub=None):
        sub = sub or {}
        T = lambda x: self.tx(x, cur, sub)
        if isinstance(e, ast.Name):
            if e.id in sub:
                return sub[e.id]
            if e.id in ("None", "True", "False"):
                return "XNonneg"
            if e.id in cur:
                return f"(XVar {cur[e.id]}%nat)"
            return f"(XVar {self.vid(e.id, 'all')}%nat)"
        if isinstance(e, ast.Constant):
            v = e.value
            if isinstance(v, bool) or v is None or isinstance(v, (str, bytes)):
                return "XNonneg"
            if isinstance(v, (int, float)):
                return "XPos" if v > 0 else "XNonneg" if v == 0 else "XAny"
            return "XAny"
        if isinstance(e, ast.BinOp):
            a, b = T(e.left), T(e.right)
            if isinstance(e.op, ast.Mult):
                return f"(XMul {a} {b})"
            if isinstance(e.op, ast.Add):
                return f"(XAdd {a} {b})"
            if isinstance(e.op, ast.Div):
                return f"(XDiv {a} {b})"
            if isinstance(e.op, ast.MatMult):
                return f"(XPoly (XPair {a} {b}))"
            return "XAny"
        if isinstance(e, ast.Subscript):
            return f"(XSub {T(e.value)})"
        if isinstance(e, ast.Attribute):
            return f"(XSub {T(e.value)})"
        if isinstance(e, ast.Starred):
            return f"(XSub {T(e.value)})"
        if isinstance(e, (ast.Tuple, ast.List)):
            r = "XNonneg"
            for x in reversed(e.elts):
                r = f"(XPair {T(x)} {r})"
            return r
        if isinstance(e, ast.IfExp):
            src = ast.unparse(e.test)
            if src in self.assume:
                self.assume[src] += 1
                return T(e.body)
            if src in getattr(self, "assume_f", {}):
                self.assume_f[src] += 1
                return T(e.orelse)
            return f"(XPair {T(e.body)} {T(e.orelse)})"
        if isinstance(e, (ast.ListComp, ast.GeneratorExp)):
            if len(e.generators) != 1 or e.generators[0].is_async:
                return "XAny"
            g = e.generators[0]
            it = f"(XSub {T(g.iter)})"
            s2 = dict(sub)
            for n in ast.walk(g.target):
                if isinstance(n, ast.Name):
                    s2[n.id] = it
            return f"(XSub {self.tx(e.elt, cur, s2)})"
        if isinstance(e, ast.Call):
            return self.tx_call(e, cur, sub)
        return "XAny"          # comparisons, boolean operators, unary minus, power, lambda, dict, ...

    def tx_call(self, e, cur, sub):
        T = lambda x: self.tx(x, cur, sub)
        name = _dotted(e.func)
        short = name.split(".")[-1]
        kw = {k.arg: k.value for k in e.keywords if k.arg is not None}
        star_kw = any(k.arg is None for k in e.keywords) or any(isinstance(x, ast.Starred) for x in e.args)
        args = list(e.args)
        def arg(i, key):
            if key in kw:
                return kw[key]
            return args[i] if i is not None and i < len(args) else None
        def const_true(x):
            return isinstance(x, ast.Constant) and x.value is True
        def nonneg_literal(x):
            return isinstance(x, ast.Constant) and isinstance(x.value, (int, float)) and not isinstance(x.value, bool) and x.value >= 0
        is_method = isinstance(e.func, ast.Attribute) and not name.startswith(("tl.", "tensorly.", "T."))
        if star_kw and (short in FN or short in ("clip", "where", "index_update")):
            return "XAny"                               # the keyword arguments that matter cannot be read off the source
        if short == "clip":
            x, lo, hi = arg(0, "a"), arg(1, "a_min"), arg(2, "a_max")
            if x is None or lo is None or (hi is not None and not (isinstance(hi, ast.Constant) and hi.value is None)):
                return "XAny"
            return f"(XClip {T(lo)} {T(x)})"
        if short == "abs":
            return f"(XAbs {T(args[0])})" if args else "XAny"
        if short == "index_update":                     # the result holds entries of the array and of the new values
            if len(args) != 3:
                return "XAny"
            return f"(XSub (XPair {T(args[0])} {T(args[2])}))"
        if short == "where":                            # tl.where(x < e, e, x) = maximum(x, e); otherwise one of the two branches
            if len(args) != 3:
                return "XAny"
            c, a, b = args
            if isinstance(c, ast.Compare) and len(c.ops) == 1 and isinstance(c.ops[0], (ast.Lt, ast.LtE)) \
                    and ast.dump(c.left) == ast.dump(b) and ast.dump(c.comparators[0]) == ast.dump(a):
                return f"(XClip {T(a)} {T(b)})"
            return f"(XSub (XPair {T(a)} {T(b)}))"
        if short in POS_CALLS:
            return "XPos"
        if short in NONNEG_CALLS:
            return "XNonneg"
        if short in POLY:
            r = "XNonneg"
            for x in reversed(args):
                r = f"(XPair {T(x)} {r})"
            return f"(XPoly {r})"
        if short in ("max", "min", "maximum", "minimum") and len(args) >= 2 and not is_method:
            r = "XNonneg"                               # builtin max(a, b) / tl.maximum(a, b): one of the arguments' entries
            for x in reversed(args):
                r = f"(XPair {T(x)} {r})"
            return f"(XSub {r})"
        if short in PASS_THROUGH:
            if is_method and isinstance(e.func, ast.Attribute) and short in ("copy", "tolist", "reshape", "transpose"):
                return f"(XSub {T(e.func.value)})"
            return f"(XSub {T(args[0])})" if args else "XAny"
        if short in FN:
            f = FN[short]
            if short == "hals_nnls":
                V = arg(2, "V")
                if V is None or (isinstance(V, ast.Constant) and V.value is None):
                    return "XAny"                                  # cold start: not covered by the contract
                if "epsilon" in kw and not nonneg_literal(kw["epsilon"]):
                    return "XAny"
                return f"(XCall {f} {T(V)})"
            if short == "fista":
                x = arg(2, "x")
                if x is None or (isinstance(x, ast.Constant) and x.value is None):
                    return "XAny"
                if ("non_negative" in kw and not const_true(kw["non_negative"])) or ("epsilon" in kw and not nonneg_literal(kw["epsilon"])):
                    return "XAny"
                return f"(XCall {f} {T(x)})"
            if short == "active_set_nnls":
                x = arg(2, "x")
                if x is None or (isinstance(x, ast.Constant) and x.value is None):
                    return "XAny"
                return f"(XCall {f} {T(x)})"
            if short in ("cp_normalize", "tucker_normalize"):
                return f"(XCall {f} {T(args[0])})" if args else "XAny"
            if short == "initialize_cp":
                if not const_true(kw.get("non_negative")):
                    return "XAny"
                ini = arg(2, "init")
                return f"(XCall {f} {T(ini) if ini is not None else 'XNonneg'})"
            if short == "initialize_tucker":
                if not const_true(kw.get("non_negative")):
                    return "XAny"
                return f"(XCall {f} XNonneg)"
        self.unknown_calls[name] = self.unknown_calls.get(name, 0) + 1
        return "XAny"

    # ------------------------------------------------------------ aliasing
    def alias_names(self, e):
        """names the value of e may share storage with (e a view / container expression), else the empty set"""
        if isinstance(e, ast.Name):
            return {e.id}
        if isinstance(e, (ast.Subscript, ast.Attribute, ast.Starred)):
            return self.alias_names(e.value)
        if isinstance(e, (ast.Tuple, ast.List)):
            return set().union(*[self.alias_names(x) for x in e.elts]) if e.elts else set()
        if isinstance(e, ast.IfExp):
            return self.alias_names(e.body) | self.alias_names(e.orelse)
        if isinstance(e, ast.Call):
            name = _dotted(e.func)
            short = name.split(".")[-1]
            if short == "index_update" and e.args:
                return self.alias_names(e.args[0])
            if short in PASS_THROUGH:
                if short in COPIES and name.startswith(("tl.", "tensorly.")):
                    return set()
                if isinstance(e.func, ast.Attribute) and not name.startswith(("tl.", "tensorly.", "T.")):
                    return self.alias_names(e.func.value) | (set().union(*[self.alias_names(x) for x in e.args]) if e.args else set())
                return set().union(*[self.alias_names(x) for x in e.args]) if e.args else set()
        return set()

    # ------------------------------------------------------------ statements
    def target_names(self, t):
        if isinstance(t, ast.Name):
            return [t.id]
        if isinstance(t, (ast.Tuple, ast.List)):
            out = []
            for x in t.elts:
                out += self.target_names(x)
            return out
        raise Untranslatable("assignment target " + ast.dump(t)[:80])

    def assign(self, targets_node, value_sx, value_node, cur):
        """targets_node: Name | Tuple of Names | Subscript | Attribute"""
        if isinstance(targets_node, (ast.Subscript, ast.Attribute)):
            b = targets_node
            while isinstance(b, (ast.Subscript, ast.Attribute)):
                b = b.value
            if not isinstance(b, ast.Name):
                raise Untranslatable("update of a non-name base " + ast.dump(targets_node)[:80])
            self.stmts.append(("update", b.id, value_sx))
            if value_node is not None:
                for n in self.alias_names(value_node):
                    self.union(b.id, n)
            return
        if isinstance(targets_node, ast.Starred):
            raise Untranslatable("starred assignment target")
        names = self.target_names(targets_node)
        sx = value_sx if isinstance(targets_node, ast.Name) else f"(XSub {value_sx})"
        ids = []
        for n in names:
            k = self.nver.get(n, 0)
            self.nver[n] = k + 1
            ids += [self.vid(n, k), self.vid(n, "all")]
            new = self.vid(n, k)
            cur[n] = new
        self.stmts.append(("assign", ids, sx))
        if value_node is not None:
            for n in names:
                for m in self.alias_names(value_node):
                    self.union(n, m)

    def block(self, body, cur):
        for s in body:
            self.stmt(s, cur)

    def nested(self, s, bodies, cur):
        inside = _assigned_names(s)
        inherited = {k: v for k, v in cur.items() if k not in inside}
        for b in bodies:
            self.block(b, dict(inherited))
        for k in inside:
            cur.pop(k, None)

    def stmt(self, s, cur):
        if isinstance(s, ast.Assign):
            v = self.tx(s.value, cur)
            for t in s.targets:
                self.assign(t, v, s.value, cur)
        elif isinstance(s, ast.AnnAssign):
            if s.value is not None:
                self.assign(s.target, self.tx(s.value, cur), s.value, cur)
        elif isinstance(s, ast.AugAssign):
            load = ast.parse(ast.unparse(s.target), mode="eval").body
            v = self.tx(ast.BinOp(left=load, op=s.op, right=s.value), cur)
            if isinstance(s.target, ast.Name):
                self.stmts.append(("update", s.target.id, v))        # in-place on the object the name refers to
                self.assign(s.target, v, None, cur)
            else:
                self.assign(s.target, v, None, cur)
        elif isinstance(s, (ast.For, ast.While)):
            if isinstance(s, ast.For):
                inside = _assigned_names(s)
                for k in inside:
                    cur.pop(k, None)
                c2 = dict(cur)
                self.assign(s.target, f"(XSub {self.tx(s.iter, c2)})", s.iter, c2)
                for k in list(c2):
                    if k in inside:
                        c2.pop(k)
                self.block(s.body, dict(c2))
                self.block(s.orelse, dict(c2))
            else:
                self.nested(s, [s.body, s.orelse], cur)
        elif isinstance(s, ast.If):
            src = ast.unparse(s.test)
            if src in self.assume:                      # taken as true: the body always runs, it is part of the enclosing block
                self.assume[src] += 1
                self.block(s.body, cur)
            elif src in self.assume_f:
                self.assume_f[src] += 1
                self.block(s.orelse, cur)
            else:
                self.nested(s, [s.body, s.orelse], cur)
        elif isinstance(s, ast.With):
            for it in s.items:
                if it.optional_vars is not None:
                    self.assign(it.optional_vars, "XAny", None, cur)
            self.nested(s, [s.body], cur)
        elif isinstance(s, ast.Try):
            bodies = [s.body, s.orelse, s.finalbody] + [h.body for h in s.handlers]
            self.nested(s, bodies, cur)
        elif isinstance(s, ast.Return):
            v = s.value
            if v is None:
                self.returns.append("XNonneg")
            else:
                if isinstance(v, ast.Tuple) and v.elts:
                    v = v.elts[0]
                self.returns.append(self.tx(v, cur))
        elif isinstance(s, ast.Expr):
            c = s.value
            if isinstance(c, ast.Call) and isinstance(c.func, ast.Attribute) and c.func.attr in ("append", "extend", "insert") \
                    and isinstance(c.func.value, ast.Name) and c.args:
                self.stmts.append(("update", c.func.value.id, self.tx(c.args[-1], cur)))
                for n in self.alias_names(c.args[-1]):
                    self.union(c.func.value.id, n)
            elif isinstance(c, ast.Call) and isinstance(c.func, ast.Attribute):
                b = c.func.value                       # any other method-style call statement may mutate its receiver: x.fill(..), x.sort(), x[i].fill(..)
                while isinstance(b, (ast.Subscript, ast.Attribute)):
                    b = b.value
                if isinstance(b, ast.Name) and _dotted(c.func).split(".")[0] not in ("warnings", "tl", "T", "np", "tensorly"):
                    self.stmts.append(("update", b.id, "XAny"))
        elif isinstance(s, (ast.Pass, ast.Break, ast.Continue, ast.Raise, ast.Assert, ast.Import, ast.ImportFrom)):
            pass
        else:
            raise Untranslatable(type(s).__name__ + " at line " + str(getattr(s, "lineno", "?")))

    # ------------------------------------------------------------ result
    def run(self):
        for n in ast.walk(self.fdef):
            if n is not self.fdef and isinstance(n, (ast.FunctionDef, ast.AsyncFunctionDef, ast.Lambda, ast.ClassDef, ast.Global, ast.Nonlocal,
                                                     ast.NamedExpr, ast.Delete, ast.Yield, ast.YieldFrom, ast.Await)):
                raise Untranslatable(type(n).__name__ + " at line " + str(getattr(n, "lineno", "?")))
        for n in ast.walk(self.fdef):
            if isinstance(n, ast.Call) and (any(k.arg == "out" for k in n.keywords) or _dotted(n.func) in ("exec", "eval", "setattr", "locals", "vars", "globals")):
                raise Untranslatable("in-place / reflective call at line " + str(getattr(n, "lineno", "?")))
        self.block(self.fdef.body, {})
        stale = [a for a, n in list(self.assume.items()) + list(self.assume_f.items()) if n == 0]
        if stale:
            raise Untranslatable("assumed test(s) not found in the source: " + "; ".join(stale))
        if not self.returns:
            raise Untranslatable("no return statement")
        # expand the updates over alias classes and versions
        for s in self.stmts:
            if s[0] == "update":
                self.vid(s[1], "all")
        classes = {}
        for (name, ver) in self.order:
            classes.setdefault(self.find(name), []).append(self.vars[(name, ver)])
        out = []
        for s in self.stmts:
            if s[0] == "assign":
                out.append(f"SAssign {nat_list(s[1])} {s[2]}")
            else:
                for i in classes[self.find(s[1])]:
                    out.append(f"SUpdate {i}%nat {s[2]}")
        assigned = set(self.nver) | {s_[1] for s_ in self.stmts if s_[0] == "update"}
        a0 = []
        for (name, ver) in self.order:
            if ver == "all" and name in self.params:
                a0.append(self.param_signs.get(name, "SgAny"))
            elif ver == "all" and name not in assigned:
                a0.append("SgAny")                     # a module-level name: nothing is known about it
            else:
                a0.append("SgPos")                     # a local before its first assignment has no entries
        ret = "XNonneg"
        for r in self.returns:
            ret = f"(XPair {r} {ret})"
        return {"prog": "[" + ";\n   ".join(out) + "]", "a0": "[" + "; ".join(a0) + "]", "ret": ret, "n_stmts": len(out), "n_vars": len(a0),
                "n_returns": len(self.returns), "unknown_calls": dict(self.unknown_calls)}


def nat_list(xs):
    return "[" + "; ".join(f"{x}%nat" for x in xs) + "]" if xs else "(@nil nat)"


def translate_function(source, fname, param_signs, assume_true=(), assume_false=()):
    tree = ast.parse(source)
    for n in tree.body:
        if isinstance(n, ast.FunctionDef) and n.name == fname:
            return Translator(n, param_signs, assume_true, assume_false).run()
    raise Untranslatable(f"function {fname} not found")


# ============================================================================= round 6: structured (flow-sensitive) translation -> Model/NonnegFlow.v
class FlowTranslator(Translator):
    """Python body -> `cmd` of Model/NonnegFlow.v: one model variable per Python name, the control structure is kept (sequence, if / try as choice,
    loops with break, return); closures and explicitly supplied callees (module functions, methods) are INLINED as blocks: parameters are assigned
    from the arguments, `return e` assigns the result variable(s) and leaves the block.  Extra trusted conventions:
    * a `try` body may be interrupted anywhere: the handlers start from the body with every statement made optional;
    * names of an inlined callee that are parameters or assigned in it are private to that instance; other names refer to the enclosing function
      (closure) or, for module functions / methods, to unknown module-level objects;
    * `continue`, `return` inside a loop of an inlined callee, recursion: untranslatable."""

    def __init__(self, fdef, param_signs, assume_true=(), assume_false=(), callees=None, ret_arity=None, split=None, records=None, peel=(), msplit=None):
        super().__init__(fdef, param_signs, assume_true, assume_false)
        # peel = loop headers (source text `<target> in <iter>`) of `for` loops assumed to run AT LEAST ONCE in the analysed configuration (e.g. n_iter_max >= 1):
        # translated as block { head; body; loop { head; body } } - a break in the first copy leaves the block, exactly as it would leave the loop
        self.peel = {h: 0 for h in peel}
        # msplit (round 7): per-mode analysis of a list that holds one array per mode when the guard is IMPLICIT (decided inside an inlined callee from `order=<mode>`):
        #   {"lists": {list name: (index variable names)}, "declared_true": tests that hold / "declared_false": tests that fail while the current mode is DECLARED,
        #    "undeclared_false": tests that fail while it is not}.  X is modelled by X@D (arrays of the declared modes) and X@U; a `for <index var> ...` loop whose body
        #   accesses X[<index var>] is translated once per case (choice of the two bodies): in the declared case X[iv] is X@D and the tests are fixed accordingly.
        self.msplit = msplit or None
        self.ms_used = {}
        self.mctx = None                         # (index variable, "D" | "U") while translating one case of a mode loop
        self.split_rets = set()
        # records = {variable: (field names)}: a CPTensor-like object variable is modelled by one bag per component; x.<field>, x[k] read / write the component,
        # an assignment from a tuple-like value is positional, from anything else every component receives a sub-bag of the value
        self.records = dict(records or {})
        self.rrecords = {}
        # split = {list variable: guard}: the list holds one array per mode; the guard `i in S` (source text) selects the DECLARED modes.  The variable is
        # modelled by two bags, X@D (arrays of declared modes) and X@U (the others); X[i] under the guard reads / writes X@D, under its negation X@U,
        # elsewhere both; cp_normalize((w, X)) is the declared-modes contract c_cpnorm_D; a returned X means X@D (the property speaks of declared modes)
        self.split = dict(split or {})
        self.guard_ctx = {}                      # guard source -> True / False while translating a branch of `if <guard>:`
        self.in_return = False
        self.callees = dict(callees or {})       # call name (last component) -> (FunctionDef, is_closure)
        self.scopes = []                         # stack of (prefix, locals, is_closure)
        self.ninline = 0
        self.depth = 0
        self.globals_used = set()
        self.prologue = []                       # commands produced while translating the expression of the current statement
        self.ret_stack = []
        self.loop_depth = 0
        self.inlined_results = {}
        self.def_env = {}

    # ---- names
    def resolve(self, name):
        for prefix, locs, closure in reversed(self.scopes):
            if name in locs:
                return prefix + name
            if not closure:
                self.globals_used.add("$g$" + name)
                return "$g$" + name
        return name

    def nid(self, name):
        return self.vid(self.resolve(name), "all")

    def split_ids(self, name):
        return self.vid(self.resolve(name) + "@D", "all"), self.vid(self.resolve(name) + "@U", "all")

    def split_part(self, sub_node):
        """which part of a split list X the subscript X[i] denotes: 'D', 'U' or None (unknown)"""
        g = self.split[sub_node.value.id]
        gv = g.split(" in ")[0].strip()
        if isinstance(sub_node.slice, ast.Name) and sub_node.slice.id == gv and g in self.guard_ctx:
            return "D" if self.guard_ctx[g] else "U"
        return None

    # ---- msplit helpers
    def is_ms(self, name):
        return bool(self.msplit) and name in self.msplit["lists"]

    def ms_ids(self, name):
        r = self.resolve(name)
        return self.vid(r + "@D", "all"), self.vid(r + "@U", "all")

    def ms_part(self, sub_node):
        """'D' / 'U' when X[i] is indexed by the index variable of the current case, else None"""
        if self.mctx and isinstance(sub_node.slice, ast.Name) and sub_node.slice.id == self.mctx[0] \
                and sub_node.slice.id in self.msplit["lists"][sub_node.value.id]:
            return self.mctx[1]
        return None

    def ms_value(self, node):
        """(sxD, sxU) when the expression denotes a per-mode list: a split list name, list(S) / S.copy(), an inlined result known to be split"""
        if isinstance(node, ast.Name) and self.is_ms(node.id):
            d, u = self.ms_ids(node.id)
            return f"(XVar {d}%nat)", f"(XVar {u}%nat)"
        if isinstance(node, ast.Call) and _dotted(node.func).split(".")[-1] in ("list", "tuple", "copy") and len(node.args) == 1 and not node.keywords:
            return self.ms_value(node.args[0])
        return None

    def ms_with_part(self, part, build):
        """translate with every read of a split list X (whole or X[c]) restricted to one part"""
        saved, self.ms_force = getattr(self, "ms_force", None), part
        try:
            return build()
        finally:
            self.ms_force = saved

    def rec_fields(self, name):
        """the component names when `name` (in the current scope) is a record variable, else None.  Configuration keys: "x" (top level) or "callee.x";
        a parameter bound to a record argument at an inlined call is a record too"""
        r = self.resolve(name)
        if r in self.rrecords:
            return self.rrecords[r]
        for prefix, locs, closure in reversed(self.scopes):
            if name in locs:
                return self.records.get(prefix.split("$")[0] + "." + name)
            if not closure:
                return None                          # a module-level name
        return self.records.get(name)

    def rec_ids(self, name):
        return [self.vid(self.resolve(name) + "@" + f, "all") for f in self.rec_fields(name)]

    def rec_field(self, node):
        """index of the component denoted by x.<field> or x[<int literal>] for a record variable x, else None"""
        if isinstance(node, (ast.Attribute, ast.Subscript)) and isinstance(node.value, ast.Name):
            fs = self.rec_fields(node.value.id)
            if fs is None:
                return None
            if isinstance(node, ast.Attribute) and node.attr in fs:
                return node.value.id, list(fs).index(node.attr)
            if isinstance(node, ast.Subscript) and isinstance(node.slice, ast.Constant) and isinstance(node.slice.value, int) and 0 <= node.slice.value < len(fs):
                return node.value.id, node.slice.value
        return None

    def tx(self, e, cur=None, sub=None):
        sub = sub or {}
        if self.records or self.rrecords:
            rf = self.rec_field(e)
            if rf is not None and rf[0] not in sub:
                return f"(XSub (XVar {self.rec_ids(rf[0])[rf[1]]}%nat))"
            if isinstance(e, ast.Name) and e.id not in sub and self.rec_fields(e.id) is not None:
                r = "XNonneg"
                for i in reversed(self.rec_ids(e.id)):
                    r = f"(XPair (XVar {i}%nat) {r})"
                return r
        if self.msplit and isinstance(e, ast.Subscript) and isinstance(e.value, ast.Name) and self.is_ms(e.value.id) and e.value.id not in sub:
            d, u = self.ms_ids(e.value.id)
            mf = getattr(self, "ms_force", None)
            part = self.ms_part(e) or (mf[0] if mf and ast.unparse(e.slice) == mf[1] else None)
            return f"(XSub (XVar {d}%nat))" if part == "D" else f"(XSub (XVar {u}%nat))" if part == "U" else f"(XSub (XPair (XVar {d}%nat) (XVar {u}%nat)))"
        if self.msplit and isinstance(e, ast.Name) and self.is_ms(e.id) and e.id not in sub:
            d, u = self.ms_ids(e.id)
            if self.in_return and not self.scopes:
                return f"(XVar {d}%nat)"               # the property speaks about the declared modes
            return f"(XPair (XVar {d}%nat) (XVar {u}%nat))"
        if not self.scopes and isinstance(e, ast.Subscript) and isinstance(e.value, ast.Name) and e.value.id in self.split and e.value.id not in sub:
            d, u = self.split_ids(e.value.id)
            part = self.split_part(e)
            return f"(XSub (XVar {d}%nat))" if part == "D" else f"(XSub (XVar {u}%nat))" if part == "U" else f"(XSub (XPair (XVar {d}%nat) (XVar {u}%nat)))"
        if not self.scopes and isinstance(e, ast.Name) and e.id in self.split and e.id not in sub:
            d, u = self.split_ids(e.id)
            return f"(XVar {d}%nat)" if self.in_return else f"(XPair (XVar {d}%nat) (XVar {u}%nat))"
        if not self.scopes and isinstance(e, ast.Call) and _dotted(e.func).split(".")[-1] == "cp_normalize" and len(e.args) == 1 \
                and isinstance(e.args[0], ast.Tuple) and len(e.args[0].elts) == 2 and isinstance(e.args[0].elts[1], ast.Name) \
                and e.args[0].elts[1].id in self.split:
            d, u = self.split_ids(e.args[0].elts[1].id)
            return f"(XCall FCpNormalize (XPair {self.tx(e.args[0].elts[0])} (XVar {d}%nat)))"      # weights and declared factors of the result
        if isinstance(e, ast.Name) and e.id not in sub and e.id not in ("None", "True", "False"):
            return f"(XVar {self.nid(e.id)}%nat)"
        if isinstance(e, ast.Call):
            short = _dotted(e.func).split(".")[-1]
            if short in self.callees and not any(k.arg is None for k in e.keywords) and not any(isinstance(x, ast.Starred) for x in e.args):
                names = self.inline(short, e)
                r = "XNonneg"
                for n in reversed(names):
                    r = f"(XPair (XVar {self.vid(n, 'all')}%nat) {r})"
                return r if len(names) != 1 else f"(XVar {self.vid(names[0], 'all')}%nat)"
        return super().tx(e, {}, sub)

    # ---- inlining
    def inline(self, short, call):
        fdef, closure = self.callees[short]
        if self.depth > 3:
            raise Untranslatable("inlining depth (recursion?) at " + short)
        a = fdef.args
        if a.vararg or a.kwarg or a.posonlyargs:
            raise Untranslatable("signature of inlined callee " + short)
        params = [p.arg for p in a.args + a.kwonlyargs]
        args = list(call.args)
        if isinstance(call.func, ast.Attribute) and params and params[0] == "self":
            args = [call.func.value] + args          # method call: the receiver is `self`
        bind = {}
        for p, x in zip(params, args):
            bind[p] = x
        for k in call.keywords:
            if k.arg not in params:
                raise Untranslatable(f"keyword {k.arg} of inlined callee {short}")
            bind[k.arg] = k.value
        defaults = dict(zip([p.arg for p in a.args][len(a.args) - len(a.defaults):], a.defaults))
        defaults.update({p.arg: d for p, d in zip(a.kwonlyargs, a.kw_defaults) if d is not None})
        if self.msplit and self.mctx and "order" in params:
            o = bind.get("order")
            if not (isinstance(o, ast.Name) and (o.id == self.mctx[0] or (o.id == "order" and self.scopes))):
                raise Untranslatable(f"inlined callee {short}: `order` is not the index variable of the current mode")
        self.ninline += 1
        prefix = f"{short}${self.ninline}$"
        cmds = []
        # arguments are evaluated in the caller's scope
        vals = {p: self.tx(bind[p]) if p in bind else (self.tx(defaults[p]) if p in defaults else "XAny") for p in params}
        rec_args = {p: (self.rec_fields(bind[p].id), self.rec_ids(bind[p].id)) for p in params
                    if p in bind and isinstance(bind[p], ast.Name) and self.rec_fields(bind[p].id) is not None}
        locs = set(params) | _assigned_names(fdef)
        self.scopes.append((prefix, locs, closure))
        self.depth += 1
        for p, (fields, ids) in rec_args.items():
            self.rrecords[prefix + p] = fields
        arity = self.callee_arity(fdef)
        ret_names = [f"{prefix}ret{i}" for i in range(arity)]
        try:
            for p in params:
                if p in rec_args:
                    cmds += [("assign", [i_new], f"(XVar {i_old}%nat)") for i_new, i_old in zip(self.rec_ids(p), rec_args[p][1])]
                    continue
                cmds.append(("assign", [self.nid(p)], vals[p]))
                if p in bind:
                    for m in self.alias_names(bind[p]):
                        self.union(self.resolve(p), m if not self.scopes[:-1] else m)
            self.ret_stack.append((ret_names, arity))
            saved_loops, self.loop_depth = self.loop_depth, 0
            body = self.fblock(fdef.body)
            self.loop_depth = saved_loops
            self.ret_stack.pop()
        finally:
            self.depth -= 1
            self.scopes.pop()
        self.prologue.append(("block", ("seq", cmds + [body])))
        self.inlined_results[id(call)] = ret_names
        return ret_names

    TUPLE_CTORS = ("CPTensor", "TuckerTensor", "Parafac2Tensor")

    def tuple_elts(self, v, env=None):
        """the components of a tuple-like expression: a tuple, CPTensor / TuckerTensor / Parafac2Tensor of a tuple, or a name bound to one by the
        immediately preceding straight-line statements of the same block"""
        if isinstance(v, ast.Tuple):
            return list(v.elts)
        if isinstance(v, ast.Call) and _dotted(v.func).split(".")[-1] in self.TUPLE_CTORS and len(v.args) == 1 and isinstance(v.args[0], ast.Tuple):
            return list(v.args[0].elts)
        if isinstance(v, ast.Call) and _dotted(v.func).split(".")[-1] in self.KNOWN_TUPLES:
            return [ast.Constant(value=c) for c in self.KNOWN_TUPLES[_dotted(v.func).split(".")[-1]]]
        if isinstance(v, ast.Call) and isinstance(v.func, ast.Attribute) and v.func.attr == "from_CPTensor" and v.args:
            return self.tuple_elts(v.args[0], env)          # a conversion: the components of its argument
        if isinstance(v, ast.Name) and hasattr(self, "rrecords") and self.rec_fields(v.id) is not None:
            return [ast.Attribute(value=ast.Name(id=v.id, ctx=ast.Load()), attr=f, ctx=ast.Load()) for f in self.rec_fields(v.id)]
        if isinstance(v, ast.Name) and env is not None and v.id in env:
            return self.tuple_elts(env[v.id], None)
        return None

    # library facts (trusted): tensorly.random.random_parafac2 / random_cp(normalise_factors=False) return (unit weights, factors[, projections]): 0 stands for "entrywise >= 0", -1 for "unknown"
    KNOWN_TUPLES = {"random_parafac2": [0, -1, -1], "random_cp": [0, -1]}

    def callee_arity(self, fdef):
        """n when every `return` of the callee returns an n-component tuple-like value (resolved syntactically), else 1"""
        ars = set()
        def walk(body):
            env = {}
            for st in body:
                if isinstance(st, ast.Return):
                    el = self.tuple_elts(st.value, env) if st.value is not None else None
                    ars.add(len(el) if el else 1)
                elif isinstance(st, ast.Assign) and len(st.targets) == 1 and isinstance(st.targets[0], ast.Name):
                    env.pop(st.targets[0].id, None)
                    if self.tuple_elts(st.value, env):
                        env[st.targets[0].id] = st.value
                elif isinstance(st, ast.If) and ast.unparse(st.test) in self.assume:
                    walk(st.body)
                elif isinstance(st, ast.If) and ast.unparse(st.test) in self.assume_f:
                    walk(st.orelse)
                else:
                    for nm in _assigned_names(st):
                        env.pop(nm, None)
                    for fld in ("body", "orelse", "finalbody"):
                        if getattr(st, fld, None):
                            walk(getattr(st, fld))
                    for h in getattr(st, "handlers", []) or []:
                        walk(h.body)
        walk(fdef.body)
        return ars.pop() if len(ars) == 1 else 1

    # ---- statements
    def with_prologue(self, build):
        """translate one simple statement; inlined calls inside its expressions run first"""
        saved, self.prologue = self.prologue, []
        c = build()
        pro, self.prologue = self.prologue, saved
        return ("seq", pro + [c]) if pro else c

    def fassign(self, target, value_sx, value_node):
        if isinstance(target, ast.Starred):
            raise Untranslatable("starred assignment target")
        if isinstance(target, (ast.Tuple, ast.List)):
            comps = None
            n = len(target.elts)
            tnames = {m.id for t in target.elts for m in ast.walk(t) if isinstance(m, ast.Name)}
            if isinstance(value_node, ast.Call) and id(value_node) in self.inlined_results and len(self.inlined_results[id(value_node)]) == n:
                comps = [(f"(XVar {self.vid(r, 'all')}%nat)", ("msret", r) if r in self.split_rets else None) for r in self.inlined_results[id(value_node)]]
            else:
                el = self.tuple_elts(value_node, self.def_env) if value_node is not None else None
                if el and len(el) == n and not (tnames & {m.id for x in el for m in ast.walk(x) if isinstance(m, ast.Name)}):
                    comps = [(self.tx(x), x) for x in el]
            if comps is not None:
                return ("seq", [self.fassign(t, sx, node) for t, (sx, node) in zip(target.elts, comps)])
            return ("seq", [self.fassign(t, f"(XSub {value_sx})", value_node) for t in target.elts])
        if self.msplit and isinstance(target, ast.Name) and self.is_ms(target.id):
            d, u = self.ms_ids(target.id)
            if isinstance(value_node, tuple) and value_node[0] == "msret":         # a per-mode list returned by an inlined callee
                r = value_node[1]
                return ("seq", [("assign", [d], f"(XVar {self.vid(r + '@D', 'all')}%nat)"), ("assign", [u], f"(XVar {self.vid(r + '@U', 'all')}%nat)")])
            mv = self.ms_value(value_node) if isinstance(value_node, ast.AST) else None
            if mv is not None:
                return ("seq", [("assign", [d], mv[0]), ("assign", [u], mv[1])])
            return ("seq", [("assign", [d], value_sx), ("assign", [u], value_sx)])
        if isinstance(value_node, tuple):
            raise Untranslatable("a per-mode list returned by an inlined callee is assigned to a name that is not declared as a per-mode list")
        if self.msplit and isinstance(target, ast.Subscript) and isinstance(target.value, ast.Name) and self.is_ms(target.value.id):
            d, u = self.ms_ids(target.value.id)
            part = self.ms_part(target)
            if part is not None:
                return ("aupdate_id", d if part == "D" else u, value_sx)
            if isinstance(value_node, ast.AST):
                # X[c] = E(X[c]) for an index that is not the case's index variable: the element lies in exactly one part and is computed from the reads restricted to that part
                src_ = ast.unparse(target.slice)
                vd = self.ms_with_part(("D", src_), lambda: self.tx(value_node))
                vu = self.ms_with_part(("U", src_), lambda: self.tx(value_node))
                return ("seq", [("aupdate_id", d, vd), ("aupdate_id", u, vu)])
            return ("seq", [("aupdate_id", d, value_sx), ("aupdate_id", u, value_sx)])
        if self.records or self.rrecords:
            rf = self.rec_field(target)
            if rf is not None:
                return ("assign", [self.rec_ids(rf[0])[rf[1]]], value_sx)          # the component is replaced
            if isinstance(target, ast.Name) and self.rec_fields(target.id) is not None:
                ids = self.rec_ids(target.id)
                el = self.tuple_elts(value_node, self.def_env) if value_node is not None else None
                if el and len(el) == len(ids):
                    return ("seq", [("assign", [i], self.tx(x)) for i, x in zip(ids, el)])
                return ("assign", ids, f"(XSub {value_sx})")
            b = target
            while isinstance(b, (ast.Subscript, ast.Attribute)):
                b = b.value
            if isinstance(b, ast.Name) and self.rec_fields(b.id) is not None and isinstance(target, (ast.Subscript, ast.Attribute)):
                return ("seq", [("aupdate_id", i, value_sx) for i in self.rec_ids(b.id)])
        if not self.scopes and isinstance(target, ast.Subscript) and isinstance(target.value, ast.Name) and target.value.id in self.split:
            d, u = self.split_ids(target.value.id)
            part = self.split_part(target)
            ups = [("aupdate_id", d, value_sx)] if part == "D" else [("aupdate_id", u, value_sx)] if part == "U" else [("aupdate_id", d, value_sx), ("aupdate_id", u, value_sx)]
            return ("seq", ups)
        if not self.scopes and isinstance(target, ast.Name) and target.id in self.split:
            d, u = self.split_ids(target.id)
            is_norm = isinstance(value_node, ast.Call) and _dotted(value_node.func).split(".")[-1] == "cp_normalize"
            return ("seq", [("assign", [d], value_sx), ("assign", [u], "XAny" if is_norm else value_sx)])
        if isinstance(target, (ast.Subscript, ast.Attribute)):
            b = target
            while isinstance(b, (ast.Subscript, ast.Attribute)):
                b = b.value
            if not isinstance(b, ast.Name):
                raise Untranslatable("update of a non-name base")
            if b.id in self.split and not self.scopes:
                raise Untranslatable("update of a split list through an attribute / nested subscript")
            if value_node is not None:
                for n in self.alias_names(value_node):
                    self.union(self.resolve(b.id), self.resolve(n))
            return ("aupdate", self.resolve(b.id), value_sx)
        if not isinstance(target, ast.Name):
            raise Untranslatable("assignment target " + ast.dump(target)[:60])
        if value_node is not None:
            for m in self.alias_names(value_node):
                self.union(self.resolve(target.id), self.resolve(m))
        return ("assign", [self.nid(target.id)], value_sx)

    def fblock(self, body, inherit=None):
        """def_env: name -> the expression last assigned to it by a straight-line statement that dominates the current point (no later assignment)"""
        saved = self.def_env
        self.def_env = dict(inherit if inherit is not None else {})
        out = []
        for st in body:
            out.append(self.fstmt(st))
            self.note_defs(st)
        self.def_env = saved
        return ("seq", out)

    def note_defs(self, st):
        spliced = isinstance(st, ast.If) and (ast.unparse(st.test) in self.assume or ast.unparse(st.test) in self.assume_f)
        if spliced:
            return                                  # its statements were translated in this block's environment (see fstmt)
        for nm in _assigned_names(st):
            self.def_env.pop(nm, None)
        if isinstance(st, ast.Assign) and len(st.targets) == 1 and isinstance(st.targets[0], ast.Name):
            used = {n.id for n in ast.walk(st.value) if isinstance(n, ast.Name)}
            if st.targets[0].id not in used:
                self.def_env[st.targets[0].id] = st.value
        # a later assignment to a name USED by a recorded expression invalidates the record
        assigned = _assigned_names(st)
        for k in [k for k, v in self.def_env.items() if assigned & {n.id for n in ast.walk(v) if isinstance(n, ast.Name)} and not (isinstance(st, ast.Assign) and k in assigned)]:
            self.def_env.pop(k, None)

    def child_env(self, st):
        inside = _assigned_names(st)
        return {k: v for k, v in self.def_env.items() if k not in inside and not (inside & {n.id for n in ast.walk(v) if isinstance(n, ast.Name)})}

    def resolve_def(self, e, depth=0):
        while isinstance(e, ast.Name) and e.id in self.def_env and depth < 5:
            e = self.def_env[e.id]; depth += 1
        return e

    def covers_all(self, it, Y):
        """the iteration `it` runs over every index of the list Y: range(len(Y)), or range(<number of modes of the data tensor>) for a list that has
        one entry per mode (trusted: the factor lists of a decomposition have one entry per mode)"""
        it = self.resolve_def(it)
        if not (isinstance(it, ast.Call) and _dotted(it.func) == "range" and len(it.args) == 1 and not it.keywords):
            return False
        n = self.resolve_def(it.args[0])
        if isinstance(n, ast.Call) and _dotted(n.func) == "len" and len(n.args) == 1 and isinstance(n.args[0], ast.Name) and n.args[0].id == Y:
            return True
        if isinstance(n, ast.Call) and _dotted(n.func).split(".")[-1] == "ndim" and len(n.args) == 1:
            return True
        return False

    def map_loop(self, s):
        """for i in <all indices of Y>: Y[i] = E(Y[i])  ->  Z = []; loop { Z += E(sub-bag of Y) }; Y = Z"""
        if not (isinstance(s.target, ast.Name) and not s.orelse and len(s.body) == 1 and isinstance(s.body[0], ast.Assign)):
            return None
        a = s.body[0]
        if len(a.targets) != 1:
            return None
        t = a.targets[0]
        i = s.target.id
        if not (isinstance(t, ast.Subscript) and isinstance(t.value, ast.Name) and isinstance(t.slice, ast.Name) and t.slice.id == i):
            return None
        Y = t.value.id
        if not self.covers_all(s.iter, Y):
            return None
        ok_reads = {id(n.value) for n in ast.walk(a.value) if isinstance(n, ast.Subscript) and isinstance(n.value, ast.Name) and n.value.id == Y
                    and isinstance(n.slice, ast.Name) and n.slice.id == i}
        if any(isinstance(n, ast.Name) and n.id == Y and id(n) not in ok_reads for n in ast.walk(a.value)):
            return None
        self.nmap = getattr(self, "nmap", 0) + 1
        z = self.vid(self.resolve(Y) + f"$map{self.nmap}", "all")
        def build():
            return ("aupdate_id", z, self.tx(a.value))
        self.loop_depth += 1
        step = self.with_prologue(build)
        self.loop_depth -= 1
        head = ("assign", [self.nid(i)], "XNonneg")
        return ("seq", [("assign", [z], "XNonneg"), ("loop", ("seq", [head, step])), ("assign", [self.nid(Y)], f"(XSub (XVar {z}%nat))")])

    def declared_loop(self, s):
        """for iv in <the declared modes>: Y[iv] = E(Y[iv]) for a per-mode list Y: every array of a declared mode is REPLACED by E of itself (the others are untouched).
        <the declared modes> = one of msplit["declared_iters"] (source text), possibly through straight-line definitions whose tests are fixed by the assumptions."""
        it = s.iter
        seen = 0
        while isinstance(it, ast.Name) and ast.unparse(it) not in self.msplit["declared_iters"] and it.id in self.def_env and seen < 5:
            it = self.def_env[it.id]; seen += 1
            while isinstance(it, ast.IfExp) and (ast.unparse(it.test) in self.assume or ast.unparse(it.test) in self.assume_f):
                it = it.body if ast.unparse(it.test) in self.assume else it.orelse
        if ast.unparse(it) not in self.msplit["declared_iters"]:
            return None
        if s.orelse or len(s.body) != 1 or not isinstance(s.body[0], ast.Assign) or len(s.body[0].targets) != 1:
            return None
        a, iv = s.body[0], s.target.id
        t = a.targets[0]
        if not (isinstance(t, ast.Subscript) and isinstance(t.value, ast.Name) and self.is_ms(t.value.id) and isinstance(t.slice, ast.Name) and t.slice.id == iv):
            return None
        Y = t.value.id
        reads_ok = {id(n.value) for n in ast.walk(a.value) if isinstance(n, ast.Subscript) and isinstance(n.value, ast.Name) and n.value.id == Y
                    and isinstance(n.slice, ast.Name) and n.slice.id == iv}
        if any(isinstance(n, ast.Name) and n.id == Y and id(n) not in reads_ok for n in ast.walk(a.value)):
            return None
        self.ms_used["declared_iters"] = self.ms_used.get("declared_iters", 0) + 1
        d, u = self.ms_ids(Y)
        self.nmap = getattr(self, "nmap", 0) + 1
        z = self.vid(self.resolve(Y) + f"$map{self.nmap}@D", "all")
        self.loop_depth += 1
        self.mctx = (iv, "D")
        saved_lists = self.msplit["lists"]
        self.msplit = dict(self.msplit, lists=dict(saved_lists, **{Y: tuple(set(saved_lists[Y]) | {iv})}))
        try:
            step = self.with_prologue(lambda: ("aupdate_id", z, self.tx(a.value)))
        finally:
            self.mctx = None
            self.msplit = dict(self.msplit, lists=saved_lists)
        self.loop_depth -= 1
        head = ("assign", [self.nid(iv)], "XNonneg")
        return ("seq", [("assign", [z], "XNonneg"), ("loop", ("seq", [head, step])), ("assign", [d], f"(XSub (XVar {z}%nat))")])

    def mode_loop(self, s, iv):
        """for iv in ...: body accessing X[iv] of a per-mode list X -> one translation of the body per case (the current mode is declared / is not).
        When the loop is `for iv in <all modes>: X[iv] = E(X[iv])` every array is REPLACED (strong update through an accumulator per part)."""
        def build():
            return self.fassign(s.target, f"(XSub {self.tx(s.iter)})", None)
        head = self.with_prologue(build)
        env = self.child_env(s)
        a = s.body[0] if len(s.body) == 1 and isinstance(s.body[0], ast.Assign) and len(s.body[0].targets) == 1 else None
        t = a.targets[0] if a is not None else None
        is_map = (t is not None and isinstance(t, ast.Subscript) and isinstance(t.value, ast.Name) and self.is_ms(t.value.id) and isinstance(t.slice, ast.Name)
                  and t.slice.id == iv and self.covers_all(s.iter, t.value.id))
        if is_map:
            Y = t.value.id
            reads_ok = {id(n.value) for n in ast.walk(a.value) if isinstance(n, ast.Subscript) and isinstance(n.value, ast.Name) and n.value.id == Y
                        and isinstance(n.slice, ast.Name) and n.slice.id == iv}
            if any(isinstance(n, ast.Name) and n.id == Y and id(n) not in reads_ok for n in ast.walk(a.value)):
                is_map = False
        self.loop_depth += 1
        bodies = {}
        for part in ("D", "U"):
            self.mctx = (iv, part)
            try:
                if is_map:
                    self.nmap = getattr(self, "nmap", 0) + 1
                    z = self.vid(self.resolve(t.value.id) + f"$map{self.nmap}@" + part, "all")
                    bodies[part] = (z, self.with_prologue(lambda: ("aupdate_id", z, self.tx(a.value))))
                else:
                    bodies[part] = (None, self.fblock(s.body, env))
            finally:
                self.mctx = None
        self.loop_depth -= 1
        loop = ("loop", ("seq", [head, ("if", bodies["D"][1], bodies["U"][1])]))
        if not is_map:
            return loop
        d, u = self.ms_ids(t.value.id)
        zd, zu = bodies["D"][0], bodies["U"][0]
        return ("seq", [("assign", [zd], "XNonneg"), ("assign", [zu], "XNonneg"), loop,
                        ("assign", [d], f"(XSub (XVar {zd}%nat))"), ("assign", [u], f"(XSub (XVar {zu}%nat))")])

    def partial(self, c):
        k = c[0]
        if k == "seq":
            return ("seq", [self.partial(x) for x in c[1]])
        if k == "if":
            return ("if", self.partial(c[1]), self.partial(c[2]))
        if k in ("loop", "block"):
            return (k, self.partial(c[1]))
        if k == "skip":
            return c
        return ("if", c, ("skip",))

    def fstmt(self, s):
        if isinstance(s, ast.Assign):
            def build():
                v = self.tx(s.value)
                return ("seq", [self.fassign(t, v, s.value) for t in s.targets])
            return self.with_prologue(build)
        if isinstance(s, ast.AnnAssign):
            if s.value is None:
                return ("skip",)
            return self.with_prologue(lambda: self.fassign(s.target, self.tx(s.value), s.value))
        if isinstance(s, ast.AugAssign):
            def build():
                load = ast.parse(ast.unparse(s.target), mode="eval").body
                v = self.tx(ast.BinOp(left=load, op=s.op, right=s.value))
                if isinstance(s.target, ast.Name):
                    return ("seq", [("aupdate", self.resolve(s.target.id), v), ("assign", [self.nid(s.target.id)], v)])
                return self.fassign(s.target, v, None)
            return self.with_prologue(build)
        if isinstance(s, ast.For):
            if self.msplit and self.mctx is None and isinstance(s.target, ast.Name) and self.msplit.get("declared_iters"):
                dl = self.declared_loop(s)
                if dl is not None:
                    return dl
            if self.msplit and self.mctx is None and isinstance(s.target, ast.Name):
                iv = s.target.id
                hit = [n for n in ast.walk(s) if isinstance(n, ast.Subscript) and isinstance(n.value, ast.Name) and self.is_ms(n.value.id)
                       and iv in self.msplit["lists"][n.value.id] and isinstance(n.slice, ast.Name) and n.slice.id == iv]
                if hit:
                    if s.orelse or iv in _assigned_names(ast.Module(body=s.body, type_ignores=[])):
                        raise Untranslatable("mode loop with else / with an assignment to its index variable")
                    return self.mode_loop(s, iv)
            m = self.map_loop(s)
            if m is not None:
                return m
            def build():
                return self.fassign(s.target, f"(XSub {self.tx(s.iter)})", None)
            head = self.with_prologue(build)
            env = self.child_env(s)
            hdr = ast.unparse(s.target) + " in " + ast.unparse(s.iter)
            if hdr in self.peel and not self.scopes:
                if s.orelse:
                    raise Untranslatable("for ... else on a loop assumed to run at least once")
                self.peel[hdr] += 1
                self.loop_depth += 1
                first = self.fblock(s.body, env)
                again = self.fblock(s.body, env)
                self.loop_depth -= 1
                return ("block", ("seq", [head, first, ("loop", ("seq", [head, again]))]))
            self.loop_depth += 1
            loop = ("loop", ("seq", [head, self.fblock(s.body, env)]))
            self.loop_depth -= 1
            return ("seq", [loop, ("if", self.fblock(s.orelse, env), ("skip",))]) if s.orelse else loop
        if isinstance(s, ast.While):
            env = self.child_env(s)
            self.loop_depth += 1
            loop = ("loop", self.fblock(s.body, env))
            self.loop_depth -= 1
            return ("seq", [loop, ("if", self.fblock(s.orelse, env), ("skip",))]) if s.orelse else loop
        if isinstance(s, ast.If):
            src = ast.unparse(s.test)
            ms_true = ms_false = False
            if self.msplit and self.mctx:
                ms_true = self.mctx[1] == "D" and src in self.msplit.get("declared_true", ())
                ms_false = (self.mctx[1] == "D" and src in self.msplit.get("declared_false", ())) or (self.mctx[1] == "U" and src in self.msplit.get("undeclared_false", ()))
                if ms_true or ms_false:
                    self.ms_used[src] = self.ms_used.get(src, 0) + 1
            if src in self.assume or src in self.assume_f or ms_true or ms_false:      # spliced into the current block (shares its def_env)
                taken = s.body if (src in self.assume or ms_true) else s.orelse
                if src in self.assume or src in self.assume_f:
                    (self.assume if src in self.assume else self.assume_f)[src] += 1
                out = []
                for st in taken:
                    out.append(self.fstmt(st))
                    self.note_defs(st)
                return ("seq", out)
            env = self.child_env(s)
            if src in self.split.values() and not self.scopes:
                gv = src.split(" in ")[0].strip()
                if gv in _assigned_names(s):
                    raise Untranslatable("the guard variable of a split list is assigned inside the guarded branches")
                self.guard_ctx[src] = True
                b1 = self.fblock(s.body, env)
                self.guard_ctx[src] = False
                b2 = self.fblock(s.orelse, env)
                del self.guard_ctx[src]
                return ("if", b1, b2)
            return ("if", self.fblock(s.body, env), self.fblock(s.orelse, env))
        if isinstance(s, ast.With):
            pre = [("assign", [self.nid(n) for n in self.target_names(it.optional_vars)], "XAny") for it in s.items if it.optional_vars is not None]
            return ("seq", pre + [self.fblock(s.body, self.child_env(s))])
        if isinstance(s, ast.Try):
            env = self.child_env(s)
            body = self.fblock(s.body, env)
            ok = ("seq", [body, self.fblock(s.orelse, env)])
            hs = ("skip",)
            for h in s.handlers:
                hb = self.fblock(h.body, env)
                if h.name:
                    hb = ("seq", [("assign", [self.nid(h.name)], "XAny"), hb])
                hs = ("if", hb, hs)
            c = ("if", ok, ("seq", [self.partial(body), hs])) if s.handlers else ok
            return ("seq", [c, self.fblock(s.finalbody, env)])
        if isinstance(s, ast.Return):
            def build():
                v = s.value
                if self.ret_stack:
                    names, arity = self.ret_stack[-1]
                    if self.loop_depth > 0:
                        raise Untranslatable("return inside a loop of an inlined callee at line " + str(getattr(s, "lineno", "?")))
                    el = self.tuple_elts(v, self.def_env) if v is not None else None
                    if v is None:
                        cs = [("assign", [self.vid(n, "all")], "XNonneg") for n in names]
                    elif arity > 1:
                        if not el or len(el) != arity:
                            raise Untranslatable("return arity at line " + str(getattr(s, "lineno", "?")))
                        cs = []
                        for n, x in zip(names, el):
                            mv = self.ms_value(x) if self.msplit else None
                            if mv is not None:          # a per-mode list is returned: the result variable is split as well
                                self.split_rets.add(n)
                                cs += [("assign", [self.vid(n + "@D", "all")], mv[0]), ("assign", [self.vid(n + "@U", "all")], mv[1])]
                            else:
                                cs.append(("assign", [self.vid(n, "all")], self.tx(x)))
                    elif isinstance(v, ast.Tuple) and v.elts:
                        cs = [("assign", [self.vid(names[0], "all")], self.tx(v.elts[0]))]      # mixed arities: the decomposition comes first
                    else:
                        cs = [("assign", [self.vid(names[0], "all")], self.tx(v))]
                    return ("seq", cs + [("break",)])
                if v is None:
                    return ("return", "XNonneg")
                if isinstance(v, ast.Tuple) and v.elts:
                    v = v.elts[0]
                self.returns.append(1)
                self.in_return = True
                r = self.resolve_def(v)
                if isinstance(r, ast.Call) and _dotted(r.func).split(".")[-1] == "Parafac2Tensor" and len(r.args) == 1 and isinstance(r.args[0], ast.Tuple) \
                        and len(r.args[0].elts) == 3:
                    w_, f_, _p = r.args[0].elts      # the property speaks about the weights and the factors, not about the (orthogonal) projections
                    out_ = ("return", f"(XPair {self.tx(w_)} {self.tx(f_)})")
                    self.in_return = False
                    return out_
                if (self.split or self.msplit) and isinstance(r, ast.Call) and _dotted(r.func).split(".")[-1] in self.TUPLE_CTORS:
                    v = r                               # CPTensor((weights, X)) bound to a name: the returned X is X@D
                out_ = ("return", self.tx(v))
                self.in_return = False
                return out_
            return self.with_prologue(build)
        if isinstance(s, ast.Expr):
            def build():
                c = s.value
                if isinstance(c, ast.Call) and isinstance(c.func, ast.Attribute):
                    b = c.func.value
                    while isinstance(b, (ast.Subscript, ast.Attribute)):
                        b = b.value
                    if self.msplit and isinstance(b, ast.Name) and self.is_ms(b.id):
                        d, u = self.ms_ids(b.id)
                        v = self.tx(c.args[-1]) if (c.func.attr in ("append", "extend", "insert") and c.args) else "XAny"
                        return ("seq", [("aupdate_id", d, v), ("aupdate_id", u, v)])
                    if isinstance(b, ast.Name) and c.func.attr in ("append", "extend", "insert") and c.args and isinstance(c.func.value, ast.Name):
                        for n in self.alias_names(c.args[-1]):
                            self.union(self.resolve(b.id), self.resolve(n))
                        return ("aupdate", self.resolve(b.id), self.tx(c.args[-1]))
                    if isinstance(b, ast.Name) and _dotted(c.func).split(".")[0] not in ("warnings", "tl", "T", "np", "tensorly"):
                        return ("aupdate", self.resolve(b.id), "XAny")
                return ("skip",)
            return self.with_prologue(build)
        if isinstance(s, ast.Break):
            return ("break",)
        if isinstance(s, ast.FunctionDef):
            self.callees[s.name] = (s, True)          # a closure: inlined at its call sites (the latest definition seen)
            return ("skip",)
        if isinstance(s, (ast.Pass, ast.Raise, ast.Assert, ast.Import, ast.ImportFrom)):
            return ("skip",)
        raise Untranslatable(type(s).__name__ + " at line " + str(getattr(s, "lineno", "?")))

    # ---- rendering
    def render(self, c, classes):
        k = c[0]
        if k == "skip":
            return "CSkip"
        if k == "assign":
            return f"(CAssign {nat_list(c[1])} {c[2]})"
        if k == "aupdate_id":
            return f"(CUpdate {c[1]}%nat {c[2]})"
        if k == "aupdate":
            ids = classes[self.find(c[1])]
            r = None
            for i in reversed(ids):
                u = f"(CUpdate {i}%nat {c[2]})"
                r = u if r is None else f"(CSeq {u} {r})"
            return r
        if k == "seq":
            items = [self.render(x, classes) for x in c[1]]
            items = [x for x in items if x != "CSkip"] or ["CSkip"]
            r = items[-1]
            for x in reversed(items[:-1]):
                r = f"(CSeq {x} {r})"
            return r
        if k == "if":
            return f"(CIf {self.render(c[1], classes)} {self.render(c[2], classes)})"
        if k in ("loop", "block"):
            return f"({'CLoop' if k == 'loop' else 'CBlock'} {self.render(c[1], classes)})"
        if k == "break":
            return "CBreak"
        if k == "return":
            return f"(CReturn {c[1]})"
        raise KeyError(k)

    def run(self):
        for n in ast.walk(self.fdef):
            if isinstance(n, (ast.AsyncFunctionDef, ast.Lambda, ast.ClassDef, ast.Global, ast.Nonlocal, ast.NamedExpr, ast.Delete, ast.Yield,
                              ast.YieldFrom, ast.Await, ast.Continue)):
                raise Untranslatable(type(n).__name__ + " at line " + str(getattr(n, "lineno", "?")))
            if isinstance(n, ast.Call) and (any(k.arg == "out" for k in n.keywords) or _dotted(n.func) in ("exec", "eval", "setattr", "locals", "vars", "globals")):
                raise Untranslatable("in-place / reflective call at line " + str(getattr(n, "lineno", "?")))
        tree = self.fblock(self.fdef.body)
        stale = [a for a, n in list(self.assume.items()) + list(self.assume_f.items()) + list(self.peel.items()) if n == 0]
        if self.msplit:
            stale += [t_ for k_ in ("declared_true", "declared_false", "undeclared_false") for t_ in self.msplit.get(k_, ()) if not self.ms_used.get(t_)]
            if self.msplit.get("declared_iters") and not self.ms_used.get("declared_iters"):
                stale.append("no loop over the declared modes (" + " / ".join(self.msplit["declared_iters"]) + ")")
        if stale:
            raise Untranslatable("assumed test(s) / loop header(s) not found in the source: " + "; ".join(stale))
        if not self.returns:
            raise Untranslatable("no return statement")
        def names_of(c):
            if c[0] == "aupdate":
                self.vid(c[1], "all")
            elif c[0] == "seq":
                for x in c[1]:
                    names_of(x)
            elif c[0] == "if":
                names_of(c[1]); names_of(c[2])
            elif c[0] in ("loop", "block"):
                names_of(c[1])
        names_of(tree)
        classes = {}
        for (name, ver) in self.order:
            classes.setdefault(self.find(name), []).append(self.vars[(name, ver)])
        prog = self.render(tree, classes)
        assigned = set()
        def collect(c):
            if c[0] == "assign":
                assigned.update(c[1])
            elif c[0] == "seq":
                for x in c[1]:
                    collect(x)
            elif c[0] == "if":
                collect(c[1]); collect(c[2])
            elif c[0] in ("loop", "block"):
                collect(c[1])
        collect(tree)
        updated = set()
        def collect_u(c):
            if c[0] == "aupdate":
                updated.update(classes[self.find(c[1])])
            elif c[0] == "seq":
                for x in c[1]:
                    collect_u(x)
            elif c[0] == "if":
                collect_u(c[1]); collect_u(c[2])
            elif c[0] in ("loop", "block"):
                collect_u(c[1])
        collect_u(tree)
        a0 = []
        for (name, ver) in self.order:
            i = self.vars[(name, ver)]
            if name in self.params:
                a0.append(self.param_signs.get(name, "SgAny"))
            elif "@" in name and name.split("@")[0] in self.params and name.split("@")[1] in (self.records.get(name.split("@")[0]) or ()):
                a0.append(self.param_signs.get(name, "SgAny"))       # a component of a record parameter
            elif self.msplit and "@" in name and name.split("@")[0] in self.params and name.split("@")[0] in self.msplit["lists"] and name.split("@")[1] in ("D", "U"):
                a0.append(self.param_signs.get(name, "SgAny"))       # the declared / undeclared part of a per-mode list parameter
            elif i not in assigned:
                a0.append("SgAny")                 # a module-level name / never assigned: nothing is known
            else:
                a0.append("SgPos")                 # a local before its first assignment has no entries
        return {"prog": prog, "a0": "[" + "; ".join(a0) + "]", "n_vars": len(a0), "n_stmts": prog.count("(CAssign") + prog.count("(CUpdate"),
                "n_inlined": self.ninline, "unknown_calls": dict(self.unknown_calls)}


def find_function(tree, fname, cls=None):
    body = tree.body
    if cls is not None:
        body = [n for n in tree.body if isinstance(n, ast.ClassDef) and n.name == cls][0].body
    for n in body:
        if isinstance(n, ast.FunctionDef) and n.name == fname:
            return n
    raise Untranslatable(f"function {fname} not found")


def translate_flow(source, fname, param_signs, assume_true=(), assume_false=(), callees=None, split=None, records=None, peel=(), msplit=None, cls=None):
    """callees: {call name: (source text, function name, class name or None)} -> inlined"""
    tree = ast.parse(source)
    cs = {}
    for k, (src, fn, cls) in (callees or {}).items():
        cs[k] = (find_function(ast.parse(src), fn, cls), False)
    return FlowTranslator(find_function(tree, fname, cls), param_signs, assume_true, assume_false, cs, split=split, records=records, peel=peel, msplit=msplit).run()
