"""C10 -- ast translator: the CURRENT Python source of a non-negative decomposition -> a `list stmt` of Model/NonnegSign.v.

One statement per assignment of the function body (any nesting); values are bags of entries; everything that is not recognised
becomes XAny (the analysis then cannot establish a sign through it: fail closed).  Constructs the translator cannot represent at
all (nested functions, starred targets, global/nonlocal, del, walrus) raise Untranslatable -> reported as a broken tie.

Trusted conventions of the translation (the Coq theorem is about the translated program):
* a local variable gets one model variable per assignment (`x#k`) plus `x#all`, which every assignment to x also writes; a use refers
  to `x#k` only when that assignment is an earlier statement of the same or of an enclosing block and nothing in between (nor the
  compound statement containing the use) assigns x; otherwise to `x#all`;
* `x[i] = e`, `x[i] op= e`, `x.attr = e`, `x.append(e)`, `x op= e` update (SUpdate) every model variable of every name that may
  alias x (names connected by assignments whose right-hand side is a view / container of the other: plain names, subscripts, tuples,
  CPTensor / TuckerTensor / list / .copy() / transpose / reshape / unfold ...);
* a `return a, b` returns the decomposition in its first component;
* `assume_true` / `assume_false`: tests of `if` statements (source text) fixed for the analysed configuration: only the body (spliced into
  the enclosing block) / only the else branch is translated (e.g. `mode in nn_modes` for nn_modes='all', `V is None` false for a warm
  start); an assumption that matches no `if` is reported (stale specialisation)."""
import ast

FN = {"hals_nnls": "FHalsNnls", "fista": "FFista", "active_set_nnls": "FActiveSet", "cp_normalize": "FCpNormalize",
      "tucker_normalize": "FTuckerNormalize", "initialize_cp": "FInitCp", "initialize_tucker": "FInitTucker"}
PASS_THROUGH = {"transpose", "reshape", "copy", "conj", "unfold", "tensor_to_vec", "vec_to_tensor", "tensor", "list", "tuple", "CPTensor", "TuckerTensor",
                "enumerate", "reversed", "sorted", "fold", "moveaxis", "to_numpy", "max", "min"}
COPIES = {"copy"}            # tl.copy: a new array, no aliasing (x.copy() on a list is shallow: treated as aliasing)
POLY = {"dot", "matmul", "mode_dot", "multi_mode_dot", "tucker_to_tensor", "tucker_to_unfolded", "cp_to_tensor", "cp_to_unfolded", "kronecker",
        "khatri_rao", "unfolding_dot_khatri_rao", "sum", "inner", "outer", "tensordot", "einsum", "trace"}
NONNEG_CALLS = {"ones", "zeros", "norm", "range", "len", "ndim", "shape", "eye", "cp_norm"}
POS_CALLS = {"eps"}


class Untranslatable(Exception):
    pass


def _dotted(f):
    if isinstance(f, ast.Name):
        return f.id
    if isinstance(f, ast.Attribute):
        return _dotted(f.value) + "." + f.attr if _dotted(f.value) else f.attr
    return ""


def _assigned_names(node):
    """names assigned anywhere inside the statement(s) (any nesting), incl. element / attribute updates and loop targets"""
    out = set()
    def tgt(t):
        if isinstance(t, ast.Name):
            out.add(t.id)
        elif isinstance(t, (ast.Tuple, ast.List)):
            for e in t.elts:
                tgt(e)
        elif isinstance(t, (ast.Subscript, ast.Attribute)):
            b = t
            while isinstance(b, (ast.Subscript, ast.Attribute)):
                b = b.value
            if isinstance(b, ast.Name):
                out.add(b.id)
        elif isinstance(t, ast.Starred):
            tgt(t.value)
    for n in ast.walk(node):
        if isinstance(n, ast.Assign):
            for t in n.targets:
                tgt(t)
        elif isinstance(n, (ast.AugAssign, ast.AnnAssign)):
            tgt(n.target)
        elif isinstance(n, (ast.For, ast.AsyncFor)):
            tgt(n.target)
        elif isinstance(n, ast.With):
            for it in n.items:
                if it.optional_vars is not None:
                    tgt(it.optional_vars)
        elif isinstance(n, ast.NamedExpr):
            tgt(n.target)
        elif isinstance(n, ast.Expr) and isinstance(n.value, ast.Call) and isinstance(n.value.func, ast.Attribute) \
                and n.value.func.attr in ("append", "extend", "insert") and isinstance(n.value.func.value, ast.Name):
            out.add(n.value.func.value.id)
        elif isinstance(n, ast.ExceptHandler) and n.name:
            out.add(n.name)
    return out


class Translator:
    def __init__(self, fdef, param_signs, assume_true=(), assume_false=()):
        self.fdef = fdef
        self.vars = {}              # (name, version) -> id ; version "all" or int
        self.order = []
        self.nver = {}
        self.stmts = []             # ("assign", [ids], sx) | ("update", name, sx)
        self.returns = []
        self.alias = {}             # union-find over names
        self.assume = {a: 0 for a in assume_true}
        self.assume_f = {a: 0 for a in assume_false}
        self.unknown_calls = {}
        self.params = []
        a = fdef.args
        if a.vararg or a.kwarg:
            raise Untranslatable("*args / **kwargs in the signature")
        for p in a.posonlyargs + a.args + a.kwonlyargs:
            self.params.append(p.arg)
            self.vid(p.arg, "all")
        self.param_signs = dict(param_signs)

    # ------------------------------------------------------------ variables
    def vid(self, name, ver):
        k = (name, ver)
        if k not in self.vars:
            self.vars[k] = len(self.order)
            self.order.append(k)
        return self.vars[k]

    def find(self, x):
        while self.alias.get(x, x) != x:
            x = self.alias[x]
        return x

    def union(self, x, y):
        x, y = self.find(x), self.find(y)
        if x != y:
            self.alias[x] = y

    # ------------------------------------------------------------ expressions
    def tx(self, e, cur, sub=None):
        sub = sub or {}
        T = lambda x: self.tx(x, cur, sub)
        if isinstance(e, ast.Name):
            if e.id in sub:
                return sub[e.id]
            if e.id in ("None", "True", "False"):
                return "XNonneg"
            if e.id in cur:
                return f"(XVar {cur[e.id]}%nat)"
            return f"(XVar {self.vid(e.id, 'all')}%nat)"
        if isinstance(e, ast.Constant):
            v = e.value
            if isinstance(v, bool) or v is None or isinstance(v, (str, bytes)):
                return "XNonneg"
            if isinstance(v, (int, float)):
                return "XPos" if v > 0 else "XNonneg" if v == 0 else "XAny"
            return "XAny"
        if isinstance(e, ast.BinOp):
            a, b = T(e.left), T(e.right)
            if isinstance(e.op, ast.Mult):
                return f"(XMul {a} {b})"
            if isinstance(e.op, ast.Add):
                return f"(XAdd {a} {b})"
            if isinstance(e.op, ast.Div):
                return f"(XDiv {a} {b})"
            if isinstance(e.op, ast.MatMult):
                return f"(XPoly (XPair {a} {b}))"
            return "XAny"
        if isinstance(e, ast.Subscript):
            return f"(XSub {T(e.value)})"
        if isinstance(e, ast.Attribute):
            return f"(XSub {T(e.value)})"
        if isinstance(e, ast.Starred):
            return f"(XSub {T(e.value)})"
        if isinstance(e, (ast.Tuple, ast.List)):
            r = "XNonneg"
            for x in reversed(e.elts):
                r = f"(XPair {T(x)} {r})"
            return r
        if isinstance(e, ast.IfExp):
            return f"(XPair {T(e.body)} {T(e.orelse)})"
        if isinstance(e, (ast.ListComp, ast.GeneratorExp)):
            if len(e.generators) != 1 or e.generators[0].is_async:
                return "XAny"
            g = e.generators[0]
            it = f"(XSub {T(g.iter)})"
            s2 = dict(sub)
            for n in ast.walk(g.target):
                if isinstance(n, ast.Name):
                    s2[n.id] = it
            return f"(XSub {self.tx(e.elt, cur, s2)})"
        if isinstance(e, ast.Call):
            return self.tx_call(e, cur, sub)
        return "XAny"          # comparisons, boolean operators, unary minus, power, lambda, dict, ...

    def tx_call(self, e, cur, sub):
        T = lambda x: self.tx(x, cur, sub)
        name = _dotted(e.func)
        short = name.split(".")[-1]
        kw = {k.arg: k.value for k in e.keywords if k.arg is not None}
        star_kw = any(k.arg is None for k in e.keywords) or any(isinstance(x, ast.Starred) for x in e.args)
        args = list(e.args)
        def arg(i, key):
            if key in kw:
                return kw[key]
            return args[i] if i is not None and i < len(args) else None
        def const_true(x):
            return isinstance(x, ast.Constant) and x.value is True
        def nonneg_literal(x):
            return isinstance(x, ast.Constant) and isinstance(x.value, (int, float)) and not isinstance(x.value, bool) and x.value >= 0
        is_method = isinstance(e.func, ast.Attribute) and not name.startswith(("tl.", "tensorly.", "T."))
        if star_kw and (short in FN or short in ("clip", "where", "index_update")):
            return "XAny"                               # the keyword arguments that matter cannot be read off the source
        if short == "clip":
            x, lo, hi = arg(0, "a"), arg(1, "a_min"), arg(2, "a_max")
            if x is None or lo is None or (hi is not None and not (isinstance(hi, ast.Constant) and hi.value is None)):
                return "XAny"
            return f"(XClip {T(lo)} {T(x)})"
        if short == "abs":
            return f"(XAbs {T(args[0])})" if args else "XAny"
        if short == "index_update":                     # the result holds entries of the array and of the new values
            if len(args) != 3:
                return "XAny"
            return f"(XSub (XPair {T(args[0])} {T(args[2])}))"
        if short == "where":                            # tl.where(x < e, e, x) = maximum(x, e); otherwise one of the two branches
            if len(args) != 3:
                return "XAny"
            c, a, b = args
            if isinstance(c, ast.Compare) and len(c.ops) == 1 and isinstance(c.ops[0], (ast.Lt, ast.LtE)) \
                    and ast.dump(c.left) == ast.dump(b) and ast.dump(c.comparators[0]) == ast.dump(a):
                return f"(XClip {T(a)} {T(b)})"
            return f"(XSub (XPair {T(a)} {T(b)}))"
        if short in POS_CALLS:
            return "XPos"
        if short in NONNEG_CALLS:
            return "XNonneg"
        if short in POLY:
            r = "XNonneg"
            for x in reversed(args):
                r = f"(XPair {T(x)} {r})"
            return f"(XPoly {r})"
        if short in ("max", "min", "maximum", "minimum") and len(args) >= 2 and not is_method:
            r = "XNonneg"                               # builtin max(a, b) / tl.maximum(a, b): one of the arguments' entries
            for x in reversed(args):
                r = f"(XPair {T(x)} {r})"
            return f"(XSub {r})"
        if short in PASS_THROUGH:
            if is_method and isinstance(e.func, ast.Attribute) and short in ("copy", "tolist", "reshape", "transpose"):
                return f"(XSub {T(e.func.value)})"
            return f"(XSub {T(args[0])})" if args else "XAny"
        if short in FN:
            f = FN[short]
            if short == "hals_nnls":
                V = arg(2, "V")
                if V is None or (isinstance(V, ast.Constant) and V.value is None):
                    return "XAny"                                  # cold start: not covered by the contract
                if "epsilon" in kw and not nonneg_literal(kw["epsilon"]):
                    return "XAny"
                return f"(XCall {f} {T(V)})"
            if short == "fista":
                x = arg(2, "x")
                if x is None or (isinstance(x, ast.Constant) and x.value is None):
                    return "XAny"
                if ("non_negative" in kw and not const_true(kw["non_negative"])) or ("epsilon" in kw and not nonneg_literal(kw["epsilon"])):
                    return "XAny"
                return f"(XCall {f} {T(x)})"
            if short == "active_set_nnls":
                x = arg(2, "x")
                if x is None or (isinstance(x, ast.Constant) and x.value is None):
                    return "XAny"
                return f"(XCall {f} {T(x)})"
            if short in ("cp_normalize", "tucker_normalize"):
                return f"(XCall {f} {T(args[0])})" if args else "XAny"
            if short == "initialize_cp":
                if not const_true(kw.get("non_negative")):
                    return "XAny"
                ini = arg(2, "init")
                return f"(XCall {f} {T(ini) if ini is not None else 'XNonneg'})"
            if short == "initialize_tucker":
                if not const_true(kw.get("non_negative")):
                    return "XAny"
                return f"(XCall {f} XNonneg)"
        self.unknown_calls[name] = self.unknown_calls.get(name, 0) + 1
        return "XAny"

    # ------------------------------------------------------------ aliasing
    def alias_names(self, e):
        """names the value of e may share storage with (e a view / container expression), else the empty set"""
        if isinstance(e, ast.Name):
            return {e.id}
        if isinstance(e, (ast.Subscript, ast.Attribute, ast.Starred)):
            return self.alias_names(e.value)
        if isinstance(e, (ast.Tuple, ast.List)):
            return set().union(*[self.alias_names(x) for x in e.elts]) if e.elts else set()
        if isinstance(e, ast.IfExp):
            return self.alias_names(e.body) | self.alias_names(e.orelse)
        if isinstance(e, ast.Call):
            name = _dotted(e.func)
            short = name.split(".")[-1]
            if short == "index_update" and e.args:
                return self.alias_names(e.args[0])
            if short in PASS_THROUGH:
                if short in COPIES and name.startswith(("tl.", "tensorly.")):
                    return set()
                if isinstance(e.func, ast.Attribute) and not name.startswith(("tl.", "tensorly.", "T.")):
                    return self.alias_names(e.func.value) | (set().union(*[self.alias_names(x) for x in e.args]) if e.args else set())
                return set().union(*[self.alias_names(x) for x in e.args]) if e.args else set()
        return set()

    # ------------------------------------------------------------ statements
    def target_names(self, t):
        if isinstance(t, ast.Name):
            return [t.id]
        if isinstance(t, (ast.Tuple, ast.List)):
            out = []
            for x in t.elts:
                out += self.target_names(x)
            return out
        raise Untranslatable("assignment target " + ast.dump(t)[:80])

    def assign(self, targets_node, value_sx, value_node, cur):
        """targets_node: Name | Tuple of Names | Subscript | Attribute"""
        if isinstance(targets_node, (ast.Subscript, ast.Attribute)):
            b = targets_node
            while isinstance(b, (ast.Subscript, ast.Attribute)):
                b = b.value
            if not isinstance(b, ast.Name):
                raise Untranslatable("update of a non-name base " + ast.dump(targets_node)[:80])
            self.stmts.append(("update", b.id, value_sx))
            if value_node is not None:
                for n in self.alias_names(value_node):
                    self.union(b.id, n)
            return
        if isinstance(targets_node, ast.Starred):
            raise Untranslatable("starred assignment target")
        names = self.target_names(targets_node)
        sx = value_sx if isinstance(targets_node, ast.Name) else f"(XSub {value_sx})"
        ids = []
        for n in names:
            k = self.nver.get(n, 0)
            self.nver[n] = k + 1
            ids += [self.vid(n, k), self.vid(n, "all")]
            new = self.vid(n, k)
            cur[n] = new
        self.stmts.append(("assign", ids, sx))
        if value_node is not None:
            for n in names:
                for m in self.alias_names(value_node):
                    self.union(n, m)

    def block(self, body, cur):
        for s in body:
            self.stmt(s, cur)

    def nested(self, s, bodies, cur):
        inside = _assigned_names(s)
        inherited = {k: v for k, v in cur.items() if k not in inside}
        for b in bodies:
            self.block(b, dict(inherited))
        for k in inside:
            cur.pop(k, None)

    def stmt(self, s, cur):
        if isinstance(s, ast.Assign):
            v = self.tx(s.value, cur)
            for t in s.targets:
                self.assign(t, v, s.value, cur)
        elif isinstance(s, ast.AnnAssign):
            if s.value is not None:
                self.assign(s.target, self.tx(s.value, cur), s.value, cur)
        elif isinstance(s, ast.AugAssign):
            load = ast.parse(ast.unparse(s.target), mode="eval").body
            v = self.tx(ast.BinOp(left=load, op=s.op, right=s.value), cur)
            if isinstance(s.target, ast.Name):
                self.stmts.append(("update", s.target.id, v))        # in-place on the object the name refers to
                self.assign(s.target, v, None, cur)
            else:
                self.assign(s.target, v, None, cur)
        elif isinstance(s, (ast.For, ast.While)):
            if isinstance(s, ast.For):
                inside = _assigned_names(s)
                for k in inside:
                    cur.pop(k, None)
                c2 = dict(cur)
                self.assign(s.target, f"(XSub {self.tx(s.iter, c2)})", s.iter, c2)
                for k in list(c2):
                    if k in inside:
                        c2.pop(k)
                self.block(s.body, dict(c2))
                self.block(s.orelse, dict(c2))
            else:
                self.nested(s, [s.body, s.orelse], cur)
        elif isinstance(s, ast.If):
            src = ast.unparse(s.test)
            if src in self.assume:                      # taken as true: the body always runs, it is part of the enclosing block
                self.assume[src] += 1
                self.block(s.body, cur)
            elif src in self.assume_f:
                self.assume_f[src] += 1
                self.block(s.orelse, cur)
            else:
                self.nested(s, [s.body, s.orelse], cur)
        elif isinstance(s, ast.With):
            for it in s.items:
                if it.optional_vars is not None:
                    self.assign(it.optional_vars, "XAny", None, cur)
            self.nested(s, [s.body], cur)
        elif isinstance(s, ast.Try):
            bodies = [s.body, s.orelse, s.finalbody] + [h.body for h in s.handlers]
            self.nested(s, bodies, cur)
        elif isinstance(s, ast.Return):
            v = s.value
            if v is None:
                self.returns.append("XNonneg")
            else:
                if isinstance(v, ast.Tuple) and v.elts:
                    v = v.elts[0]
                self.returns.append(self.tx(v, cur))
        elif isinstance(s, ast.Expr):
            c = s.value
            if isinstance(c, ast.Call) and isinstance(c.func, ast.Attribute) and c.func.attr in ("append", "extend", "insert") \
                    and isinstance(c.func.value, ast.Name) and c.args:
                self.stmts.append(("update", c.func.value.id, self.tx(c.args[-1], cur)))
                for n in self.alias_names(c.args[-1]):
                    self.union(c.func.value.id, n)
            elif isinstance(c, ast.Call) and isinstance(c.func, ast.Attribute):
                b = c.func.value                       # any other method-style call statement may mutate its receiver: x.fill(..), x.sort(), x[i].fill(..)
                while isinstance(b, (ast.Subscript, ast.Attribute)):
                    b = b.value
                if isinstance(b, ast.Name) and _dotted(c.func).split(".")[0] not in ("warnings", "tl", "T", "np", "tensorly"):
                    self.stmts.append(("update", b.id, "XAny"))
        elif isinstance(s, (ast.Pass, ast.Break, ast.Continue, ast.Raise, ast.Assert, ast.Import, ast.ImportFrom)):
            pass
        else:
            raise Untranslatable(type(s).__name__ + " at line " + str(getattr(s, "lineno", "?")))

    # ------------------------------------------------------------ result
    def run(self):
        for n in ast.walk(self.fdef):
            if n is not self.fdef and isinstance(n, (ast.FunctionDef, ast.AsyncFunctionDef, ast.Lambda, ast.ClassDef, ast.Global, ast.Nonlocal,
                                                     ast.NamedExpr, ast.Delete, ast.Yield, ast.YieldFrom, ast.Await)):
                raise Untranslatable(type(n).__name__ + " at line " + str(getattr(n, "lineno", "?")))
        for n in ast.walk(self.fdef):
            if isinstance(n, ast.Call) and (any(k.arg == "out" for k in n.keywords) or _dotted(n.func) in ("exec", "eval", "setattr", "locals", "vars", "globals")):
                raise Untranslatable("in-place / reflective call at line " + str(getattr(n, "lineno", "?")))
        self.block(self.fdef.body, {})
        stale = [a for a, n in list(self.assume.items()) + list(self.assume_f.items()) if n == 0]
        if stale:
            raise Untranslatable("assumed test(s) not found in the source: " + "; ".join(stale))
        if not self.returns:
            raise Untranslatable("no return statement")
        # expand the updates over alias classes and versions
        for s in self.stmts:
            if s[0] == "update":
                self.vid(s[1], "all")
        classes = {}
        for (name, ver) in self.order:
            classes.setdefault(self.find(name), []).append(self.vars[(name, ver)])
        out = []
        for s in self.stmts:
            if s[0] == "assign":
                out.append(f"SAssign {nat_list(s[1])} {s[2]}")
            else:
                for i in classes[self.find(s[1])]:
                    out.append(f"SUpdate {i}%nat {s[2]}")
        assigned = set(self.nver) | {s_[1] for s_ in self.stmts if s_[0] == "update"}
        a0 = []
        for (name, ver) in self.order:
            if ver == "all" and name in self.params:
                a0.append(self.param_signs.get(name, "SgAny"))
            elif ver == "all" and name not in assigned:
                a0.append("SgAny")                     # a module-level name: nothing is known about it
            else:
                a0.append("SgPos")                     # a local before its first assignment has no entries
        ret = "XNonneg"
        for r in self.returns:
            ret = f"(XPair {r} {ret})"
        return {"prog": "[" + ";\n   ".join(out) + "]", "a0": "[" + "; ".join(a0) + "]", "ret": ret, "n_stmts": len(out), "n_vars": len(a0),
                "n_returns": len(self.returns), "unknown_calls": dict(self.unknown_calls)}


def nat_list(xs):
    return "[" + "; ".join(f"{x}%nat" for x in xs) + "]" if xs else "(@nil nat)"


def translate_function(source, fname, param_signs, assume_true=(), assume_false=()):
    tree = ast.parse(source)
    for n in tree.body:
        if isinstance(n, ast.FunctionDef) and n.name == fname:
            return Translator(n, param_signs, assume_true, assume_false).run()
    raise Untranslatable(f"function {fname} not found")
