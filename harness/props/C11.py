"""C11 -- constrained CP returns factors satisfying every requested hard constraint; double constraints are rejected.

Correspondence (exact): (a) the (constraint, parameter) table of Model/Constraints.v (dict keys are Python ints) vs
tensorly.tenalg.proximal.validate_constraints over an enumerated specification space; (b) the loop skeleton of
constrained_parafac executed in Coq on provenance tags vs the provenance of the factors really returned (which recorded
proximal_operator call produced the returned array); (c) the same for tensorly.solvers.admm.admm called on its own;
(d) the dispatch of proximal_operator: which operator's output the returned array is (identified by value against the
operator functions called directly).
Predicates (on the implementation's outputs only): table entry = what was requested / error iff two keywords hit one mode
(transcriptions of C11_table_iff_requested, C11_reject_iff_double); column-wise feasibility of the RETURNED factors of
constrained_parafac / ConstrainedCP for the eight hard constraint kinds."""
import glob, itertools, json, os, random
from fractions import Fraction
import numpy as np
from harness import common as C

HEADER = """From Coq Require Import List ZArith QArith Bool. Import ListNotations.
From TLV Require Import Base.Tensor Model.Constraints Model.ConstraintsStop Model.ConstraintsNc Corr.C11.
Close Scope Q_scope. Close Scope Z_scope. Open Scope nat_scope."""

KINDS = ["non_negative", "l1_reg", "l2_reg", "l2_square_reg", "unimodality", "normalize", "simplex",
         "normalized_sparsity", "soft_sparsity", "smoothness", "monotonicity", "hard_sparsity"]
KCOQ = ["KNonNeg", "KL1", "KL2", "KL2sq", "KUnimodal", "KNormalize", "KSimplex", "KNormSparsity", "KSoftSparsity",
        "KSmooth", "KMonotone", "KHardSparsity"]
HARD = ["non_negative", "simplex", "monotonicity", "unimodality", "hard_sparsity", "normalized_sparsity", "normalize",
        "soft_sparsity"]
# a truthy and a falsy parameter of the documented type per keyword (table stream)
TRUTHY = {"non_negative": True, "l1_reg": 0.25, "l2_reg": 0.5, "l2_square_reg": 2, "unimodality": True, "normalize": True,
          "simplex": 1.5, "normalized_sparsity": 2, "soft_sparsity": 0.75, "smoothness": 0.125, "monotonicity": True,
          "hard_sparsity": 3}
FALSY = {"non_negative": False, "l1_reg": 0.0, "l2_reg": 0, "l2_square_reg": 0.0, "unimodality": False, "normalize": False,
         "simplex": 0, "normalized_sparsity": 0, "soft_sparsity": 0.0, "smoothness": 0, "monotonicity": False,
         "hard_sparsity": 0}
# parameters for real runs of the hard kinds
RUN_PARAMS = {"non_negative": [True], "monotonicity": [True], "unimodality": [True], "normalize": [True],
              "simplex": [1.0, 0.5, 2.5, 3], "soft_sparsity": [1.0, 0.3, 2.0], "hard_sparsity": [2, 3, 5, 1],
              "normalized_sparsity": [2, 3, 4, 1], "l1_reg": [0.05], "l2_reg": [0.1], "l2_square_reg": [0.2], "smoothness": [0.3]}
TOL = 1e-9
USER_RANDOM_INITS = ("user", "user_w1", "user_w", "user_w_one_off")   # a user CP tensor of random factors: no weights / unit / general weights


# ----------------------------------------------------------------------------- literals / (de)serialisation of specifications
def idlit(i):
    """case ids as binary literals (a unary nat numeral of several thousand costs seconds to elaborate)"""
    return f"(Z.to_nat ({int(i)})%Z)"


def pv(p):
    if isinstance(p, (bool, np.bool_)):
        return f"(PBool {C.boolc(bool(p))})"
    if isinstance(p, (int, np.integer)):
        return f"(PInt {C.z(p)})"
    if isinstance(p, (float, np.floating)):
        return f"(PFloat {C.q(float(p))})"
    raise TypeError(f"parameter outside the modelled value space: {p!r}")


def spec_lit(s):
    if s is None:
        return "ZNone"
    if isinstance(s, dict):
        return "(ZDict [" + "; ".join(f"({C.z(m)}, {pv(p)})" for m, p in s.items()) + "])"
    if isinstance(s, list):
        return "(ZList [" + "; ".join("None" if e is None else f"Some {pv(e)}" for e in s) + "])"
    return f"(ZScalar {pv(s)})"


def specs_lit(spec):
    return "[" + "; ".join(spec_lit(spec.get(k)) for k in KINDS) + "]"


def spec_to_json(spec):
    out = {}
    for k, s in spec.items():
        if isinstance(s, dict):
            out[k] = {"dict": [[int(m), p] for m, p in s.items()]}
        elif isinstance(s, list):
            out[k] = {"list": list(s)}
        else:
            out[k] = {"scalar": s}
    return out


def spec_from_json(js):
    out = {}
    for k, s in js.items():
        if "dict" in s:
            out[k] = {int(m): p for m, p in s["dict"]}
        elif "list" in s:
            out[k] = list(s["list"])
        else:
            out[k] = s["scalar"]
    return out


def same_value(a, b):
    """the returned parameter must be the value the user passed (type and value)"""
    if a is None or b is None:
        return a is None and b is None
    ta = "b" if isinstance(a, (bool, np.bool_)) else "i" if isinstance(a, (int, np.integer)) else "f"
    tb = "b" if isinstance(b, (bool, np.bool_)) else "i" if isinstance(b, (int, np.integer)) else "f"
    return ta == tb and a == b


# ----------------------------------------------------------------------------- statement transcriptions (Python side)
def addressed(n, key):
    """`addresses n key m` of Proofs/ConstraintsProofsKeys.v: the mode a dict key names (Python indexing); None = no mode"""
    if key >= 0:
        return key
    return key + n if key + n >= 0 else None


def requested_all(n, s, m):
    """all p with `zrequested truthy n s m p`"""
    if s is None:
        return []
    if isinstance(s, dict):
        return [p for key, p in s.items() if addressed(n, key) == m]
    if isinstance(s, list):
        return [s[m]] if m < len(s) and s[m] else []
    return [s] if (s and m < n) else []


def requested(n, s, m):
    """returns (True, p) or (False, None)"""
    ps = requested_all(n, s, m)
    return (True, ps[0]) if ps else (False, None)


def expected_table(n, spec):
    """None = must be rejected (two keywords on one mode / one dict naming a mode twice, e.g. {2: a, -1: b} on order 3 /
    a non-existing mode), else the table demanded by the theorem (transcription of C11_table_iff_requested /
    C11_reject_iff_double)"""
    modes = set(range(n))
    for s in spec.values():
        if isinstance(s, dict):
            for key in s:
                if addressed(n, key) is None:
                    return None          # a key below -n: no such mode (IndexError in the code)
                modes.add(addressed(n, key))
        elif isinstance(s, list):
            modes |= set(range(len(s)))
    tab = [None] * n
    for m in sorted(modes):
        hit = [(k, p) for k in KINDS for p in requested_all(n, spec.get(k), m)]
        if len(hit) > 1 or (hit and m >= n):
            return None
        if hit:
            tab[m] = hit[0]
    return tab


AMBIGUOUS = ("?", None)   # not produced any more (kept for the replay of old files): since fix c019b1a one dict naming a mode twice is rejected


def alias_by_negative_key(n, spec):
    """the class of the finding repaired by fix c019b1a (kept as a classifier for old replay files): some dict has a negative key whose mode (Python wrap-around) is also addressed by ANOTHER
    keyword (the scan compares the raw keys and does not see it)"""
    for k, s in spec.items():
        if isinstance(s, dict):
            for key in s:
                if key < 0 and addressed(n, key) is not None:
                    m = addressed(n, key)
                    if any(k2 != k and requested_all(n, s2, m) for k2, s2 in spec.items()):
                        return True
    # ... or the other way round: the negative key belongs to the other keyword
    return False


def impl_table(n, spec):
    """validate_constraints for every order; ('ok', table) | ('reject'|'crash', message)"""
    from tensorly.tenalg.proximal import validate_constraints
    tab = []
    for m in range(n):
        st, v = C.call_impl(validate_constraints, n_const=n, order=m, **spec)
        if st != "ok":
            return ("timeout" if v == "timeout" else st), v
        c, p = v
        tab.append(None if c is None else (c, p))
    return "ok", tab


def table_lit(st, tab):
    if st != "ok":
        return "Err"
    ents = []
    for e in tab:
        if e is None:
            ents.append("None")
        else:
            c, p = e
            if c not in KINDS or p is None:
                return None  # outside the value space of the model: reported by the predicate instead
            ents.append(f"Some ({KCOQ[KINDS.index(c)]}, {pv(p)})")
    return "(Ok [" + "; ".join(ents) + "])"


def table_predicate(n, spec, st, tab):
    exp = expected_table(n, spec)
    if exp is None:
        if st == "ok":
            return "C11_reject_iff_double", f"two constraints on one mode (or a non-existing mode) accepted; table {tab}"
        return None
    if st != "ok":
        if any(e is AMBIGUOUS for e in exp):
            return None      # one dict names a mode twice: accepting (later entry wins) and rejecting are both within the statement
        return "C11_reject_iff_double", f"valid request rejected: {tab}"
    for m in range(n):
        e, g = exp[m], tab[m]
        if e is AMBIGUOUS:
            continue
        if (e is None) != (g is None) or (e is not None and (e[0] != g[0] or not same_value(e[1], g[1]))):
            return "C11_table_iff_requested", f"mode {m}: validated {g}, requested {e}"
    return None


# ----------------------------------------------------------------------------- feasibility predicates (returned factors)
FEAS_OK = []   # (kind, parameter, array) of every array the predicate accepted in this run: re-decided inside Coq (Corr.C11.feasb)


def feasible(kind, p, F):
    """None if the factor satisfies the constraint, 'degenerate' for non-finite output, else a message;
    accepted arrays are collected in FEAS_OK"""
    msg = _feasible(kind, p, F)
    if msg is None and kind in HARD and len(FEAS_OK) < 20000:
        FEAS_OK.append((kind, p, np.array(F, dtype=float, copy=True)))
    return msg


def _feasible(kind, p, F):
    F = np.asarray(F)
    if F.ndim != 2:
        return f"factor is not a matrix: shape {F.shape}"
    if not np.all(np.isfinite(F)):
        return "degenerate"
    rows = F.shape[0]
    if kind == "non_negative":
        return None if (F >= -TOL).all() else f"negative entry {F.min()!r}"
    if kind == "simplex":
        if not (F >= -TOL).all():
            return f"negative entry {F.min()!r}"
        s = F.sum(axis=0)
        return None if (np.abs(s - p) <= TOL * max(1.0, abs(p)) * rows).all() else f"column sums {s.tolist()} != {p}"
    if kind == "monotonicity":
        return None if (np.diff(F, axis=0) >= -TOL).all() else "a column is not non-decreasing"
    if kind == "unimodality":
        for j, c in enumerate(F.T):
            if not any((np.diff(c[:i + 1]) >= -TOL).all() and (np.diff(c[i:]) <= TOL).all() for i in range(len(c))):
                return f"column {j} is not unimodal: {c.tolist()}"
        return None
    # hard_sparsity / normalized_sparsity / normalize: the property is stated column-wise; the code acts on the whole factor
    # matrix (k non-zeros, unit Frobenius norm, max |entry| = 1 in the whole factor), which is stronger for the counts and a
    # different reading for the norms.  Verdicts: the column-wise count (implied by the whole-matrix one); for the norms either
    # reading is accepted (whole factor, or every non-zero column).
    if kind == "hard_sparsity":
        nz = np.count_nonzero(F, axis=0)
        return None if (nz <= p).all() else f"non-zero entries per column {nz.tolist()} > {p}"
    if kind == "normalized_sparsity":
        nz = np.count_nonzero(F, axis=0)
        if not (nz <= p).all():
            return f"non-zero entries per column {nz.tolist()} > {p}"
        nr = float(np.linalg.norm(F))
        cn = np.linalg.norm(F, axis=0)
        if abs(nr - 1.0) <= TOL or all(abs(c - 1.0) <= TOL for c in cn if c != 0):
            return None
        return f"norm {nr!r} != 1 (column norms {cn.tolist()})"
    if kind == "normalize":
        mx = float(np.abs(F).max())
        cm = np.abs(F).max(axis=0)
        if abs(mx - 1.0) <= TOL or (mx > 0 and all(abs(c - 1.0) <= TOL for c in cm if c != 0)):
            return None
        return f"max |entry| {mx!r} != 1 (column maxima {cm.tolist()})"
    if kind == "soft_sparsity":
        s = np.abs(F).sum(axis=0)
        return None if (s <= p + TOL * max(1.0, abs(p)) * rows).all() else f"column l1 norms {s.tolist()} > {p}"
    return None


# ----------------------------------------------------------------------------- (f) operator calls recorded inside real runs
OP_CALLS = []   # (kind, parameter, input, output) of every proximal_operator call with a hard kind made by the initialiser / admm


def rows_q(A):
    return "[" + "; ".join("[" + "; ".join(C.q(float(x)) for x in row) + "]" for row in A) + "]"


def sqrt_q(fr):
    """rational s >= 0 with |s*s - fr| <= fr * 2^-80 (the value tl.norm stands for; Corr.C11.norm_ok checks the contract)"""
    import math
    from fractions import Fraction
    if fr == 0:
        return Fraction(0)
    k = 100 + max(0, fr.denominator.bit_length() - fr.numerator.bit_length()) // 2 + 2
    return Fraction(math.isqrt((fr.numerator << (2 * k)) // fr.denominator), 1 << k)


def call_case(cid, k, p, a, out):
    """Gallina `CCall` literal for one recorded call, or None when the call is outside the domain compared (non-finite values,
    0/0 of normalize / normalized_sparsity, a parameter that is not a count, a non-matrix argument)"""
    from fractions import Fraction
    a, out = np.asarray(a, float), np.asarray(out, float)
    if a.ndim != 2 or out.shape != a.shape or a.size == 0 or not (np.all(np.isfinite(a)) and np.all(np.isfinite(out))):
        return None
    aux = Fraction(0)
    if k in ("hard_sparsity", "normalized_sparsity"):
        if isinstance(p, (bool, np.bool_)) or not isinstance(p, (int, np.integer)) or p < 0:
            return None
    if k == "normalize" and not np.any(a != 0):
        return None
    if k == "normalized_sparsity":
        from tensorly.tenalg.proximal import hard_thresholding
        st, kept = C.call_impl(hard_thresholding, np.array(a, copy=True), p)
        if st != "ok" or not np.any(np.asarray(kept) != 0):
            return None
        aux = sqrt_q(sum((Fraction(float(x)) ** 2 for x in np.asarray(kept, float).reshape(-1)), Fraction(0)))
    scale = max(float(np.max(np.abs(a))), 1e-300)
    if k in ("simplex", "soft_sparsity"):
        scale = max(scale, abs(float(p)))
    atol, rtol = Fraction(scale) / 10 ** 9, Fraction(1, 10 ** 9)
    try:
        return (f"CCall {idlit(cid)} {KCOQ[KINDS.index(k)]} {pv(p)} {C.q(aux)} {rows_q(a)} {rows_q(out)} {C.q(atol)} {C.q(rtol)}")
    except (TypeError, ValueError, OverflowError):
        return None


def select_calls(tier):
    """quick: <= 30 calls per kind spread evenly over the recorded ones (every kind that occurred is represented);
    thorough: <= 400 per kind"""
    per = 30 if tier == "quick" else 400
    out = []
    for k in HARD:
        ks = [c for c in OP_CALLS if c[0] == k]
        if len(ks) > per:
            step = len(ks) / float(per)
            ks = [ks[int(i * step)] for i in range(per)]
        out += ks
    return out


# ----------------------------------------------------------------------------- (g) static tie: ast extraction (corr:C11-static)
HEADER_STATIC = HEADER + "\nFrom TLV Require Import Model.ConstraintsOps.\nDefinition failing := failing_static."
PYFUN = {"soft_thresholding": "FSoftThresholding", "l2_prox": "FL2Prox", "l2_square_prox": "FL2SquareProx", "unimodality_prox": "FUnimodalityProx",
         "simplex_prox": "FSimplexProx", "normalized_sparsity_prox": "FNormalizedSparsityProx", "soft_sparsity_prox": "FSoftSparsityProx",
         "smoothness_prox": "FSmoothnessProx", "monotonicity_prox": "FMonotonicityProx", "hard_thresholding": "FHardThresholding"}


class StaticError(Exception):
    pass


def _kcoq(name):
    if name not in KINDS:
        raise StaticError(f"not one of the twelve keywords: {name!r}")
    return KCOQ[KINDS.index(name)]


def _find_def(tree, name, cls=None):
    import ast
    body = tree.body
    if cls is not None:
        cs = [n for n in body if isinstance(n, ast.ClassDef) and n.name == cls]
        if len(cs) != 1:
            raise StaticError(f"class {cls} not found")
        body = cs[0].body
    fs = [n for n in body if isinstance(n, ast.FunctionDef) and n.name == name]
    if len(fs) != 1:
        raise StaticError(f"function {name} not found (or defined twice)")
    return fs[0]


def _is_tl(node, attr):
    import ast
    return isinstance(node, ast.Attribute) and node.attr == attr and isinstance(node.value, ast.Name) and node.value.id == "tl"


def _is_name(node, ident):
    import ast
    return isinstance(node, ast.Name) and node.id == ident


def _dop(expr, module_funcs):
    """the returned expression of one branch of proximal_operator -> Gallina `dop`"""
    import ast
    if isinstance(expr, ast.Call) and _is_tl(expr.func, "clip") and len(expr.args) == 1 and _is_name(expr.args[0], "tensor") \
            and len(expr.keywords) == 1 and expr.keywords[0].arg == "a_min" and isinstance(expr.keywords[0].value, ast.Constant) \
            and expr.keywords[0].value.value == 0 and not isinstance(expr.keywords[0].value.value, bool):
        return "DClip0"
    if isinstance(expr, ast.BinOp) and isinstance(expr.op, ast.Div) and _is_name(expr.left, "tensor"):
        r = expr.right
        if isinstance(r, ast.Call) and _is_tl(r.func, "max") and len(r.args) == 1 and not r.keywords:
            a = r.args[0]
            if isinstance(a, ast.Call) and _is_tl(a.func, "abs") and len(a.args) == 1 and not a.keywords and _is_name(a.args[0], "tensor"):
                return "DDivMaxAbs"
        return "DUnknown"
    if isinstance(expr, ast.Call) and isinstance(expr.func, ast.Name):
        f = PYFUN.get(expr.func.id) if expr.func.id in module_funcs else None
        args = []
        for a in expr.args:
            args.append("ATensor" if _is_name(a, "tensor") else "AParam" if _is_name(a, "parameter") else "AUnknown")
        for kw in expr.keywords:
            if kw.arg == "decreasing" and isinstance(kw.value, ast.Constant) and isinstance(kw.value.value, bool):
                args.append(f"(AKwDecreasing {C.boolc(kw.value.value)})")
            else:
                args.append("AUnknown")
        return f"(DCall {f or 'FUnknown'} [{'; '.join(args)}])"
    return "DUnknown"


def _branch_return(body):
    """a branch body `[x = e;]* return e'` -> the returned expression with the single-assignment names substituted; None otherwise"""
    import ast, copy
    env = {}

    class Sub(ast.NodeTransformer):
        def visit_Name(self, node):
            return copy.deepcopy(env[node.id]) if isinstance(node.ctx, ast.Load) and node.id in env else node
    for st in body[:-1]:
        if not (isinstance(st, ast.Assign) and len(st.targets) == 1 and isinstance(st.targets[0], ast.Name)
                and st.targets[0].id not in ("tensor", "parameter", "constraint")):
            return None
        env[st.targets[0].id] = Sub().visit(copy.deepcopy(st.value))
    if not body or not isinstance(body[-1], ast.Return) or body[-1].value is None:
        return None
    return Sub().visit(copy.deepcopy(body[-1].value))


def _static_dispatch(px_tree):
    import ast
    fn = _find_def(px_tree, "proximal_operator")
    module_funcs = {n.name for n in px_tree.body if isinstance(n, ast.FunctionDef)}
    chain = [st for st in fn.body if isinstance(st, ast.If) and isinstance(st.test, ast.Compare) and _is_name(st.test.left, "constraint")]
    table_dicts = [st for st in fn.body if isinstance(st, ast.Assign) and len(st.targets) == 1 and isinstance(st.targets[0], ast.Name)
                   and isinstance(st.value, ast.Dict) and st.value.keys and all(isinstance(v, ast.Lambda) for v in st.value.values)]
    if len(table_dicts) == 1:
        return _static_dispatch_dict(fn, chain, table_dicts[0], module_funcs)
    if len(chain) != 1:
        raise StaticError("proximal_operator: expected exactly one if/elif chain on `constraint`")
    node = chain[0]
    t = node.test
    none_ok = (len(t.ops) == 1 and isinstance(t.ops[0], ast.Is) and isinstance(t.comparators[0], ast.Constant) and t.comparators[0].value is None
               and len(node.body) == 1 and isinstance(node.body[0], ast.Return) and _is_name(node.body[0].value, "tensor"))
    table, else_raises = [], False
    rest = node.orelse
    while rest:
        if len(rest) == 1 and isinstance(rest[0], ast.If):
            br = rest[0]
            t = br.test
            if not (isinstance(t, ast.Compare) and _is_name(t.left, "constraint") and len(t.ops) == 1 and isinstance(t.ops[0], ast.Eq)
                    and isinstance(t.comparators[0], ast.Constant) and isinstance(t.comparators[0].value, str)):
                raise StaticError("proximal_operator: a branch test is not `constraint == \"<name>\"`")
            expr = _branch_return(br.body)
            table.append(f"({_kcoq(t.comparators[0].value)}, {_dop(expr, module_funcs) if expr is not None else 'DUnknown'})")
            rest = br.orelse
        else:
            else_raises = all(isinstance(st, ast.Raise) for st in rest)
            break
    return none_ok, table, else_raises


def _static_dispatch_dict(fn, chain, assign, module_funcs):
    """the dispatch written as a table:  ops = {"<name>": lambda t, p: <expr>, ...};  [if constraint is None: return tensor];
    [if constraint not in ops: raise ...];  return ops[constraint](tensor, parameter)"""
    import ast, copy
    dname = assign.targets[0].id
    none_ok = any(len(st.test.ops) == 1 and isinstance(st.test.ops[0], ast.Is) and isinstance(st.test.comparators[0], ast.Constant)
                  and st.test.comparators[0].value is None and len(st.body) == 1 and isinstance(st.body[0], ast.Return)
                  and _is_name(st.body[0].value, "tensor") and not st.orelse for st in chain)
    rets = [st for st in fn.body if isinstance(st, ast.Return)]
    ok_ret = (len(rets) == 1 and isinstance(rets[0].value, ast.Call) and isinstance(rets[0].value.func, ast.Subscript)
              and _is_name(rets[0].value.func.value, dname) and _is_name(rets[0].value.func.slice, "constraint")
              and len(rets[0].value.args) == 2 and _is_name(rets[0].value.args[0], "tensor") and _is_name(rets[0].value.args[1], "parameter")
              and not rets[0].value.keywords and fn.body.index(rets[0]) > fn.body.index(assign))
    if not ok_ret:
        raise StaticError("proximal_operator: a table of lambdas is built but not applied as `table[constraint](tensor, parameter)`")
    table = []
    for k_, lam in zip(assign.value.keys, assign.value.values):
        if not (isinstance(k_, ast.Constant) and isinstance(k_.value, str)):
            raise StaticError("proximal_operator: a key of the dispatch table is not a string constant")
        a = lam.args
        if a.vararg or a.kwarg or a.kwonlyargs or a.defaults or len(a.args) != 2:
            table.append(f"({_kcoq(k_.value)}, DUnknown)")
            continue
        ren = {a.args[0].arg: "tensor", a.args[1].arg: "parameter"}

        class Ren(ast.NodeTransformer):
            def visit_Name(self, node):
                if node.id in ren:
                    return ast.copy_location(ast.Name(id=ren[node.id], ctx=node.ctx), node)
                # a free `tensor` / `parameter` of the enclosing function captured under another binding would be mistranslated
                return ast.copy_location(ast.Name(id="_outer_" + node.id, ctx=node.ctx), node) if node.id in ("tensor", "parameter") else node
        table.append(f"({_kcoq(k_.value)}, {_dop(Ren().visit(copy.deepcopy(lam.body)), module_funcs)})")
    return none_ok, table, True      # a name without an entry raises KeyError (or the explicit raise before the look-up)


def _ndim_names(fn):
    """names assigned from tl.ndim(tensor) in this function"""
    import ast
    out = set()
    for st in ast.walk(fn):
        if (isinstance(st, ast.Assign) and len(st.targets) == 1 and isinstance(st.targets[0], ast.Name) and _is_ndim(st.value, set())
                and len(_stores(fn, st.targets[0].id)) == 1):
            out.add(st.targets[0].id)
    return out


def _is_ndim(node, names):
    import ast
    if isinstance(node, ast.Name) and node.id in names:
        return True
    return (isinstance(node, ast.Call) and _is_tl(node.func, "ndim") and len(node.args) == 1 and not node.keywords and _is_name(node.args[0], "tensor"))


def _calls_with_loops(fn, callee):
    """[(Call node, [enclosing For nodes, outermost first], enclosing statement)] for every call of `callee` in fn"""
    import ast
    found = []

    def walk(node, loops, stmt):
        for child in ast.iter_child_nodes(node):
            st = child if isinstance(child, ast.stmt) else stmt
            if isinstance(child, ast.Call) and isinstance(child.func, ast.Name) and child.func.id == callee:
                found.append((child, list(loops), st))
            walk(child, loops + [child] if isinstance(child, ast.For) else loops, st)
    walk(fn, [], None)
    return found


def _loop_alias(loop, name):
    """`name` is the loop variable, or is bound once, at the top level of the loop body, by `name = <loop variable>`"""
    import ast
    if loop.target.id == name:
        return True
    def stores(st):
        tg = st.targets if isinstance(st, ast.Assign) else [st.target] if isinstance(st, (ast.AugAssign, ast.For, ast.NamedExpr)) else []
        return any(isinstance(t, ast.Name) and t.id == name and isinstance(t.ctx, ast.Store) for g in tg for t in ast.walk(g))
    binds = [st for st in ast.walk(loop) if stores(st)]
    return (len(binds) == 1 and binds[0] in loop.body and isinstance(binds[0], ast.Assign) and len(binds[0].targets) == 1
            and _is_name(binds[0].targets[0], name) and _is_name(binds[0].value, loop.target.id))


def _stores(fn, name):
    """the statements of fn (any depth) that bind `name` (assignment, augmented assignment, loop target, walrus, with/except/import alias, del)"""
    import ast
    out = []
    for st in ast.walk(fn):
        if isinstance(st, ast.Name) and st.id == name and isinstance(st.ctx, (ast.Store, ast.Del)):
            out.append(st)
        elif isinstance(st, ast.alias) and (st.asname or st.name.split(".")[0]) == name:
            out.append(st)
        elif isinstance(st, ast.ExceptHandler) and st.name == name:
            out.append(st)
        elif isinstance(st, (ast.FunctionDef, ast.ClassDef)) and st is not fn and st.name == name:
            out.append(st)
        elif isinstance(st, (ast.Global, ast.Nonlocal)) and name in st.names:
            out.append(st)
    return out


def _order_none_default(fn, call_stmt):
    """`order` is bound exactly once in fn, by `if order is None: order = 0` (no else) or `order = 0 if order is None else order`, a top-level
    statement of fn placed before the top-level statement that holds the call"""
    import ast
    def is_none_test(t):
        return (isinstance(t, ast.Compare) and _is_name(t.left, "order") and len(t.ops) == 1 and isinstance(t.ops[0], ast.Is)
                and isinstance(t.comparators[0], ast.Constant) and t.comparators[0].value is None)
    def is_zero(e):
        return isinstance(e, ast.Constant) and type(e.value) is int and e.value == 0
    def assigns_order(st, value_ok):
        return isinstance(st, ast.Assign) and len(st.targets) == 1 and _is_name(st.targets[0], "order") and value_ok(st.value)
    if len(_stores(fn, "order")) != 1:
        return False
    top_of_call = next((i for i, st in enumerate(fn.body) if any(x is call_stmt for x in ast.walk(st))), None)
    if top_of_call is None:
        return False
    for st in fn.body[:top_of_call]:
        if isinstance(st, ast.If) and is_none_test(st.test) and not st.orelse and len(st.body) == 1 and assigns_order(st.body[0], is_zero):
            return True
        if assigns_order(st, lambda v: isinstance(v, ast.IfExp) and is_none_test(v.test) and is_zero(v.body) and _is_name(v.orelse, "order")):
            return True
    return False


def _static_forward(fn, callee, self_attrs=False):
    """(pairs, oexp, nexp) of the single call of `callee` in fn.  A forwarded parameter name that is re-bound anywhere in fn does not count as
    'the function's own parameter' (fail closed) - except admm's `if order is None: order = 0`, reported as OParamNone0."""
    import ast
    calls = _calls_with_loops(fn, callee)
    if len(calls) != 1:
        raise StaticError(f"{fn.name}: expected exactly one call of {callee}, found {len(calls)}")
    call, loops, stmt = calls[0]
    params = {a.arg for a in fn.args.args + fn.args.kwonlyargs}
    nd = _ndim_names(fn)
    keywords = []
    for kw in call.keywords:
        if kw.arg is not None:
            keywords.append(kw)
            continue
        # `**name` where name is bound exactly once in the function, by a dict display with constant string keys or by dict(k=v, ...)
        binds = ([st for st in ast.walk(fn) if isinstance(st, ast.Assign) and len(st.targets) == 1 and isinstance(kw.value, ast.Name)
                  and _is_name(st.targets[0], kw.value.id)] if isinstance(kw.value, ast.Name) else [])
        stores = [t for t in ast.walk(fn) if isinstance(t, ast.Name) and isinstance(kw.value, ast.Name) and t.id == kw.value.id and isinstance(t.ctx, ast.Store)]
        if len(binds) != 1 or len(stores) != 1:
            raise StaticError(f"{fn.name} -> {callee}: **kwargs forwarding of something else than a dict bound once in the function")
        v = binds[0].value
        if isinstance(v, ast.Dict) and all(isinstance(k_, ast.Constant) and isinstance(k_.value, str) for k_ in v.keys):
            keywords += [ast.keyword(arg=k_.value, value=e) for k_, e in zip(v.keys, v.values)]
        elif isinstance(v, ast.Call) and _is_name(v.func, "dict") and not v.args and all(k_.arg is not None for k_ in v.keywords):
            keywords += list(v.keywords)
        else:
            raise StaticError(f"{fn.name} -> {callee}: the dict forwarded with ** is not a display with constant keys")
    pairs, oexp, nexp = [], "ONone", "NNone"
    npos = len(call.args)
    for kw in keywords:
        v = kw.value
        if kw.arg in KINDS:
            if self_attrs:
                src = v.attr if isinstance(v, ast.Attribute) and _is_name(v.value, "self") else None
            else:
                src = v.id if isinstance(v, ast.Name) and v.id in params and not _stores(fn, v.id) else None
            if src in KINDS:
                pairs.append(f"({_kcoq(kw.arg)}, {_kcoq(src)})")
            # anything else: the pair is missing and forward_ok fails (fail closed)
        elif kw.arg == "order":
            if isinstance(v, ast.Name) and v.id == "order" and "order" in params:
                oexp = "OParam" if not _stores(fn, "order") else "OParamNone0" if _order_none_default(fn, stmt) else "OOther"
            elif isinstance(v, ast.Name) and loops and isinstance(loops[-1].target, ast.Name) and _loop_alias(loops[-1], v.id):
                it = loops[-1].iter
                if _is_name(it, "modes_list"):
                    oexp = "OLoopModesList"
                elif (isinstance(it, ast.Call) and _is_name(it.func, "range") and len(it.args) == 1 and _is_ndim(it.args[0], nd)
                      and npos == 1 and isinstance(call.args[0], ast.Subscript) and _is_name(call.args[0].slice, v.id)
                      and isinstance(stmt, ast.Assign) and len(stmt.targets) == 1 and isinstance(stmt.targets[0], ast.Subscript)
                      and ast.dump(stmt.targets[0].value) == ast.dump(call.args[0].value) and _is_name(stmt.targets[0].slice, v.id)):
                    oexp = "OLoopRangeNdim"       # for i in range(ndim): factors[i] = proximal_operator(factors[i], ..., order=i)
                else:
                    oexp = "OOther"
            else:
                oexp = "OOther"
        elif kw.arg == "n_const":
            nexp = ("NParam" if (isinstance(v, ast.Name) and v.id == "n_const" and "n_const" in params and not _stores(fn, "n_const"))
                    else "NNdimTensor" if _is_ndim(v, nd) else "NOther")
    return pairs, oexp, nexp


def static_cases():
    """Gallina `scase` literals regenerated from the source files of VERIF_REPO; raises StaticError on a construct outside the translator"""
    import ast, warnings
    def tree(rel):
        with warnings.catch_warnings():
            warnings.simplefilter("ignore")
            return ast.parse(open(os.path.join(C.REPO, rel)).read())
    px, ad, cp = tree("tensorly/tenalg/proximal.py"), tree("tensorly/solvers/admm.py"), tree("tensorly/decomposition/_constrained_cp.py")
    cases, names = [], []
    # SKinds
    vc = _find_def(px, "validate_constraints")
    lists = {}
    for st in vc.body:
        if isinstance(st, ast.Assign) and len(st.targets) == 1 and isinstance(st.targets[0], ast.Name) and st.targets[0].id in ("constraints_list", "constraints_names"):
            lists[st.targets[0].id] = st.value
    if set(lists) != {"constraints_list", "constraints_names"} or not all(isinstance(v, ast.List) for v in lists.values()):
        raise StaticError("validate_constraints: constraints_list / constraints_names are not list displays")
    params = {a.arg for a in vc.args.args}
    vs = []
    for e in lists["constraints_list"].elts:
        if not (isinstance(e, ast.Name) and e.id in params):
            raise StaticError("validate_constraints: constraints_list holds something else than parameter names")
        vs.append(_kcoq(e.id))
    ns = []
    for e in lists["constraints_names"].elts:
        if not (isinstance(e, ast.Constant) and isinstance(e.value, str)):
            raise StaticError("validate_constraints: constraints_names holds something else than string constants")
        ns.append(_kcoq(e.value))
    cases.append(f"SKinds {len(cases)}%nat [{'; '.join(vs)}] [{'; '.join(ns)}]"); names.append("validate_constraints: constraints_list / constraints_names")
    # SDispatch
    none_ok, table, else_raises = _static_dispatch(px)
    cases.append(f"SDispatch {len(cases)}%nat {C.boolc(none_ok)} [{'; '.join(table)}] {C.boolc(else_raises)}"); names.append("proximal_operator: dispatch chain")
    # SForward
    sites = [("SProxToValidate", _find_def(px, "proximal_operator"), "validate_constraints", False),
             ("SAdmmToProx", _find_def(ad, "admm"), "proximal_operator", False),
             ("SInitToProx", _find_def(cp, "initialize_constrained_parafac"), "proximal_operator", False),
             ("SCpToValidate", _find_def(cp, "constrained_parafac"), "validate_constraints", False),
             ("SCpToInit", _find_def(cp, "constrained_parafac"), "initialize_constrained_parafac", False),
             ("SCpToAdmm", _find_def(cp, "constrained_parafac"), "admm", False),
             ("SClassToCp", _find_def(cp, "fit_transform", "ConstrainedCP"), "constrained_parafac", True)]
    for site, fn, callee, selfa in sites:
        pairs, oexp, nexp = _static_forward(fn, callee, selfa)
        cases.append(f"SForward {len(cases)}%nat {site} [{'; '.join(pairs)}] {oexp} {nexp}"); names.append(f"{fn.name} -> {callee}")
    # SAdmmStart: before its loop admm binds x_split = tl.transpose(x) (fix fe4edf7: the value returned when the loop body never runs; the model returns
    # (x, x, dual) there) and nothing else re-binds x, x_split or dual_var before the loop
    adm = _find_def(ad, "admm")
    loop_i = next((i for i, st in enumerate(adm.body) if isinstance(st, ast.For)), None)
    if loop_i is None or sum(isinstance(st, ast.For) for st in adm.body) != 1:
        raise StaticError("admm: expected exactly one top-level for loop")
    pre = adm.body[:loop_i]
    def binds(st, name):
        return any(isinstance(t, ast.Name) and t.id == name and isinstance(t.ctx, ast.Store) for t in ast.walk(st))
    split_stmts = [st for st in pre if binds(st, "x_split")]
    split_ok = (len(split_stmts) == 1 and isinstance(split_stmts[0], ast.Assign) and len(split_stmts[0].targets) == 1 and _is_name(split_stmts[0].targets[0], "x_split")
                and isinstance(split_stmts[0].value, ast.Call) and _is_tl(split_stmts[0].value.func, "transpose") and len(split_stmts[0].value.args) == 1
                and not split_stmts[0].value.keywords and _is_name(split_stmts[0].value.args[0], "x"))
    start_kept = not any(binds(st, "x") or binds(st, "dual_var") for st in pre)
    ret = adm.body[-1]
    ret_ok = (isinstance(ret, ast.Return) and isinstance(ret.value, ast.Tuple) and [getattr(e, "id", None) for e in ret.value.elts] == ["x", "x_split", "dual_var"])
    cases.append(f"SAdmmStart {len(cases)}%nat {C.boolc(split_ok)} {C.boolc(start_kept)} {C.boolc(ret_ok)}"); names.append("admm: statements before the loop / return")
    # SClassInit: self.<kw> = <kw>
    init = _find_def(cp, "__init__", "ConstrainedCP")
    iparams = {a.arg for a in init.args.args + init.args.kwonlyargs}
    pairs = []
    for st in ast.walk(init):
        if isinstance(st, ast.Assign) and len(st.targets) == 1 and isinstance(st.targets[0], ast.Attribute) and _is_name(st.targets[0].value, "self") \
                and st.targets[0].attr in KINDS:
            if isinstance(st.value, ast.Name) and st.value.id in iparams and st.value.id in KINDS:
                pairs.append(f"({_kcoq(st.targets[0].attr)}, {_kcoq(st.value.id)})")
    cases.append(f"SForward {len(cases)}%nat SClassInit [{'; '.join(pairs)}] ONone NNone"); names.append("ConstrainedCP.__init__")
    return cases, names


# ----------------------------------------------------------------------------- real runs
def make_data(cfg):
    rs = np.random.RandomState(cfg["seed"])
    X = rs.randn(*cfg["shape"])
    dk = cfg["data"]
    if dk == "int":
        X = np.round(2 * X) + (X > 0)
    elif dk == "neg":
        X = -np.abs(X) - 0.1
    elif dk == "pos":
        X = np.abs(X) + 0.1
    elif dk == "small":
        X = 1e-3 * X
    elif dk == "big":
        X = 1e3 * X
    elif dk in ("replicated", "replicated_int"):
        # constant along mode rep_mode (replicated slices): the MTTKRP / SVD of that mode has identical rows -> exact ties
        m = cfg.get("rep_mode", 0) % len(cfg["shape"])
        shp = list(cfg["shape"]); shp[m] = 1
        S = np.random.RandomState(cfg["seed"]).randn(*shp)
        if dk == "replicated_int":
            S = np.round(2 * S) + (S > 0)
        X = np.repeat(S, cfg["shape"][m], axis=m)
    elif dk == "zeros":
        X = np.zeros(cfg["shape"])
    elif dk == "const":
        X = np.full(cfg["shape"], float(rs.randint(1, 4)))
    elif dk == "signs":
        X = np.sign(X) * float(rs.randint(1, 3))          # one magnitude, random signs
    return X


def updated_modes(n, fixed):
    fixed = list(fixed or [])
    if n - 1 in fixed:
        fixed.remove(n - 1)
    return [m for m in range(n) if m not in fixed]


class Recorder:
    """records every proximal_operator call made by admm / the initialiser (module-attribute interposition)"""

    def __init__(self):
        import tensorly.solvers.admm as A
        import tensorly.decomposition._constrained_cp as D
        import tensorly.tenalg.proximal as PX
        self.PX = PX
        self.orig = PX.proximal_operator
        self.mods = [m for m in (A, D) if getattr(m, "proximal_operator", None) is self.orig]
        self.observable = len(self.mods) == 2
        self.calls = []

    def __enter__(self):
        self.calls = []
        orig, PX, calls = self.orig, self.PX, self.calls

        def wrapper(tensor, *a, **kw):
            inp = np.array(tensor, dtype=float, copy=True)
            out = orig(tensor, *a, **kw)
            try:
                c, p = PX.validate_constraints(**kw)
            except Exception as e:  # noqa
                c, p = "?", repr(e)
            calls.append((kw.get("order", 0), c, p, np.array(out, copy=True), inp))
            if c in HARD and len(OP_CALLS) < 60000:
                OP_CALLS.append((c, p, inp, np.array(out, dtype=float, copy=True)))
            return out
        for m in self.mods:
            m.proximal_operator = wrapper
        return self

    def __exit__(self, *exc):
        for m in self.mods:
            m.proximal_operator = self.orig
        return False


def run_cfg(cfg, rec=None):
    """one real run; returns dict(status, factors, user_factors, calls, message)"""
    import tensorly as tl
    from tensorly.decomposition import constrained_parafac, ConstrainedCP
    from tensorly.decomposition._constrained_cp import initialize_constrained_parafac
    from tensorly.cp_tensor import CPTensor
    X = make_data(cfg)
    spec = spec_from_json(cfg["spec"])
    n, rank = len(cfg["shape"]), cfg["rank"]
    rs = np.random.RandomState(cfg["seed"] + 7919)
    user = None
    weights = None
    if cfg["init"] in ("svd", "random"):
        init = cfg["init"]
    elif cfg["init"] == "user_feasible":
        st, v = C.call_impl(initialize_constrained_parafac, X, rank, init="random", random_state=cfg["seed"], **spec)
        if st != "ok":
            return dict(status="skip", message=f"could not build a feasible init: {v}")
        user = [np.array(f, copy=True) for f in v.factors]
        init = CPTensor((None, [np.array(f, copy=True) for f in user]))
    elif cfg["init"] in ("user_ones", "user_rows", "user_signs"):
        # structured warm starts: identical rows / one magnitude -> exact ties in the iterates of a symmetric problem
        if cfg["init"] == "user_ones":
            user = [np.ones((d, rank)) for d in cfg["shape"]]
        elif cfg["init"] == "user_rows":
            user = [np.repeat(rs.randn(1, rank), d, axis=0) for d in cfg["shape"]]
        else:
            user = [np.sign(rs.randn(d, rank)) * 0.5 for d in cfg["shape"]]
        init = CPTensor((None, [np.array(f, copy=True) for f in user]))
    else:
        n_init = cfg.get("n_init", n)      # a CP tensor with fewer / more factors than the tensor has modes
        dims = list(cfg["shape"][:n_init]) + [3] * max(0, n_init - n)
        user = [rs.randn(d, rank) for d in dims]
        # weights of the user's CP tensor: None / all ones (taken as they are) / general, or ones except one entry (multiplied into the last factor)
        w = (np.ones(rank) if cfg["init"] == "user_w1" else rs.choice([-2.0, 0.5, 3.0], size=rank) if cfg["init"] == "user_w"
             else np.concatenate([np.ones(rank - 1), [2.0]]) if cfg["init"] == "user_w_one_off" else None)
        init = (w, [np.array(f, copy=True) for f in user])
        weights = w
    kw = dict(n_iter_max=cfg["n_outer"], n_iter_max_inner=cfg["n_inner"], init=init, random_state=cfg["seed"],
              fixed_modes=(list(cfg["fixed"]) if cfg["fixed"] else None), tol_outer=cfg.get("tol_outer", 1e-8), **spec)
    if cfg.get("cvg"):
        kw["cvg_criterion"] = cfg["cvg"]      # 'rec_error': the other documented stopping rule (stopping is arbitrary in the model)
    if cfg.get("via_class"):
        def fn():
            return ConstrainedCP(rank, **kw).fit_transform(X)
    else:
        def fn():
            return constrained_parafac(X, rank, **kw)
    if rec is not None:
        with rec:
            st, v = C.call_impl(fn)
        calls = list(rec.calls)
    else:
        st, v = C.call_impl(fn)
        calls = None
    if st == "ok":
        return dict(status="ok", factors=[np.asarray(f) for f in v.factors], user=user, calls=calls, weights=weights)
    return dict(status=st, message=v, user=user, calls=calls, weights=weights)


def checked_modes(cfg):
    """(mode, kind, parameter) triples the theorem C11_returned_factor_is_operator_output speaks about in this run,
    plus the modes that keep a feasible user factor"""
    n = len(cfg["shape"])
    spec = spec_from_json(cfg["spec"])
    upd = updated_modes(n, cfg["fixed"])
    out = []
    for m in range(n):
        for k in KINDS:
            ok, p = requested(n, spec.get(k), m)
            if ok and k in HARD:
                # a user's factor is projected only where the run updates it: outer AND inner budget >= 1 (inner budget 0: admm returns its start, fix fe4edf7)
                in_range = cfg["init"] in ("svd", "random") or (m in upd and cfg["n_outer"] > 0 and cfg["n_inner"] > 0)
                if in_range or cfg["init"] == "user_feasible":
                    out.append((m, k, p))
    return out


def err_ok(cfg):
    """Corr.C11.tag_env: does `mttkrp * factors[-1]` broadcast when the last mode is not updated (last updated mode vs last mode)"""
    n = len(cfg["shape"])
    upd = updated_modes(n, cfg["fixed"])
    if not upd or (n - 1) in upd:
        return True
    a, b = cfg["shape"][upd[-1]], cfg["shape"][n - 1]
    return a == b or a == 1 or b == 1


def n_init_of(cfg):
    n = len(cfg["shape"])
    return cfg.get("n_init", n) if cfg["init"] in USER_RANDOM_INITS else n


KNOWN_CRITERIA = {"abs_rec_error": "CrAbsRecError", "rec_error": "CrRecError"}


def stop_lits(cfg):
    """(tol, criterion, cerr_small) of Corr.C11.model_trace_c; cerr_small (`constraint_error < tol_outer`) is decidable for the tolerances
    the cvg stream uses: never for 1e-300, always for 1e300 (a NaN / inf constraint error only occurs in runs that are skipped)"""
    tol = cfg.get("tol_outer", 1e-8)
    # with an inner budget of 0 admm returns (x, transpose(x), dual): the constraint error is exactly 0, below every positive tolerance
    return bool(tol), KNOWN_CRITERIA.get(cfg.get("cvg") or "abs_rec_error", "CrUnknown"), bool(tol) and (tol >= 1e100 or (cfg["n_inner"] == 0 and tol > 0))


def unknown_criterion_reached(cfg):
    tol, crit, cerr = stop_lits(cfg)
    return crit == "CrUnknown" and tol and not cerr and cfg["n_outer"] >= 2


def corner_raise(cfg):
    """raises of constrained_parafac that are not validation errors and that the model mirrors (C11_no_mode_updated_raises,
    C11_wrong_factor_count_raises, err_defined): the request is valid but the run must raise"""
    n = len(cfg["shape"])
    if cfg["n_outer"] == 0:
        return False
    upd = updated_modes(n, cfg["fixed"])
    if not upd:
        return True                      # fixed_modes = [0, .., n-1, n-1]: nothing updated, `mttkrp` unbound
    # inner budget 0 no longer raises (fix fe4edf7: admm returns its start)
    if unknown_criterion_reached(cfg):
        return True                      # TypeError("Unknown convergence criterion") at the second sweep (C11_unknown_criterion_raises)
    if n_init_of(cfg) != n:
        return True                      # shapes not aligned
    return (n - 1) not in upd and not err_ok(cfg)


def degenerate_message(msg):
    """a raised run that is outside the property: singular Gram matrix / non-converging SVD / the harness' per-case timeout"""
    msg = str(msg)
    return "LinAlgError" in msg or "SVD did not converge" in msg or msg == "timeout"


ZERO_DIV_KINDS = ("normalize", "normalized_sparsity")


def zero_kept_part(kind, p, a):
    """the operator of `kind` divides by 0 on the finite input a: max |a| = 0, resp. the part kept by hard thresholding is zero"""
    a = np.asarray(a, float)
    if not np.all(np.isfinite(a)):
        return False
    if kind == "normalize":
        return not np.any(a != 0)
    if kind == "normalized_sparsity":
        try:
            return float(p) < 1 or not np.any(a != 0)
        except (TypeError, ValueError):
            return False
    return False


def nan_origin(calls):
    """(mode, kind, parameter) of the FIRST recorded operator call with a non-finite output, if that call is a max-normalisation /
    normalised sparsity of a finite input whose kept part is zero (0/0: known finding C11_zero_operator_input_refuted); None otherwise"""
    for c in calls or []:
        order, kind, p, out = c[0], c[1], c[2], c[3]
        if not np.all(np.isfinite(np.asarray(out, float))):
            if kind in ZERO_DIV_KINDS and len(c) > 4 and zero_kept_part(kind, p, c[4]):
                return order, kind, p
            return None
    return None


def run_predicates(cfg, res):
    """list of (predicate name, message) failing on this run"""
    n = len(cfg["shape"])
    spec = spec_from_json(cfg["spec"])
    exp = expected_table(n, spec)
    fails = []
    if exp is None:
        if res["status"] == "ok":
            fails.append(("C11_decomposition_rejects_double", "a request with two constraints on one mode was not rejected"))
        return fails, 0
    if any(e is AMBIGUOUS for e in exp):
        return fails, 0
    if res["status"] in ("skip",):
        return fails, 0
    if res["status"] != "ok" and corner_raise(cfg):
        return fails, 0      # a raise the model mirrors (no mode updated, wrong number of factors, error
                             # computation of a fixed last mode): compared through the trace, not judged here
    if res["status"] != "ok":
        if degenerate_message(res["message"]):
            return fails, 0  # degenerate problem (singular Gram matrix) or timeout on a loaded machine, outside the property
        fails.append(("C11_valid_request_returns", f"valid request raised: {res['message']}"))
        return fails, 0
    nchk = 0
    if any(not np.all(np.isfinite(np.asarray(F, float))) for F in res["factors"]):
        org = nan_origin(res.get("calls"))
        if org is not None:
            m0, k0, p0 = org
            fails.append(("C11_feasible_" + k0, f"mode {m0} ({k0}={p0!r}): the operator divided 0 by 0 (its input has a zero kept part) and the "
                                                 f"decomposition returned non-finite factors: not in the constraint set"))
            return fails, 1
    if len(res["factors"]) != n_init_of(cfg):
        fails.append(("C11_skeleton", f"{len(res['factors'])} factors returned, {n_init_of(cfg)} initial factors"))
        return fails, 0
    for m, k, p in checked_modes(cfg):
        if m >= len(res["factors"]):
            continue
        F = res["factors"][m]
        if F.shape != (cfg["shape"][m], cfg["rank"]):
            fails.append(("C11_feasible_" + k, f"mode {m}: factor shape {F.shape}"))
            continue
        msg = feasible(k, p, F)
        if msg == "degenerate":
            continue
        nchk += 1
        if msg:
            fails.append(("C11_feasible_" + k, f"mode {m} ({k}={p!r}): {msg}"))
    return fails, nchk


def prov_lit(cfg, res):
    """provenance of the returned factors as observed: Gallina `res (list prov)`; None = not observable / skipped"""
    n = len(cfg["shape"])
    if res["status"] == "skip":
        return None
    if res["status"] != "ok":
        if degenerate_message(res["message"]):
            return None
        return "Err"
    out = []
    for m in range(len(res["factors"])):
        F = res["factors"][m]
        cm = [c for c in res["calls"] if c[0] == m]
        if cm:
            _, c, p, o = cm[-1][:4]
            if o.shape == F.shape and np.array_equal(o, F, equal_nan=True):
                if c is None:
                    out.append("PvRaw")
                elif c in KINDS and p is not None:
                    out.append(f"PvOp {KCOQ[KINDS.index(c)]} {pv(p)}")
                else:
                    out.append("PvOther")
            else:
                out.append("PvOther")
        elif res["user"] is not None and m < len(res["user"]) and res["user"][m].shape == F.shape and np.array_equal(res["user"][m], F, equal_nan=True):
            out.append(f"PvUser {C.nat(m)}")
        elif (res["user"] is not None and m == len(res["user"]) - 1 and res.get("weights") is not None and res["user"][m].shape == F.shape
              and np.array_equal(res["user"][m] * np.reshape(res["weights"], (1, -1)), F, equal_nan=True)):
            out.append(f"PvUserW {C.nat(m)}")
        else:
            out.append("PvOther")
    return "(Ok [" + "; ".join(out) + "])"


# ----------------------------------------------------------------------------- admm on its own / dispatch of proximal_operator
def tag_lit(c, p):
    if c is None:
        return "PvRaw"
    if c in KINDS and p is not None:
        try:
            return f"PvOp {KCOQ[KINDS.index(c)]} {pv(p)}"
        except TypeError:
            return "PvOther"
    return "PvOther"


def run_admm(cfg, rec):
    """tensorly.solvers.admm.admm with n_const = n, order; returns (Gallina `res prov` | None, predicate failures, judged?)"""
    from tensorly.solvers.admm import admm
    rs = np.random.RandomState(cfg["seed"])
    r, rows, n, order = cfg["rank"], cfg["rows"], cfg["n"], cfg["order"]
    A = rs.randn(r + 3, r)
    UtU = A.T @ A + 0.5 * np.eye(r)
    how = cfg.get("input", "generic")
    x0 = structured_matrix(rs, rows, r, how)
    UtM = structured_matrix(rs, rows, r, how, cfg.get("scale", 1.0))
    dual = np.zeros((rows, r)) if (cfg.get("zero_dual", True) or how != "generic") else 0.1 * rs.randn(rows, r)
    spec = spec_from_json(cfg["spec"])
    if cfg.get("n_const_none"):
        # the `n_const is None` branch (Model/ConstraintsNc.v): the keywords are ignored, the unconstrained least-squares solution is returned
        st, v = C.call_impl(admm, UtM, UtU, x0, dual, n_iter_max=cfg["n_iter"], n_const=None, order=order, tol=cfg.get("tol", 1e-6), **spec)
        if st != "ok":
            return (None if degenerate_message(v) else "Err"), [], False
        x = np.asarray(v[0])
        ls = np.transpose(np.linalg.solve(np.transpose(UtU), np.transpose(UtM)))
        fails = [] if np.array_equal(np.asarray(v[2]), dual) else [("C11_n_const_none_ignores_request", "admm(n_const=None) changed the dual variable")]
        return ("(Ok PvRaw)" if (x.shape == ls.shape and np.allclose(x, ls, rtol=1e-12, atol=1e-14)) else "(Ok (PvUser 0%nat))" if np.array_equal(x, x0) else "(Ok PvOther)"), fails, False
    okw = {} if cfg.get("order_omitted") else {"order": order}       # order=None explicitly, or left at admm's default (None)
    with rec:
        st, v = C.call_impl(admm, UtM, UtU, x0, dual, n_iter_max=cfg["n_iter"], n_const=n, tol=cfg.get("tol", 1e-6), **okw, **spec)
    calls = list(rec.calls)
    if order is None:
        order = 0                                                     # Model/ConstraintsNc.v order_of: `if order is None: order = 0`
    exp = expected_table(n, spec)
    fails = []
    if st != "ok":
        if degenerate_message(v):
            return None, fails, False
        if exp is not None and not any(e is AMBIGUOUS for e in exp) and cfg["n_iter"] > 0:
            fails.append(("C11_valid_request_returns", f"admm raised on a valid request: {v}"))
        return "Err", fails, False
    if exp is None and cfg["n_iter"] > 0:      # inner budget 0: admm returns its start without calling proximal_operator - nothing is validated
        fails.append(("C11_reject_iff_double", "admm accepted a request with two constraints on one mode"))
    x = np.asarray(v[0])
    if calls and calls[-1][3].shape == x.shape and np.array_equal(calls[-1][3], x, equal_nan=True):
        lit = "(Ok (" + tag_lit(calls[-1][1], calls[-1][2]) + "))"
    elif x.shape == x0.shape and np.array_equal(x, x0):
        lit = "(Ok (PvUser 0%nat))"
    else:
        lit = "(Ok PvOther)"
    judged = False
    if cfg["n_iter"] > 0 and exp is not None and exp[order] is not None and exp[order] is not AMBIGUOUS and exp[order][0] in HARD:
        k, p = exp[order]
        msg = feasible(k, p, x)
        if msg != "degenerate":
            judged = True
            if msg:
                fails.append(("C11_feasible_" + k, f"admm(order={order}, {k}={p!r}) returned an infeasible primal variable: {msg}"))
    return lit, fails, judged


# ----------------------------------------------------------------------------- the stopping rule on numbers (CStopNum)
def _close(a, b):
    return abs(a - b) <= 1e-9 * max(abs(a), abs(b))


def predicted_sweeps(n_outer, tol, crit, cerrs, errs):
    """Python transcription of C11_stop_rule_numeric inside the outer loop: number of sweeps executed, or 'raise'; None if a comparison is
    ill-conditioned (a quantity within 1e-9 relative of the tolerance: the float subtraction of the code and the exact one of the model may differ)"""
    for it in range(n_outer):
        if it >= len(cerrs):
            return f"more than {it}"                    # the recorded sequences end here: the run stopped earlier than the rule says
        if tol != 0 and it >= 1:
            if _close(cerrs[it], tol):
                return None
            if cerrs[it] < tol:
                return it + 1
            if crit not in KNOWN_CRITERIA:
                return "raise"
            if it >= len(errs):
                return f"more than {it}"
            dec = Fraction(errs[it - 1]) - Fraction(errs[it])
            if _close(abs(dec), Fraction(tol)) or _close(dec, Fraction(tol)):
                return None
            if (abs(dec) if crit == "abs_rec_error" else dec) < Fraction(tol):
                return it + 1
    return n_outer


def run_stop_num(cfg):
    """a real run of constrained_parafac(return_errors=True) with `admm` of tensorly.decomposition._constrained_cp interposed: the constraint
    error after every sweep (recomputed as the code does, from the values admm returned), rec_errors, the number of sweeps.
    Returns (Gallina case body | None, predicate failures)."""
    import tensorly as tl
    import tensorly.decomposition._constrained_cp as D
    from tensorly.decomposition import constrained_parafac
    X = make_data(cfg)
    n = len(cfg["shape"])
    spec = spec_from_json(cfg["spec"])
    orig = D.admm
    recs = []

    def wrapper(*a, **kw):
        out = orig(*a, **kw)
        recs.append((kw.get("order"), np.array(out[0], copy=True), np.array(out[1], copy=True)))
        return out
    kw = dict(n_iter_max=cfg["n_outer"], n_iter_max_inner=cfg["n_inner"], init="random", random_state=cfg["seed"], tol_outer=cfg["tol_outer"],
              return_errors=True, **spec)
    if cfg.get("cvg") is not None:
        kw["cvg_criterion"] = cfg["cvg"]
    D.admm = wrapper
    try:
        st, v = C.call_impl(constrained_parafac, X, cfg["rank"], **kw)
    finally:
        D.admm = orig
    if len(recs) % n:
        return None, []
    cerrs = []
    for s_ in range(len(recs) // n):
        ce = 0
        for (_, x, xs) in recs[s_ * n:(s_ + 1) * n]:
            ce += tl.norm(x - tl.transpose(xs)) / tl.norm(x)
        cerrs.append(float(ce))
    crit = cfg.get("cvg") or "abs_rec_error"
    tol = cfg["tol_outer"]
    if st == "ok":
        errs = [float(e) for e in v[1]]
        observed = len(errs)
    elif isinstance(v, str) and "Unknown convergence criterion" in v:
        errs, observed = [], "raise"
    else:
        return None, []
    if not all(np.isfinite(cerrs)) or not all(np.isfinite(errs)):
        return None, []
    pred = predicted_sweeps(cfg["n_outer"], tol, crit, cerrs, errs)
    if pred is None:
        return None, []
    fails = []
    if pred != observed:
        fails.append(("C11_stop_rule_numeric", f"constrained_parafac(tol_outer={tol!r}, cvg_criterion={crit!r}, n_iter_max={cfg['n_outer']}) executed {observed} sweeps; "
                                               f"the stopping rule on the recorded constraint errors {cerrs[:4]} / reconstruction errors {errs[:4]} gives {pred}"))
    exp = "Err" if observed == "raise" else "(Ok " + C.nat_list([observed] * n) + ")"
    body = (f"{n}%nat {cfg['n_outer']}%nat {C.q(float(tol))} {KNOWN_CRITERIA.get(crit, 'CrUnknown')} {C.q_list(cerrs)} {C.q_list(errs)} {exp}")
    return body, fails


def gen_stop_cfgs(tier, rng):
    mult = 1 if tier == "quick" else 5
    kinds = [("non_negative", True), ("simplex", 1.0), ("monotonicity", True), ("soft_sparsity", 0.75), ("hard_sparsity", 3)]
    for _ in range(36 * mult):
        k, p = rng.choice(kinds)
        n = 3
        yield dict(kind="stopnum", shape=[rng.randint(3, 5) for _ in range(n)], rank=2, data=rng.choice(["signed", "pos", "int"]), seed=rng.randrange(1 << 30),
                   n_outer=rng.choice([0, 1, 2, 3, 4, 6, 9]), n_inner=rng.choice([1, 2, 5]),
                   tol_outer=rng.choice([0, 0.0, 1e-300, 1e-8, 1e-4, 1e-3, 1e-2, 3e-2, 0.1, 0.3, 1.0, -1e-3, 1e300]),
                   cvg=rng.choice([None, "abs_rec_error", "rec_error", "rec_error", "bogus"]),
                   spec=spec_to_json({k: form_spec(k, rng.choice(["scalar", "dict"]), tuple(range(n)), n, p)}))


    # runs whose reconstruction error INCREASES by more than the tolerance in some sweep (hard thresholding / unimodality on positive data do that in
    # most runs): here abs(decrease) < tol and decrease < tol differ
    for _ in range(14 * mult):
        k, p = rng.choice([("hard_sparsity", 3), ("unimodality", True)])
        n = 3
        yield dict(kind="stopnum", shape=[rng.randint(3, 5) for _ in range(n)], rank=2, data="pos", seed=rng.randrange(1 << 30),
                   n_outer=rng.choice([4, 6, 9]), n_inner=rng.choice([1, 2, 5]), tol_outer=rng.choice([1e-3, 1e-2]),
                   cvg=rng.choice([None, "abs_rec_error", "abs_rec_error", "rec_error"]),
                   spec=spec_to_json({k: form_spec(k, rng.choice(["scalar", "dict"]), tuple(range(n)), n, p)}))


def direct_operators():
    import tensorly.tenalg.proximal as PX
    return {"non_negative": lambda t, p: np.clip(t, 0, None), "l1_reg": PX.soft_thresholding, "l2_reg": PX.l2_prox,
            "l2_square_reg": PX.l2_square_prox, "unimodality": lambda t, p: PX.unimodality_prox(t),
            "normalize": lambda t, p: t / np.max(np.abs(t)), "simplex": PX.simplex_prox,
            "normalized_sparsity": PX.normalized_sparsity_prox, "soft_sparsity": PX.soft_sparsity_prox,
            "smoothness": PX.smoothness_prox, "monotonicity": lambda t, p: PX.monotonicity_prox(t),
            "hard_sparsity": PX.hard_thresholding}


def structured_matrix(rs, rows, cols, how, scale=1.0):
    """signed test matrices; everything but 'generic' carries exactly tied magnitudes"""
    if how == "ties":                 # few magnitudes, random signs
        M = rs.choice([0.5, 1.0, 2.0], size=(rows, cols)) * np.sign(rs.randn(rows, cols))
    elif how == "one_magnitude":
        M = np.sign(rs.randn(rows, cols)) * 1.5
    elif how == "rows":               # identical rows
        M = np.repeat(rs.randn(1, cols), rows, axis=0)
    elif how == "const":
        M = np.full((rows, cols), float(rs.choice([-2.0, 1.0, 3.0])))
    elif how == "int":
        M = np.round(1.5 * rs.randn(rows, cols))
    elif how == "zeros":
        M = np.zeros((rows, cols))
    elif how == "zeros_and_ties":
        M = rs.choice([0.0, 0.0, 1.0, -1.0, 2.0], size=(rows, cols))
    else:
        M = rs.randn(rows, cols)
    return M * scale


def same_array(a, b):
    a, b = np.asarray(a), np.asarray(b)
    return a.shape == b.shape and bool(np.allclose(a, b, rtol=1e-12, atol=1e-14, equal_nan=True))


def run_prox(cfg):
    """proximal_operator(tensor, n_const=n, order=order, **spec): which operator's output is returned, identified BY VALUE
    against the operator functions called directly with every parameter the request mentions for that keyword"""
    from tensorly.tenalg.proximal import proximal_operator
    rs = np.random.RandomState(cfg["seed"])
    T = structured_matrix(rs, cfg["rows"], cfg["rank"], cfg.get("input", "generic"), cfg.get("scale", 1.0))
    n, order = cfg["n"], cfg["order"]
    spec = spec_from_json(cfg["spec"])
    if cfg.get("n_const_none") or order is None:
        # n_const=None: the input comes back whatever the keywords; order=None with a number of constraints: constraints[None] raises
        st, out = C.call_impl(proximal_operator, np.array(T, copy=True), n_const=(None if cfg.get("n_const_none") else n), order=order, **spec)
        if st != "ok":
            return "Err", []
        return ("(Ok PvRaw)" if same_array(out, T) else "(Ok PvOther)"), []
    st, out = C.call_impl(proximal_operator, np.array(T, copy=True), n_const=n, order=order, **spec)
    exp = expected_table(n, spec)
    fails = []
    if st != "ok":
        if degenerate_message(out):
            return None, fails
        if exp is not None and not any(e is AMBIGUOUS for e in exp):
            fails.append(("C11_valid_request_returns", f"proximal_operator raised on a valid request: {out}"))
        return "Err", fails
    if exp is None:
        fails.append(("C11_reject_iff_double", "proximal_operator accepted a request with two constraints on one mode"))
    ops = direct_operators()
    cands = []
    for k in KINDS:
        sk = spec.get(k)
        if sk is None:
            continue
        ps = list(sk.values()) if isinstance(sk, dict) else [e for e in sk if e is not None] if isinstance(sk, list) else [sk]
        for p_ in ps:
            if not any(k == k2 and same_value(p_, p2) for k2, p2 in cands):
                cands.append((k, p_))
    matches = []
    for k, p_ in cands:
        stc, ref = C.call_impl(ops[k], np.array(T, copy=True), p_)
        if stc == "ok" and same_array(out, ref):
            matches.append((k, p_))
    ident = same_array(out, T)
    e = exp[order] if exp is not None else None
    if e is AMBIGUOUS:
        return None, fails
    if e is not None and any(e[0] == k and same_value(e[1], p_) for k, p_ in matches):
        lit = tag_lit(*e)
    elif e is None and ident:
        lit = "PvRaw"
    elif matches:
        lit = tag_lit(*matches[0])
    elif ident:
        lit = "PvRaw"
    else:
        lit = "PvOther"
    if exp is not None:
        want = "PvRaw" if e is None else tag_lit(*e)
        if lit != want:
            fails.append(("C11_dispatch", f"proximal_operator(order={order}): the output is {lit} (identified by value), the request asks for {want}"))
        if e is not None and e[0] in ZERO_DIV_KINDS and not np.all(np.isfinite(np.asarray(out, float))) and zero_kept_part(e[0], e[1], T):
            fails.append(("C11_feasible_" + e[0], f"proximal_operator(order={order}, {e[0]}={e[1]!r}) divided 0 by 0 on an input with a zero kept part "
                                                   f"and returned non-finite values: not in the constraint set"))
        elif e is not None and e[0] in HARD:
            msg = feasible(e[0], e[1], out)
            if msg and msg != "degenerate":
                fails.append(("C11_feasible_" + e[0], f"proximal_operator(order={order}, {e[0]}={e[1]!r}) on a {cfg.get('input', 'generic')} matrix: {msg}"))
    return "(Ok (" + lit + "))", fails


# ----------------------------------------------------------------------------- generators
def subsets(n):
    for r in range(n + 1):
        for s in itertools.combinations(range(n), r):
            yield s


def form_spec(kind, form, modes, n, p, rng=None, noise=False):
    """the keyword value of `kind` addressing `modes` in the given form"""
    if form == "scalar":
        return p
    if form == "list":
        l = [p if m in modes else None for m in range(n)]
        if noise and rng is not None:
            r = rng.random()
            if r < 0.15:
                l = [FALSY[kind] if (e is None and rng.random() < 0.5) else e for e in l]  # falsy non-None entries
            elif r < 0.25:
                while l and l[-1] is None:
                    l.pop()  # shorter list
            elif r < 0.32:
                l = l + [None, FALSY[kind]]  # longer list with a falsy tail
        return l
    return {m: p for m in modes}


def gen_table_cases(tier, rng):
    """yields (n, spec, tag)"""
    for n in (3, 4):
        for k in KINDS:
            t, f = TRUTHY[k], FALSY[k]
            yield n, {k: t}, "single"
            yield n, {k: f}, "single"
            yield n, {k: []}, "single"
            yield n, {k: {}}, "single"
            for S in subsets(n):
                yield n, {k: form_spec(k, "list", S, n, t)}, "single"
                yield n, {k: form_spec(k, "dict", S, n, t)}, "single"
            yield n, {k: [t] * (n - 1)}, "single"
            yield n, {k: [None] * n + [f]}, "single"
            yield n, {k: [None] * n + [t]}, "single"          # addresses mode n: rejected
            yield n, {k: [f] * n}, "single"
            yield n, {k: [f, t] + [None] * (n - 2)}, "single"
            yield n, {k: {n: t}}, "single"                    # key n: rejected
            yield n, {k: {0: t, n + 1: t}}, "single"
            yield n, {k: {n - 1: f}}, "single"                # a falsy value in a dict still constrains the mode
            yield n, {k: {1: f, 0: t}}, "single"
    # dict keys that are negative Python ints (wrap-around): alone / disjoint (valid), below -n (IndexError), twice in one dict
    for n in (3, 4):
        for k in KINDS:
            t, f = TRUTHY[k], FALSY[k]
            yield n, {k: {-1: t}}, "negkey"
            yield n, {k: {-n: t, 1: t}}, "negkey"
            yield n, {k: {-n - 1: t}}, "negkey"
            yield n, {k: {0: t, -n - 2: t}}, "negkey"
            yield n, {k: {n - 1: t, -1: f}}, "negkey"          # one dict names the last mode twice: rejected
            yield n, {k: {-2: f, n - 2: t}}, "negkey"
    forms = ["scalar", "list", "dict"]
    pairs = list(itertools.combinations(KINDS, 2))
    for n in (3, 4):
        for (k1, k2) in pairs:
            if rng.random() < 0.5:
                k1, k2 = k2, k1
            m = rng.randrange(n)
            m2 = (m + 1 + rng.randrange(n - 1)) % n
            t1, t2 = TRUTHY[k1], TRUTHY[k2]
            yield n, {k1: {m: t1}, k2: {m2 - n: t2}}, "negkey"                                   # disjoint: valid
            yield n, {k1: {m - n: t1}, k2: form_spec(k2, rng.choice(["list", "dict"]), (m2,), n, t2)}, "negkey"
            # the negative key names a mode another keyword addresses (accepted before fix c019b1a): must be rejected
            yield n, {k1: {m: t1}, k2: {m - n: t2}}, "alias"
            yield n, {k1: {m - n: t1}, k2: form_spec(k2, rng.choice(["list", "dict", "scalar"]), (m,), n, t2)}, "alias"
            if tier != "quick":
                yield n, {k1: {m - n: t1, m2: t1}, k2: {m - n: t2}}, "negkey"                    # same raw key twice: seen by the scan
                yield n, {k1: {m - n: t1}, k2: {m2 - n: t2, m: t2}}, "alias"
    for n, per in ((3, 4 if tier == "quick" else 64), (4, 1 if tier == "quick" else 8)):
        allsub = list(subsets(n))
        allpairs = list(itertools.product(allsub, allsub))
        for (k1, k2) in pairs:
            for f1 in forms:
                for f2 in forms:
                    sel = allpairs if per >= len(allpairs) else [rng.choice(allpairs) for _ in range(per)]
                    for (S1, S2) in sel:
                        p1 = TRUTHY[k1] if rng.random() < 0.9 else FALSY[k1]
                        p2 = TRUTHY[k2] if rng.random() < 0.9 else FALSY[k2]
                        yield n, {k1: form_spec(k1, f1, S1, n, p1, rng, True), k2: form_spec(k2, f2, S2, n, p2, rng, True)}, "pair"
    for _ in range(250 if tier == "quick" else 3000):
        n = rng.choice([3, 4])
        ks = rng.sample(KINDS, rng.choice([3, 3, 4]))
        # mostly disjoint mode sets so that a good share of the triples is valid
        modes = list(range(n)); rng.shuffle(modes)
        spec = {}
        for i, k in enumerate(ks):
            S = tuple(sorted(set(modes[i::len(ks)]) if rng.random() < 0.8 else set(rng.sample(range(n), rng.randint(0, n)))))
            spec[k] = form_spec(k, rng.choice(["list", "dict", "dict", "list", "scalar"]) if rng.random() < 0.9 else "scalar",
                                S, n, TRUTHY[k], rng, True)
            if spec[k] == TRUTHY[k] and rng.random() < 0.7:
                spec[k] = form_spec(k, "dict", S, n, TRUTHY[k])
        yield n, spec, "triple"


def gen_run_cfgs(tier, rng):
    mult = 1 if tier == "quick" else 6
    sid = [0]

    def base(order=None, rank=None):
        order = order or rng.choice([3, 3, 4])
        sid[0] += 1
        return dict(shape=[rng.randint(2, 4) for _ in range(order)], rank=rank or rng.choice([1, 2, 3]),
                    data=rng.choice(["signed", "signed", "signed", "int", "neg", "pos", "small", "big"]),
                    seed=rng.randrange(1 << 30), n_outer=0, n_inner=1, init="svd", fixed=[], via_class=rng.random() < 0.15)

    # systematic: every hard kind x form x budgets
    for k in HARD:
        for form in ("scalar", "list", "dict"):
            for _ in range((1 if form == "scalar" else 2) * mult):
                for n_outer in (0, 1, 3):
                    for n_inner in (1, 3):
                        cfg = base()
                        n = len(cfg["shape"])
                        S = tuple(range(n)) if form == "scalar" else tuple(sorted(rng.sample(range(n), rng.randint(1, n))))
                        p = rng.choice(RUN_PARAMS[k])
                        cfg.update(n_outer=n_outer, n_inner=n_inner, init=rng.choice(["svd", "random", "svd", "random", "user", "user_w1", "user_feasible"]),
                                   spec=spec_to_json({k: form_spec(k, form, S, n, p)}))
                        if rng.random() < 0.25:
                            cfg["fixed"] = sorted(rng.sample(range(n), rng.randint(1, 2)))
                        if rng.random() < 0.2:
                            cfg["tol_outer"] = rng.choice([0, 1e-1, 10.0])
                        if rng.random() < 0.15:
                            cfg["cvg"] = "rec_error"
                        yield cfg, "single"
    # mixed: several kinds on disjoint modes, all forms, fixed modes, user inits
    for _ in range(160 * mult):
        cfg = base()
        n = len(cfg["shape"])
        modes = list(range(n)); rng.shuffle(modes)
        nk = rng.choice([2, 2, 3])
        ks = rng.sample(HARD, nk) if rng.random() < 0.7 else rng.sample(HARD, nk - 1) + [rng.choice(["l1_reg", "l2_reg", "l2_square_reg", "smoothness"])]
        spec = {}
        for i, k in enumerate(ks):
            S = tuple(sorted(modes[i::nk]))
            if S:
                spec[k] = form_spec(k, rng.choice(["list", "dict"]), S, n, rng.choice(RUN_PARAMS[k]))
                if isinstance(spec[k], dict) and rng.random() < 0.3:
                    spec[k] = {(m - n if rng.random() < 0.6 else m): p for m, p in spec[k].items()}   # negative keys, no aliasing
        cfg.update(n_outer=rng.choice([0, 1, 1, 3]), n_inner=rng.choice([1, 3]),
                   init=rng.choice(["svd", "random", "user", "user_feasible"]), spec=spec_to_json(spec))
        if rng.random() < 0.35:
            cfg["fixed"] = sorted(rng.sample(range(n), rng.randint(1, 2)))
        yield cfg, "mixed"
    # double constraints through the decomposition: must be rejected whatever the rest
    for _ in range(40 * mult):
        cfg = base()
        n = len(cfg["shape"])
        k1, k2 = rng.sample(KINDS, 2)
        m = rng.randrange(n)
        S1 = tuple(sorted(set(rng.sample(range(n), rng.randint(0, n - 1))) | {m}))
        S2 = tuple(sorted(set(rng.sample(range(n), rng.randint(0, n - 1))) | {m}))
        f1, f2 = rng.choice(["scalar", "list", "dict"]), rng.choice(["list", "dict", "scalar"])
        spec = {k1: form_spec(k1, f1, S1, n, RUN_PARAMS[k1][0]), k2: form_spec(k2, f2, S2, n, RUN_PARAMS[k2][0])}
        cfg.update(n_outer=rng.choice([0, 1]), n_inner=1, init=rng.choice(["svd", "random", "user"]), spec=spec_to_json(spec))
        yield cfg, "double"
    # every keyword once in a double constraint with a user initialisation and outer budget 0 (nothing but the first
    # validation of constrained_parafac can reject these) and once with a computed initialisation
    for k1 in KINDS:
        for init, n_outer in (("user", 0), ("svd", 0), ("user_w1", 1)):
            cfg = base()
            n = len(cfg["shape"])
            k2 = rng.choice([k for k in KINDS if k != k1])
            m = rng.randrange(n)
            f1, f2 = rng.choice(["list", "dict"]), rng.choice(["list", "dict"])
            spec = {k1: form_spec(k1, f1, (m,), n, RUN_PARAMS[k1][0]), k2: form_spec(k2, f2, (m,), n, RUN_PARAMS[k2][0])}
            cfg.update(n_outer=n_outer, n_inner=1, init=init, spec=spec_to_json(spec))
            yield cfg, "double"
    # inner budget 0: admm returns its start, nothing is projected or validated inside admm (fix fe4edf7; before it the code raised) as soon as one mode is
    # updated; with outer budget 0 nothing is updated and the initial factors come back
    for _ in range(10 * mult):
        cfg = base()
        n = len(cfg["shape"])
        k = rng.choice(HARD)
        S = tuple(sorted(rng.sample(range(n), rng.randint(1, n))))
        cfg.update(n_outer=rng.choice([0, 1, 1, 3]), n_inner=0, init=rng.choice(["svd", "random", "user"]),
                   spec=spec_to_json({k: form_spec(k, rng.choice(["list", "dict"]), S, n, rng.choice(RUN_PARAMS[k]))}))
        yield cfg, "inner0"
    # corners of the loop that are not validation errors (the model mirrors them): fixed_modes with repeated entries (the last mode
    # stays fixed / no mode is updated), a user CP tensor with too few / too many factors
    for _ in range(3 * mult):
        for variant in ("all_fixed", "last_twice", "last_twice_same_dim", "first_twice", "last_twice_plus", "short_init", "long_init", "short_init_w1"):
            cfg = base()
            n = len(cfg["shape"])
            k = rng.choice(HARD)
            S = tuple(sorted(rng.sample(range(n), rng.randint(1, n))))
            cfg.update(n_outer=rng.choice([0, 1, 1, 3]), n_inner=rng.choice([1, 3]), init=rng.choice(["svd", "random", "user"]), via_class=False,
                       spec=spec_to_json({k: form_spec(k, rng.choice(["list", "dict"]), S, n, rng.choice(RUN_PARAMS[k]))}))
            if variant == "all_fixed":
                cfg["fixed"] = list(range(n)) + [n - 1]
            elif variant == "last_twice":
                cfg["shape"] = [2, 3, 4, 5][:n] if n == 4 else [2, 3, 4]
                cfg["fixed"] = [n - 1, n - 1]
            elif variant == "last_twice_same_dim":
                cfg["shape"][n - 2] = cfg["shape"][n - 1]
                cfg["fixed"] = [n - 1, n - 1]
            elif variant == "first_twice":
                cfg["fixed"] = [0, 0]
            elif variant == "last_twice_plus":
                cfg["fixed"] = [n - 1, 0, n - 1]
            else:
                cfg["init"] = "user_w1" if variant == "short_init_w1" else "user"
                cfg["n_init"] = n + 1 if variant == "long_init" else n - 1
                cfg["shape"] = [max(2, d) for d in cfg["shape"]]
            yield cfg, "corner"
    # user CP tensors WITH weights (general, or ones except one entry): the initialiser multiplies them into the last factor; with outer
    # budget 0 / a fixed ... mode the factors come back as supplied except the last one, which comes back scaled
    for _ in range(8 * mult):
        for init in ("user_w", "user_w_one_off"):
            cfg = base()
            n = len(cfg["shape"])
            k = rng.choice(HARD)
            S = tuple(sorted(rng.sample(range(n), rng.randint(1, n))))
            cfg.update(n_outer=rng.choice([0, 0, 1, 3]), n_inner=rng.choice([1, 3]), init=init, rank=rng.choice([2, 3]),
                       spec=spec_to_json({k: form_spec(k, rng.choice(["scalar", "list", "dict"]), S if rng.random() < 0.8 else tuple(range(n)), n, rng.choice(RUN_PARAMS[k]))}))
            if rng.random() < 0.4:
                cfg["fixed"] = sorted(rng.sample(range(n), rng.randint(1, 2)))
            yield cfg, "user_weights"
    # the outer stopping rule as written (Model/ConstraintsStop.v): documented and unknown criteria x tol_outer falsy / tiny (the constraint
    # error never passes) / huge (it always does) x outer budgets 0..3; an unknown criterion raises TypeError exactly when reached
    for crit in ("abs_rec_error", "rec_error", "bogus", "bogus"):
        for tol in (0, 1e-300, 1e300):
            for n_outer in ((0, 1, 2, 3) if crit == "bogus" else (rng.choice([1, 2, 3]),)):
                for _ in range(mult):
                    cfg = base()
                    n = len(cfg["shape"])
                    # the constraint error must not be exactly 0 (it is when every updated mode's operator acts as the identity, e.g. no
                    # updated mode is constrained): a kind that rescales / shifts a generic iterate, on the last mode (always updated)
                    k = rng.choice(["normalize", "simplex", "soft_sparsity"])
                    S = tuple(sorted(set(rng.sample(range(n), rng.randint(1, n))) | {n - 1}))
                    cfg.update(n_outer=n_outer, n_inner=rng.choice([1, 2]), init=rng.choice(["svd", "random", "user"]), data="signed", tol_outer=tol, cvg=crit,
                               cvg_modelled=True, spec=spec_to_json({k: form_spec(k, rng.choice(["list", "dict"]), S, n, rng.choice(RUN_PARAMS[k]))}))
                    if rng.random() < 0.3:
                        cfg["fixed"] = sorted(rng.sample(range(n - 1), 1))
                    yield cfg, "cvg"
    # simplex / l1 ball with a parameter <= 0 (known finding C11_nonpositive_simplex_parameter_refuted): 0 through a dict (which registers
    # falsy values), negative values in any form
    for k in ("simplex", "soft_sparsity"):
        for (form, p_) in (("dict", 0), ("dict", 0.0), ("scalar", -1.0), ("list", -0.5)):
            for _ in range(mult):
                cfg = base(order=3)
                m = rng.randrange(3)
                cfg.update(init=rng.choice(["svd", "random"]), n_outer=0, n_inner=1, fixed=[], rank=rng.choice([1, 2, 3]),
                           spec=spec_to_json({k: (p_ if form == "scalar" else form_spec(k, form, (m,), 3, p_))}))
                yield cfg, "nonpositive_parameter"
    # 0/0 of max-normalisation / normalised sparsity (known finding, C11_zero_operator_input_refuted): the zero tensor with init='svd'
    # (the singular values scale the first raw factor to zero) and the constraint on mode 0; normalized_sparsity={m: 0} on any data
    for k in ZERO_DIV_KINDS:
        for form in ("scalar", "list", "dict"):
            for n_outer in ((0, 1) if form == "scalar" else (rng.choice([0, 1]),)) * mult:
                cfg = base(order=3)
                S = (0, 1, 2) if form == "scalar" else tuple(sorted({0} | set(rng.sample(range(3), rng.randint(0, 2)))))
                cfg.update(data="zeros", init="svd", n_outer=n_outer, n_inner=1, fixed=[], rank=rng.choice([1, 2]),
                           spec=spec_to_json({k: form_spec(k, form, S, 3, RUN_PARAMS[k][0])}))
                yield cfg, "zero_input"
    for _ in range(2 * mult):
        cfg = base(order=3)
        m = rng.randrange(3)
        cfg.update(init=rng.choice(["svd", "random"]), n_outer=rng.choice([0, 1]), n_inner=1, fixed=[], via_class=False,
                   spec=spec_to_json({"normalized_sparsity": {m: 0}}))
        yield cfg, "zero_input"
    # exact ties in the iterates: data constant along the constrained mode (replicated slices) / one magnitude, structured warm
    # starts (all ones, identical rows, one magnitude) or svd; parameters below the number of tied entries
    for k in HARD:
        for _ in range((6 if k in ("hard_sparsity", "normalized_sparsity") else 2) * mult):
            cfg = base(order=3)
            cfg["shape"] = [rng.randint(3, 5) for _ in range(3)]
            m = rng.randrange(3)
            init = rng.choice(["user_ones", "user_ones", "user_rows", "user_signs", "svd"])
            cfg.update(data=rng.choice(["replicated", "replicated", "replicated_int", "const", "signs"]), rep_mode=m, init=init,
                       n_outer=rng.choice([0, 1] if init == "svd" else [1, 1, 3]), n_inner=rng.choice([1, 3]), via_class=False,
                       spec=spec_to_json({k: form_spec(k, rng.choice(["scalar", "list", "dict"]), (m,), 3, rng.choice(RUN_PARAMS[k]))}))
            yield cfg, "ties"
    # the same through the decomposition: a negative key names a mode another keyword addresses -> rejected
    for _ in range(6 * mult):
        cfg = base()
        n = len(cfg["shape"])
        k1 = rng.choice(HARD)
        k2 = rng.choice([k for k in KINDS if k != k1])
        m = rng.randrange(n)
        spec = {k1: {m: RUN_PARAMS[k1][0]}, k2: {m - n: RUN_PARAMS[k2][0]}}
        cfg.update(n_outer=rng.choice([0, 1]), n_inner=1, init=rng.choice(["svd", "random"]), spec=spec_to_json(spec), via_class=False)
        yield cfg, "alias"


def gen_small_cfgs(tier, rng):
    """configurations for admm on its own and for the dispatch of proximal_operator: (cfg, stream)"""
    mult = 1 if tier == "quick" else 6

    def one_spec(n, m):
        """a request that is valid for n modes and constrains mode m with kind k (other modes: maybe other kinds)"""
        k = rng.choice(KINDS)
        p = rng.choice(RUN_PARAMS[k])
        form = rng.choice(["scalar", "list", "dict", "dict"])
        S = tuple(range(n)) if form == "scalar" else tuple(sorted(set(rng.sample(range(n), rng.randint(0, n - 1))) | {m}))
        spec = {k: form_spec(k, form, S, n, p)}
        if isinstance(spec[k], dict) and rng.random() < 0.25:
            spec[k] = {(q - n if rng.random() < 0.5 else q): v for q, v in spec[k].items()}
        rest = [q for q in range(n) if q not in S]
        if rest and rng.random() < 0.7:
            k2 = rng.choice([x for x in KINDS if x != k])
            S2 = tuple(sorted(rng.sample(rest, rng.randint(1, len(rest)))))
            spec[k2] = form_spec(k2, rng.choice(["list", "dict"]), S2, n, rng.choice(RUN_PARAMS[k2]))
        return spec

    for _ in range(140 * mult):
        n = rng.choice([1, 3, 3, 4])
        order = rng.randrange(n)
        target = order if rng.random() < 0.7 else rng.randrange(n)      # the constrained mode is not always the one asked for
        spec = one_spec(n, target)
        if rng.random() < 0.1:                                           # a double constraint: must be rejected here too
            k2 = rng.choice([x for x in KINDS if x not in spec])
            spec[k2] = form_spec(k2, rng.choice(["scalar", "dict"]), (target,), n, RUN_PARAMS[k2][0])
        yield dict(kind="admm", n=n, order=order, rank=rng.choice([1, 2, 3]), rows=rng.randint(3, 6), n_iter=rng.choice([1, 1, 2, 4]),
                   seed=rng.randrange(1 << 30), scale=rng.choice([1.0, 1.0, 1e-2, 50.0]), zero_dual=rng.random() < 0.6,
                   tol=rng.choice([1e-6, 1e-6, 0.5, 0]), spec=spec_to_json(spec)), "admm"
    for _ in range(260 * mult):
        n = rng.choice([1, 3, 3, 4])
        order = rng.randrange(n)
        target = order if rng.random() < 0.75 else rng.randrange(n)
        spec = one_spec(n, target)
        if rng.random() < 0.08:
            k2 = rng.choice([x for x in KINDS if x not in spec])
            spec[k2] = form_spec(k2, rng.choice(["scalar", "dict"]), (target,), n, RUN_PARAMS[k2][0])
        yield dict(kind="prox", n=n, order=order, rank=rng.choice([1, 2, 3]), rows=rng.randint(4, 7), seed=rng.randrange(1 << 30),
                   scale=rng.choice([1.0, 1.0, 1e-2, 30.0]), spec=spec_to_json(spec)), "prox"
    # every keyword once per form, on the mode asked for (systematic part of the dispatch stream)
    for k in KINDS:
        for form in ("scalar", "list", "dict"):
            for p in RUN_PARAMS[k][:2]:
                n = rng.choice([3, 4])
                order = rng.randrange(n)
                yield dict(kind="prox", n=n, order=order, rank=rng.choice([2, 3]), rows=rng.randint(5, 7), seed=rng.randrange(1 << 30),
                           spec=spec_to_json({k: form_spec(k, form, tuple(range(n)) if form == "scalar" else (order,), n, p)})), "prox"
    # inner budget 0: admm returns its start (x, transpose(x), dual) without calling proximal_operator (fix fe4edf7)
    for _ in range(8 * mult):
        n = rng.choice([1, 3])
        order = rng.randrange(n)
        yield dict(kind="admm", n=n, order=order, rank=rng.choice([1, 2]), rows=rng.randint(3, 5), n_iter=0, seed=rng.randrange(1 << 30),
                   zero_dual=True, tol=1e-6, spec=spec_to_json(one_spec(n, order))), "admm_inner0"
    # n_const=None: the constraint machinery is switched off (valid, double and out-of-range requests alike), inner budgets 0/1/3
    for _ in range(6 * mult):
        n = rng.choice([3, 4])
        order = rng.randrange(n)
        spec = one_spec(n, order)
        if rng.random() < 0.4:
            k2 = rng.choice([x for x in KINDS if x not in spec])
            spec[k2] = form_spec(k2, rng.choice(["scalar", "dict"]), (order,), n, RUN_PARAMS[k2][0])     # a double constraint: not rejected here
        yield dict(kind="admm", n=n, order=order, rank=rng.choice([1, 2]), rows=rng.randint(3, 5), n_iter=rng.choice([0, 1, 3]), seed=rng.randrange(1 << 30),
                   zero_dual=rng.random() < 0.5, tol=1e-6, n_const_none=True, spec=spec_to_json(spec)), "admm_n_const_none"
        yield dict(kind="prox", n=n, order=order, rank=rng.choice([1, 2, 3]), rows=rng.randint(3, 6), seed=rng.randrange(1 << 30), n_const_none=True,
                   spec=spec_to_json(spec)), "prox_n_const_none"
    # `order` left at None: admm works on mode 0 (fix a5b9e5b; Model/ConstraintsNc.v admm_py), with the keyword omitted or passed as None; valid
    # requests that constrain mode 0 or another mode, double constraints, inner budgets 0/1/3; proximal_operator(order=None) raises unless n_const is None
    for _ in range(14 * mult):
        n = rng.choice([1, 3, 3, 4])
        target = 0 if rng.random() < 0.6 else rng.randrange(n)
        spec = one_spec(n, target)
        if rng.random() < 0.15:
            k2 = rng.choice([x for x in KINDS if x not in spec])
            spec[k2] = form_spec(k2, rng.choice(["scalar", "dict"]), (target,), n, RUN_PARAMS[k2][0])
        yield dict(kind="admm", n=n, order=None, order_omitted=rng.random() < 0.5, rank=rng.choice([1, 2, 3]), rows=rng.randint(3, 6),
                   n_iter=rng.choice([0, 1, 1, 3]), seed=rng.randrange(1 << 30), zero_dual=rng.random() < 0.6, tol=1e-6, spec=spec_to_json(spec)), "admm_order_none"
    for _ in range(4 * mult):
        n = rng.choice([1, 3])
        nc_none = rng.random() < 0.5
        yield dict(kind="prox", n=n, order=None, rank=2, rows=rng.randint(3, 5), seed=rng.randrange(1 << 30), n_const_none=nc_none,
                   spec=spec_to_json(one_spec(n, 0))), "prox_order_none"
    # the zero matrix through the dispatch: 0/0 for the two normalising kinds (known finding), feasible output for the others
    for k in HARD:
        n = rng.choice([1, 3])
        order = rng.randrange(n)
        yield dict(kind="prox", n=n, order=order, rank=2, rows=3, seed=rng.randrange(1 << 30), input="zeros",
                   spec=spec_to_json({k: form_spec(k, rng.choice(["scalar", "dict"]), tuple(range(n)), n, RUN_PARAMS[k][0])})), "prox_zero"
    # exact ties straddling a cutoff / a threshold: every hard kind on structured (tied) inputs, through the dispatch and through admm
    inputs = ["ties", "one_magnitude", "rows", "const", "int", "zeros_and_ties"]
    for k in HARD:
        for how in inputs:
            for p in RUN_PARAMS[k]:
                for _ in range(mult):
                    n = rng.choice([1, 3])
                    order = rng.randrange(n)
                    yield dict(kind="prox", n=n, order=order, rank=rng.choice([1, 2, 3]), rows=rng.randint(3, 6), seed=rng.randrange(1 << 30),
                               input=how, scale=rng.choice([1.0, 1.0, 0.25]),
                               spec=spec_to_json({k: form_spec(k, rng.choice(["scalar", "list", "dict"]), tuple(range(n)), n, p)})), "prox_ties"
            for _ in range(mult):
                n = rng.choice([1, 3])
                order = rng.randrange(n)
                yield dict(kind="admm", n=n, order=order, rank=rng.choice([1, 2, 3]), rows=rng.randint(3, 6), n_iter=rng.choice([1, 2, 3]),
                           seed=rng.randrange(1 << 30), input=how, zero_dual=True, tol=1e-6,
                           spec=spec_to_json({k: form_spec(k, rng.choice(["list", "dict"]), (order,), n, rng.choice(RUN_PARAMS[k]))})), "admm_ties"


def load_corpus():
    tabs, runs = [], []
    for fn in sorted(glob.glob(os.path.join(C.VERIF, "corpus", "C11", "*.json"))):
        d = json.load(open(fn))
        if d.get("type") == "table":
            tabs.append((d["n"], spec_from_json(d["spec"]), "corpus"))
        elif d.get("type") == "run":
            runs.append((d["cfg"], "corpus"))
    return tabs, runs


# ----------------------------------------------------------------------------- the check
def run(chk):
    rng = random.Random(chk.seed)
    del FEAS_OK[:]
    del OP_CALLS[:]
    chk.build_proofs()
    C.reset_backends()
    tier = chk.tier
    cases, meta = [], []
    ctabs, cruns = load_corpus()

    # (a) decision logic
    n_tab = n_timeout = 0
    for (n, spec, tag) in itertools.chain(ctabs, gen_table_cases(tier, rng)):
        st, tab = impl_table(n, spec)
        if st == "timeout":
            n_timeout += 1
            continue
        lit = table_lit(st, tab)
        cid = len(cases)
        if lit is not None:
            cases.append(f"CTable {idlit(cid)} {n}%nat {specs_lit(spec)} {lit}")
            meta.append(("table", n, spec))
        bad = table_predicate(n, spec, st, tab)
        n_tab += 1
        forms = tuple(sorted((k, type(s).__name__) for k, s in spec.items()))
        chk.count(key=("table", n, json.dumps(spec_to_json(spec), sort_keys=True)), nontrivial=any(bool(s) for s in spec.values()))
        chk.hist("table_outcome", "accepted" if st == "ok" else "rejected")
        chk.hist("table_stream", tag)
        if n_tab % 1499 == 1:
            chk.sample({"stream": "table", "n": n, "spec": spec_to_json(spec), "outcome": st, "table": str(tab)[:200]})
        if bad:
            chk.finding("tensorly.tenalg.proximal.validate_constraints", {"n": n, "spec": spec_to_json(spec)}, bad[1], bad[0])

    # (b) real runs: feasibility of the returned factors + provenance traces
    rec = Recorder()
    if not rec.observable:
        chk.notes.append("proximal_operator is not reachable by module attribute in admm / _constrained_cp: provenance traces not observable, stream skipped")
    n_runs = n_feas = n_deg = n_trace = 0
    for (cfg, tag) in itertools.chain(cruns, gen_run_cfgs(tier, rng)):
        res = run_cfg(cfg, rec if rec.observable else None)
        fails, nchk = run_predicates(cfg, res)
        n_runs += 1
        n_feas += nchk
        spec = spec_from_json(cfg["spec"])
        kinds = tuple(sorted(spec))
        degenerate = res["status"] not in ("ok",) and expected_table(len(cfg["shape"]), spec) is not None
        n_deg += bool(degenerate)
        chk.count(key=("run", kinds, tuple(type(s).__name__ for s in spec.values()), len(cfg["shape"]), cfg["rank"], cfg["n_outer"],
                       cfg["n_inner"], cfg["init"], cfg["data"], bool(cfg["fixed"])), nontrivial=nchk > 0 or tag == "double")
        chk.hist("run_stream", tag); chk.hist("run_outcome", res["status"]); chk.hist("budget", f"{cfg['n_outer']}/{cfg['n_inner']}")
        chk.hist("init", cfg["init"]); chk.hist("rank", cfg["rank"]); chk.hist("order", len(cfg["shape"]))
        for k in kinds:
            chk.hist("kind", k)
        if n_runs % 211 == 1:
            chk.sample({"stream": "run", "cfg": cfg, "outcome": res["status"], "checked_factor_modes": [list(map(str, t)) for t in checked_modes(cfg)]})
        ep = "tensorly.decomposition.ConstrainedCP" if cfg.get("via_class") else "tensorly.decomposition.constrained_parafac"
        for (pred, msg) in fails:
            chk.finding(ep, cfg, msg, pred)
        if rec.observable:
            lit = prov_lit(cfg, res)
            if lit is not None:
                cid = len(cases)
                n = len(cfg["shape"])
                user = cfg["init"] not in ("svd", "random")
                w_ = res.get("weights")
                wone = w_ is None or bool(np.all(np.asarray(w_) == 1))
                if cfg.get("cvg_modelled"):
                    tol_, crit_, cerr_ = stop_lits(cfg)
                    cases.append(f"CTraceC {idlit(cid)} {n}%nat {specs_lit(spec)} {C.boolc(user)} {n_init_of(cfg) if user else n}%nat {C.boolc(wone)} {C.boolc(err_ok(cfg))} "
                                 f"{C.nat_list(cfg['fixed'])} {cfg['n_outer']}%nat {cfg['n_inner']}%nat {C.boolc(tol_)} {crit_} {C.boolc(cerr_)} {lit}")
                else:
                    cases.append(f"CTrace {idlit(cid)} {n}%nat {specs_lit(spec)} {C.boolc(user)} {n_init_of(cfg) if user else n}%nat {C.boolc(wone)} {C.boolc(err_ok(cfg))} {C.nat_list(cfg['fixed'])} "
                                 f"{cfg['n_outer']}%nat {cfg['n_inner']}%nat {lit}")
                meta.append(("trace", cfg, lit))
                n_trace += 1

    # (c) admm on its own, (d) dispatch of proximal_operator
    n_admm = n_prox = 0
    for (cfg, tag) in gen_small_cfgs(tier, rng):
        spec = spec_from_json(cfg["spec"])
        if cfg["kind"] == "admm":
            if not rec.observable:
                continue
            lit, fails, judged = run_admm(cfg, rec)
            ep = "tensorly.solvers.admm.admm"
            n_admm += 1
            n_feas += bool(judged)
        else:
            lit, fails = run_prox(cfg)
            judged = True
            ep = "tensorly.tenalg.proximal.proximal_operator"
            n_prox += 1
        chk.count(key=(cfg["kind"], tuple(sorted(spec)), tuple(type(x).__name__ for x in spec.values()), cfg["n"], cfg["order"], cfg["rank"],
                       cfg.get("n_iter")), nontrivial=lit is not None)
        chk.hist("small_stream", tag)
        for (pred, msg) in fails:
            chk.finding(ep, cfg, msg, pred)
        if lit is not None:
            cid = len(cases)
            if cfg["kind"] == "admm" and cfg["order"] is None:
                cases.append(f"CAdmmNone {idlit(cid)} {cfg['n']}%nat {specs_lit(spec)} {cfg['n_iter']}%nat {lit}")
            elif cfg["order"] is None:
                cases.append(f"CProxNone {idlit(cid)} {'None' if cfg.get('n_const_none') else '(Some ' + str(cfg['n']) + '%nat)'} {specs_lit(spec)} {lit}")
            elif cfg["kind"] == "admm" and cfg.get("n_const_none"):
                cases.append(f"CAdmmNc {idlit(cid)} {specs_lit(spec)} {cfg['order']}%nat {cfg['n_iter']}%nat {lit}")
            elif cfg["kind"] == "admm":
                cases.append(f"CAdmm {idlit(cid)} {cfg['n']}%nat {specs_lit(spec)} {cfg['order']}%nat {cfg['n_iter']}%nat {lit}")
            elif cfg.get("n_const_none"):
                cases.append(f"CProxNc {idlit(cid)} {specs_lit(spec)} {cfg['order']}%nat {lit}")
            else:
                cases.append(f"CProx {idlit(cid)} {cfg['n']}%nat {specs_lit(spec)} {cfg['order']}%nat {lit}")
            meta.append((cfg["kind"], cfg, lit))

    # the stopping rule on numbers: the model's loop with stop_env_num at exact rationals on the recorded sequences vs the number of sweeps
    n_stop = 0
    for cfg in gen_stop_cfgs(tier, rng):
        body, fails = run_stop_num(cfg)
        chk.count(key=("stopnum", cfg["n_outer"], cfg["tol_outer"], cfg["cvg"], tuple(cfg["spec"])), nontrivial=body is not None)
        chk.hist("stop_num", "skipped" if body is None else "compared")
        for (pred, msg) in fails:
            chk.finding("tensorly.decomposition.constrained_parafac", cfg, msg, pred)
        if body is not None:
            cases.append(f"CStopNum {idlit(len(cases))} {body}")
            meta.append(("stopnum", cfg, body[-40:]))
            n_stop += 1
    chk.cov["stopping_rule_runs_compared"] = n_stop

    # (e) every array the Python feasibility predicate accepted is decided again inside Coq on its exact rational value
    n_feas_coq = 0
    feas_sel = FEAS_OK if (tier != "quick" or len(FEAS_OK) <= 700) else FEAS_OK[::(len(FEAS_OK) + 699) // 700]
    for (k, p_, F) in feas_sel:
        try:
            lit = (f"CFeas {idlit(len(cases))} {KCOQ[KINDS.index(k)]} {pv(p_)} [" +
                   "; ".join("[" + "; ".join(C.q(float(x)) for x in row) + "]" for row in F) + "]")
        except (TypeError, ValueError, OverflowError):
            continue
        cases.append(lit)
        meta.append(("feas", k, p_, F))
        n_feas_coq += 1
    chk.cov["feasibility_decided_in_coq"] = n_feas_coq

    # (f) operator calls recorded inside the runs above (initialiser, ADMM iterations, admm on its own): the operator family of the
    # end-to-end theorems (Model/ConstraintsOps.v at Qops) on the recorded input vs the recorded output; own small shards (these
    # cases are the expensive ones)
    call_cases, call_meta = [], []
    for (k, p_, a, o) in select_calls(tier):
        lit = call_case(len(call_cases), k, p_, a, o)
        if lit is None:
            chk.hist("op_call", "outside_domain")
            continue
        call_cases.append(lit)
        call_meta.append((k, p_, a, o))
        chk.hist("op_call", k)
    chk.cov["operator_calls_recorded"] = len(OP_CALLS)
    chk.cov["operator_calls_compared_in_coq"] = len(call_cases)

    failing, n_eval, broken = C.run_case_shards("C11", HEADER, "case", cases, shard=400)
    if call_cases:
        cfail, cn, cbroken = C.run_case_shards("C11", HEADER, "case", call_cases, shard=60, tag="calls")
        n_eval += cn
        for b in cbroken:
            chk.broken.append({"what": "correspondence corr:C11 (operator calls) shard not evaluated", "detail": b})
        for i in sorted(cfail):
            k_, p_, a_, o_ = call_meta[i]
            chk.disagreement("corr:C11 operator call (Model/ConstraintsOps.v op_gen at Qops - the operator family of the end-to-end theorems - vs the "
                             "output of the proximal_operator call recorded inside a run)",
                             {"kind": k_, "parameter": p_, "input": a_, "observed": o_})
    # (g) static tie: model pieces regenerated from the current source (ast), decided in Coq
    try:
        scases, snames = static_cases()
    except (StaticError, OSError, SyntaxError) as e:
        scases, snames = [], []
        chk.broken.append({"what": "corr:C11-static: a construct of validate_constraints / proximal_operator / admm / _constrained_cp.py is outside the ast translator "
                                   "(the static tie between source and model is broken, fail closed)", "detail": f"{type(e).__name__}: {e}"[:500]})
    if scases:
        sfail, sn, sbroken = C.run_case_shards("C11", HEADER_STATIC, "scase", scases, shard=60, tag="static")
        chk.cov["static_pieces_regenerated_from_source"] = sn
        chk.count(key=("static",), nontrivial=True, n=sn)
        for b in sbroken:
            chk.broken.append({"what": "correspondence corr:C11-static shard not evaluated", "detail": b})
        for i in sorted(sfail):
            chk.disagreement("corr:C11-static (a piece of the model regenerated from the current Python source - keyword order, dispatch table of "
                             "proximal_operator, keyword / order / n_const forwarding between the call sites - is not the one the theorems are stated for: "
                             "Corr.C11.static_agree)", {"piece": snames[i], "extracted": scases[i][:600]})
        chk.sample({"stream": "static", "piece": snames[1], "extracted": scases[1][:400]})
    chk.checker_cmds.append("coqc (vm_compute) on generated build/cases/C11/*.v: Corr.C11.failing, Corr.C11.failing_static")
    chk.cov["traces_validated_against_impl"] = n_trace
    chk.cov["table_cases"] = n_tab
    chk.cov["runs"] = n_runs
    chk.cov["feasibility_evaluations"] = n_feas
    chk.cov["degenerate_runs_skipped"] = n_deg
    chk.cov["admm_cases"] = n_admm
    chk.cov["dispatch_cases"] = n_prox
    chk.cov["timeouts_skipped"] = n_timeout
    chk.cov["exhaustive"] = False
    chk.cov["rule"] = (
        "table stream: orders 3-4 x 12 keywords x {scalar (truthy/falsy), empty list/dict, list and dict over EVERY subset of modes, "
        "short/long lists, falsy entries, out-of-range keys}; all 66 keyword pairs x 9 form pairs x sampled (thorough, order 3: all 64) pairs of mode subsets; "
        "random triples; negative dict keys (alone, disjoint, below -n, twice in one dict, aliasing another keyword's mode); "
        "each compared exactly with Model/Constraints.v and judged by the Python transcription of the theorems. "
        "admm stream: tensorly.solvers.admm.admm on random well-conditioned normal equations with n_const 1/3/4, every order, inner budgets 1/2/4, "
        "provenance of the returned primal variable vs the model + feasibility, also with `order` omitted / None (mode 0: Model/ConstraintsNc.v admm_py); "
        "stopping-rule stream: constrained_parafac(return_errors=True) with admm interposed, five hard kinds + unimodality x tol_outer {0, 1e-300 .. 1.0, -1e-3, 1e300} x "
        "{default, abs_rec_error, rec_error, unknown} x outer budgets 0-9, incl. runs whose error increases by more than the tolerance; the model's loop with the "
        "comparisons computed at exact rationals on the recorded sequences must execute the observed number of sweeps; dispatch stream: proximal_operator on signed matrices, the operator "
        "identified by value against the directly called operator functions vs the model's dispatch. "
        "run stream: 8 hard kinds x {scalar, list, dict} x outer budgets {0,1,3} x inner budgets {1,3} over signed/integer/negative/positive/scaled data of order 3-4, "
        "ranks 1-3, svd/random/user/user(unit weights)/feasible-user inits, fixed modes, function and class entry points, mixed specifications and double constraints; "
        "feasibility is evaluated on the RETURNED factors only; a run is non-trivial if at least one constrained returned factor was judged; "
        "runs that raise LinAlgError (singular Gram matrix) or return non-finite factors are counted as degenerate and skipped")
    for b in broken:
        chk.broken.append({"what": "correspondence corr:C11 shard not evaluated", "detail": b})
    for i in sorted(failing):
        m = meta[i]
        if m[0] == "table":
            chk.disagreement("corr:C11 table (Model/Constraints.v zvalidate_table vs tensorly.tenalg.proximal.validate_constraints)",
                             {"n": m[1], "spec": spec_to_json(m[2])})
        elif m[0] == "feas":
            chk.disagreement("corr:C11 feasibility (Corr.C11.feasb on the exact rational value vs the Python predicate, which accepted the array)",
                             {"kind": m[1], "parameter": m[2], "array": m[3]})
        elif m[0] == "stopnum":
            chk.disagreement("corr:C11 stopping rule (Model/ConstraintsStop.v stop_env_num at exact rationals on the recorded constraint / reconstruction "
                             "errors vs the number of sweeps constrained_parafac executed)", {"cfg": m[1], "observed": m[2]})
        elif m[0] == "admm":
            chk.disagreement("corr:C11 admm (Model/Constraints.v admm skeleton vs provenance of the primal variable returned by tensorly.solvers.admm.admm)",
                             {"cfg": m[1], "observed_provenance": m[2]})
        elif m[0] == "prox":
            chk.disagreement("corr:C11 dispatch (Model/Constraints.v proximal_operator vs the operator whose output tensorly.tenalg.proximal.proximal_operator returned)",
                             {"cfg": m[1], "observed_operator": m[2]})
        else:
            chk.disagreement("corr:C11 trace (Model/Constraints.v constrained_cp skeleton vs provenance of the factors returned by constrained_parafac)",
                             {"cfg": m[1], "observed_provenance": m[2]})
    chk.assumptions = [
        "dict keys are Python ints (negative keys wrap around, as list indexing does) and parameters are bool/int/float (the value space of the model)",
        "feasibility of an operator's output (range subset of the constraint set) is the subject of C12; here it is evaluated on every returned factor, not proved",
        "hard_sparsity / normalized_sparsity / normalize act on the whole factor matrix in the code (k non-zeros, unit Frobenius norm, max |entry| = 1 per factor); "
        "the predicates judge the column-wise count <= k (implied by the whole-matrix count) and accept either reading of the norm (whole factor, or every non-zero column)",
        "a user-supplied initial CP tensor is not passed through the operators (documented); its factors are judged only where the run updates them, "
        "or when the supplied factors were feasible",
        "inner budget 0: admm returns its start without validating or projecting (fix fe4edf7), in the code and in the model; compared through the trace / admm correspondence "
        "(a run that raises there is not judged by the predicates)"]
    chk.trusted += ["module-attribute interposition of proximal_operator (records order, validated constraint, output) for the provenance traces",
                    "module-attribute interposition of admm in tensorly.decomposition._constrained_cp (records the returned x, x_split per mode) for the stopping-rule stream; "
                    "the values of the constraint / reconstruction errors are recorded, not modelled",
                    "numerical content of the ADMM step, MTTKRP, SVD and of the operators is abstract in the model (arbitrary functions)"]
    return finish_with_local_known(chk, CLASSIFIERS)


# ----------------------------------------------------------------------------- known findings
def _finding_request(f):
    inp = f.get("inputs") or {}
    if "cfg" in inp:
        inp = inp["cfg"]
    try:
        spec = spec_from_json(inp["spec"])
        n = len(inp["shape"]) if "shape" in inp else int(inp["n"])
    except Exception:
        return None
    return n, spec


def clf_alias(f):
    """the request is accepted although a NEGATIVE dict key names a mode that another keyword addresses"""
    if f.get("predicate") not in ("C11_reject_iff_double", "C11_decomposition_rejects_double"):
        return False
    if "valid request rejected" in str(f.get("message")):      # a valid request that was rejected is not this class
        return False
    r = _finding_request(f)
    return bool(r) and alias_by_negative_key(*r)


def clf_zero_div(f):
    """the non-finite output comes from a max-normalisation / normalised sparsity whose (finite) input has a zero kept part: re-runs the
    failing input and looks at the first non-finite operator output"""
    if f.get("predicate") not in ("C11_feasible_normalize", "C11_feasible_normalized_sparsity"):
        return False
    inp = f.get("inputs") or {}
    if "cfg" in inp:
        inp = inp["cfg"]
    try:
        if inp.get("kind") == "prox":
            rs = np.random.RandomState(inp["seed"])
            T = structured_matrix(rs, inp["rows"], inp["rank"], inp.get("input", "generic"), inp.get("scale", 1.0))
            spec = spec_from_json(inp["spec"])
            e = (expected_table(inp["n"], spec) or [None] * inp["n"])[inp["order"]]
            return e is not None and e[0] in ZERO_DIV_KINDS and zero_kept_part(e[0], e[1], T)
        if "shape" in inp:
            res = run_cfg(inp, Recorder())
            return nan_origin(res.get("calls")) is not None
    except Exception:  # noqa
        return False
    return False


def clf_nonpositive(f):
    """the infeasible factor belongs to a simplex / soft_sparsity request whose parameter is <= 0"""
    pred = f.get("predicate") or ""
    if pred not in ("C11_feasible_simplex", "C11_feasible_soft_sparsity"):
        return False
    kind = pred[len("C11_feasible_"):]
    r = _finding_request(f)
    if not r:
        return False
    n, spec = r
    sk = spec.get(kind)
    ps = list(sk.values()) if isinstance(sk, dict) else [e for e in sk if e is not None] if isinstance(sk, list) else [sk]
    try:
        return bool(ps) and all(float(q) <= 0 for q in ps if q is not None)
    except (TypeError, ValueError):
        return False


CLASSIFIERS = {"negative_dict_key_names_a_mode_another_keyword_addresses": clf_alias,
               "nonpositive_simplex_parameter": clf_nonpositive,
               "zero_operator_input_divides_0_by_0": clf_zero_div}


def finish_with_local_known(chk, classifiers):
    """common.Check.finish classifies against /verif/known_findings.json, which the coordinator regenerates from
    known_findings.d/*.json.  Until an entry of known_findings.d/C11.json has been merged there, it is applied here with the
    same rule (entry point + classifier) and the same output line."""
    try:
        local = json.load(open(os.path.join(C.VERIF, "known_findings.d", "C11.json"))).get("findings", [])
    except Exception:
        local = []
    merged = {k.get("id") for k in C.load_known("C11")}
    missing = [k for k in local if k.get("id") not in merged]
    if missing:
        keep, hits = [], {}
        for f in chk.findings:
            kid = None
            for k in missing:
                clf = classifiers.get(k.get("classifier"))
                if k.get("entry_point") == f["entry_point"] and clf is not None and clf(f):
                    kid = k["id"]; break
            if kid:
                hits.setdefault(kid, f)
            else:
                keep.append(f)
        chk.findings = keep
        for kid, f in hits.items():
            k = [k for k in missing if k["id"] == kid][0]
            print(f"KNOWN-FINDING: property=C11 {k['what']} [{kid}] e.g. {json.dumps(C.jsonable(f['inputs']))[:200]}")
        chk.cov["known_findings_hit_local"] = sorted(hits)
        if hits:
            chk.notes.append("known findings of known_findings.d/C11.json not yet merged into known_findings.json were classified by harness/props/C11.py: " + ", ".join(sorted(hits)))
    return chk.finish(classifiers)


def replay(payload):
    if payload.get("kind") != "failing-input":
        print("replay file names a broken theorem/correspondence, not an input:", payload.get("theorem_or_correspondence"))
        return 1
    C.reset_backends()
    inp = payload["inputs"]
    if "cfg" in inp:
        inp = inp["cfg"]
    if inp.get("kind") == "stopnum":
        _, fails = run_stop_num(inp)
        print("replay stopping rule:", json.dumps(inp)[:300], "->", fails or "holds")
        return 1 if fails else 0
    if inp.get("kind") == "admm":
        rec = Recorder()
        _, fails, _ = run_admm(inp, rec)
        print("replay admm:", json.dumps(inp)[:300], "->", fails or "holds")
        return 1 if fails else 0
    if inp.get("kind") == "prox":
        _, fails = run_prox(inp)
        print("replay proximal_operator:", json.dumps(inp)[:300], "->", fails or "holds")
        return 1 if fails else 0
    if "shape" in inp:
        res = run_cfg(inp, None)
        fails, _ = run_predicates(inp, res)
        print("replay:", json.dumps(inp)[:300], "->", fails or "holds")
        return 1 if fails else 0
    n, spec = inp["n"], spec_from_json(inp["spec"])
    st, tab = impl_table(n, spec)
    bad = table_predicate(n, spec, st, tab)
    print("replay: validate_constraints", n, spec, "->", bad or "holds")
    return 1 if bad else 0
