"""C12 -- proximal operators return the exact minimiser of their prox problem.
Correspondence: Model/Prox.v at Qops (exact rationals, inside Coq) vs tensorly/tenalg/proximal.py, exact (atol=rtol=0) for the
selection / clipping operators and for dyadic inputs of soft-thresholding, toleranced otherwise; Coq additionally decides the exact
certificates (simplex feasibility, isotonic KKT, tridiagonal system, hard-threshold validity) on the model's output.
Predicates (independent of the Coq model): feasibility, objective not worse than reference solvers (PAVA, bisection simplex,
sorted top-k, closed forms) and random feasible competitors, idempotence of projections, firm non-expansiveness of convex operators."""
import json, math, os, random
from fractions import Fraction
import numpy as np
from harness import common as C

HEADER = """From Coq Require Import List ZArith QArith Bool. Import ListNotations.
From Coq Require Import Uint63.
From TLV Require Import Base.Ops Base.Tensor Model.Prox Model.Constraints Model.ProxDispatch Corr.C12.
Notation "'D' m e" := (dy false m%uint63 e%uint63) (at level 0, m at level 0, e at level 0, only parsing).
Notation "'N' m e" := (dy true m%uint63 e%uint63) (at level 0, m at level 0, e at level 0, only parsing).
Local Open Scope nat_scope.
Open Scope Z_scope."""
EP = "tensorly.tenalg.proximal."

COLWISE = {"smoothness", "simplex", "soft_sparsity", "monotone_inc", "monotone_dec", "unimodality"}
CONVEX = {"non_negative", "soft", "l2_square", "l2", "smoothness", "simplex", "monotone_inc", "monotone_dec", "svt"}
# projections whose second application is also put under the correspondence (two-step call sequence: the implementation's own output is fed back,
# through the same route / keyword arguments, and compared with the model on that input; cf. C12_proximal_operator_idempotent)
SECOND = {"non_negative", "simplex", "monotone_inc", "monotone_dec", "hard", "normalized_sparsity", "normalize", "soft_sparsity"}
PROJECTION = {"non_negative", "simplex", "monotone_inc", "monotone_dec", "hard", "soft_sparsity", "unimodality", "normalized_sparsity", "normalize", "procrustes"}


# ----------------------------------------------------------------------------- calling the implementation
KW = {"non_negative": "non_negative", "soft": "l1_reg", "l2": "l2_reg", "l2_square": "l2_square_reg", "unimodality": "unimodality",
      "normalize": "normalize", "simplex": "simplex", "normalized_sparsity": "normalized_sparsity", "soft_sparsity": "soft_sparsity",
      "smoothness": "smoothness", "monotone_inc": "monotonicity", "hard": "hard_sparsity"}


def spec_kwargs(route):
    """route = {"specs": [[operator, style, mode, parameter, [[other mode, its parameter], ...]], ...], "n_const": N, "order": o}: the keyword
    arguments of proximal_operator; style 'scalar' (all modes), 'dict' ({mode: parameter, ...}) or 'list' (parameter at position mode, None where
    the operator is not registered)"""
    kw = {}
    for spec in route["specs"]:
        nm, style, mode, par = spec[:4]
        entries = {int(mode): True if par is None else par}
        for m, p in (spec[4] if len(spec) > 4 else []):
            entries[int(m)] = True if p is None else p
        if style == "dict":
            # optional 6th field: write the dictionary keys as negative mode numbers (mode - n_const), which the code maps back
            neg = len(spec) > 5 and spec[5] and route["n_const"]
            kw[KW[nm]] = {(m - route["n_const"] if neg else m): v for m, v in entries.items()}
        elif style == "list":
            kw[KW[nm]] = [entries.get(i) for i in range(route["n_const"])]
        else:
            kw[KW[nm]] = entries[int(mode)]
    kw["n_const"] = route["n_const"]; kw["order"] = route["order"]
    return kw


def impl_call(name, a, par, route):
    """route 'direct' -> the operator function, 'dispatch' -> proximal_operator(tensor, <constraint>=par),
    a dict -> proximal_operator with dict / list valued constraints, n_const and order (see spec_kwargs)"""
    from tensorly.tenalg import proximal as P
    a = np.array(a, copy=True)
    if isinstance(route, dict):
        return P.proximal_operator(a, **spec_kwargs(route))
    if route == "dispatch":
        return P.proximal_operator(a, **{KW[name]: True if par is None else par})
    if name == "soft" or name == "soft_arr":
        return P.soft_thresholding(a, par)
    if name == "l2":
        return P.l2_prox(a, par)
    if name == "l2_square":
        return P.l2_square_prox(a, par)
    if name == "smoothness":
        return P.smoothness_prox(a, par)
    if name == "simplex":
        return P.simplex_prox(a, par)
    if name == "soft_sparsity":
        return P.soft_sparsity_prox(a, par)
    if name == "monotone_inc":
        return P.monotonicity_prox(a)
    if name == "monotone_dec":
        return P.monotonicity_prox(a, decreasing=True)
    if name == "unimodality":
        return P.unimodality_prox(a)
    if name == "hard":
        return P.hard_thresholding(a, par)
    if name == "normalized_sparsity":
        return P.normalized_sparsity_prox(a, par)
    if name == "svt":
        return P.svd_thresholding(a, par)
    if name == "procrustes":
        return P.procrustes(a)
    raise KeyError(name)


def svd_tape(a):
    """the answer of the SVD oracle exactly as svd_thresholding / procrustes request it"""
    import tensorly as tl
    U, s, V = tl.truncated_svd(np.array(a, copy=True), n_eigenvecs=min(a.shape))
    return np.asarray(U, float), np.asarray(s, float), np.asarray(V, float)


def can_dispatch(name, par):
    """proximal_operator reaches the operator: flag constraints (parameter None -> True) and truthy scalar parameters
    (a falsy parameter 0 / 0.0 means "no constraint"); array thresholds, decreasing=True and the SVD operators are direct only"""
    if name in ("soft_arr", "monotone_dec", "svt", "procrustes", "identity", "reject") or isinstance(par, np.ndarray):
        return False
    return par is None or bool(par)


def entry_point(name, route):
    if route != "direct":
        return EP + "proximal_operator"
    return EP + {"soft": "soft_thresholding", "soft_arr": "soft_thresholding", "l2": "l2_prox", "l2_square": "l2_square_prox",
                 "smoothness": "smoothness_prox", "simplex": "simplex_prox", "soft_sparsity": "soft_sparsity_prox",
                 "monotone_inc": "monotonicity_prox", "monotone_dec": "monotonicity_prox", "unimodality": "unimodality_prox",
                 "hard": "hard_thresholding", "normalized_sparsity": "normalized_sparsity_prox", "svt": "svd_thresholding",
                 "procrustes": "procrustes"}[name]


# ----------------------------------------------------------------------------- reference solvers (independent of the code and of the Coq model)
def pava(y):
    """pool-adjacent-violators: the non-decreasing least-squares fit"""
    blocks = []
    for v in y:
        blocks.append([float(v), 1])
        while len(blocks) > 1 and blocks[-2][0] / blocks[-2][1] > blocks[-1][0] / blocks[-1][1]:
            s, n = blocks.pop()
            blocks[-1][0] += s; blocks[-1][1] += n
    out = []
    for s, n in blocks:
        out += [s / n] * n
    return np.array(out)


def simplex_ref(v, p):
    """projection on {x>=0, sum x = p} by bisection on tau (no sorting)"""
    v = np.asarray(v, float)
    lo, hi = v.min() - p - 1.0, v.max()
    for _ in range(200):
        mid = 0.5 * (lo + hi)
        if np.maximum(v - mid, 0).sum() > p:
            lo = mid
        else:
            hi = mid
    return np.maximum(v - 0.5 * (lo + hi), 0)


def l1ball_ref(v, p):
    v = np.asarray(v, float)
    if np.abs(v).sum() <= p:
        return v.copy()
    return np.sign(v) * simplex_ref(np.abs(v), p)


def unimodal_ref(v):
    """best unimodal least-squares fit by trying every peak position"""
    v = np.asarray(v, float); n = len(v)
    best, bx = None, None
    for m in range(n):
        x = np.concatenate([pava(v[:m + 1]), -pava(-v[m + 1:])]) if m + 1 < n else pava(v)
        if m + 1 < n and x[m] < x[m + 1]:
            # peak must dominate both sides: fit [0..m] increasing and [m..] decreasing sharing the peak is covered by other m
            pass
        if is_unimodal(x):
            d = float(((x - v) ** 2).sum())
            if best is None or d < best:
                best, bx = d, x
    return bx


def is_unimodal(x, tol=0.0):
    x = np.asarray(x, float); n = len(x)
    for m in range(n):
        if all(x[i] <= x[i + 1] + tol for i in range(m)) and all(x[i] + tol >= x[i + 1] for i in range(m, n - 1)):
            return True
    return n == 0


def maxnorm_ref(v):
    """a nearest point of {x : max|x| = 1}"""
    v = np.asarray(v, float)
    if np.max(np.abs(v)) >= 1:
        return np.clip(v, -1, 1)
    x = v.copy(); i = int(np.argmax(np.abs(v)))
    x[i] = 1.0 if v[i] >= 0 else -1.0
    return x


def smooth_matrix(n, t):
    A = np.diag((2 * t + 1) * np.ones(n))
    for i in range(n - 1):
        A[i, i + 1] = A[i + 1, i] = -t
    return A


def objective(name, par, x, v):
    """penalty(x) + 1/2 |x - v|^2 of the operator (columns / flattened data as 1-D arrays)"""
    d = 0.5 * float(((x - v) ** 2).sum())
    if name == "soft":
        return par * float(np.abs(x).sum()) + d
    if name == "soft_arr":
        return float((par * np.abs(x)).sum()) + d
    if name == "l2":
        return par * float(np.sqrt((x ** 2).sum())) + d
    if name == "l2_square":
        return par * float((x ** 2).sum()) + d
    if name == "smoothness":
        return 0.5 * float(x @ (smooth_matrix(len(x), par) - np.eye(len(x))) @ x) + d
    return d


def feasible(name, par, x, scale):
    """None if x is in the operator's constraint set (up to rounding), else a message"""
    eps = 1e-9 * scale
    if name == "non_negative" and (x < 0).any():
        return "negative entry in the output"
    if name == "simplex":
        if (x < 0).any():
            return "negative entry in the output"
        if abs(float(x.sum()) - par) > 1e-9 * max(par, scale):
            return f"entries sum to {float(x.sum())!r}, not to the parameter {par!r}"
    if name == "soft_sparsity" and float(np.abs(x).sum()) > par * (1 + 1e-9) + eps:
        return f"l1 norm {float(np.abs(x).sum())!r} exceeds the threshold {par!r}"
    if name == "monotone_inc" and (np.diff(x) < 0).any():
        return "output is not non-decreasing"
    if name == "monotone_dec" and (np.diff(x) > 0).any():
        return "output is not non-increasing"
    if name == "unimodality" and not is_unimodal(x, eps):
        return "output is not unimodal"
    if name in ("hard", "normalized_sparsity") and int(np.count_nonzero(x)) > rank_bound(par):
        # (the documented level is an int; for other numbers the bound is the number of ranks below the level)
        return f"{int(np.count_nonzero(x))} non-zero entries, more than {par}"
    if name == "normalized_sparsity" and abs(float(np.sqrt((x ** 2).sum())) - 1) > 1e-9:
        return "output does not have unit l2 norm"
    if name == "normalize" and abs(float(np.max(np.abs(x))) - 1) > 1e-9:
        return "largest magnitude of the output is not 1"
    return None


def reference(name, par, v):
    if name == "non_negative":
        return np.maximum(v, 0)
    if name in ("soft", "soft_arr"):
        return np.where(v > par, v - par, np.where(v < -par, v + par, 0.0))
    if name == "l2_square":
        return v / (1 + 2 * par)
    if name == "l2":
        nv = math.sqrt(float((v ** 2).sum()))
        return v * 0 if nv <= par else (1 - par / nv) * v
    if name == "smoothness":
        return None
    if name == "simplex":
        return simplex_ref(v, par)
    if name == "soft_sparsity":
        return l1ball_ref(v, par)
    if name == "monotone_inc":
        return pava(v)
    if name == "monotone_dec":
        return -pava(-v)
    if name == "unimodality":
        return unimodal_ref(v)
    if name == "hard":
        x = np.zeros_like(v)
        if par > 0:
            idx = np.argsort(-np.abs(v), kind="stable")[:rank_bound(par)]
            x[idx] = v[idx]
        return x
    if name == "normalized_sparsity":
        x = reference("hard", par, v); return x / np.sqrt((x ** 2).sum())
    if name == "normalize":
        return maxnorm_ref(v)
    return None


def competitors(name, par, v, x, rng, scale):
    """random members of the constraint set (or arbitrary points for the penalised operators)"""
    n = len(v); out = []
    for _ in range(4):
        z = np.array([rng.gauss(0, 1) for _ in range(n)]) * scale
        w = x + 0.05 * z
        if name == "non_negative":
            out += [np.abs(z), np.maximum(w, 0)]
        elif name in ("soft", "soft_arr", "l2", "l2_square", "smoothness"):
            out += [z, w, x * (1 + 0.01 * rng.uniform(-1, 1)), v * rng.random()]
        elif name == "simplex":
            e = np.array([rng.expovariate(1) for _ in range(n)]); out.append(par * e / e.sum())
            w = np.maximum(w, 0)
            if w.sum() > 0:
                out.append(par * w / w.sum())
        elif name == "soft_sparsity":
            s = np.abs(z).sum()
            out.append(z * (par * rng.random() / s) if s > 0 else z)
            s = np.abs(w).sum()
            out.append(w * (min(1.0, par / s) if s > 0 else 1.0))
        elif name == "monotone_inc":
            out += [np.sort(z), np.sort(w)]
        elif name == "monotone_dec":
            out += [np.sort(z)[::-1], np.sort(w)[::-1]]
        elif name == "unimodality":
            m = rng.randrange(n); out.append(np.concatenate([np.sort(z[:m]), np.sort(z[m:])[::-1]]))
        elif name in ("hard", "normalized_sparsity"):
            k = min(rank_bound(par), n)
            z2 = np.zeros(n); idx = rng.sample(range(n), k)
            z2[idx] = (v if rng.random() < 0.5 else z)[idx]
            if name == "normalized_sparsity":
                nz = np.sqrt((z2 ** 2).sum())
                if nz == 0:
                    continue
                z2 = z2 / nz
            out.append(z2)
        elif name == "normalize":
            m = np.max(np.abs(z))
            if m > 0:
                out.append(z / m)
    return out


def units(name, a):
    """the independent sub-problems of a call: columns for column-wise operators, the flattened tensor otherwise"""
    a = np.asarray(a, float)
    if name in COLWISE:
        m = a.reshape(a.shape[0], -1)
        return [m[:, j] for j in range(m.shape[1])]
    return [a.reshape(-1)]


def check_output(name, par, a, out, rng):
    """property predicate on one implementation output; returns list of (predicate id, message)"""
    fails = []
    a = np.asarray(a, float)
    if not isinstance(out, np.ndarray) or out.size != a.size or not np.all(np.isfinite(out)):
        return [("finite_same_size", f"output is not a finite array of the input's size: {str(out)[:80]}")]
    pars = units("soft_arr", par) * 1 if name == "soft_arr" else None
    for j, (v, x) in enumerate(zip(units(name, a), units(name, np.asarray(out, float).reshape(a.shape if name not in COLWISE else (a.shape[0], -1))))):
        p = pars[0] if pars is not None else par
        scale = max(float(np.max(np.abs(v))), abs(float(p)) if np.isscalar(p) and name in ("simplex", "soft_sparsity", "soft") else 0.0, 1e-300)
        msg = feasible(name, p, x, scale)
        if msg:
            fails.append((name + "_feasible", f"column {j}: {msg}")); continue
        fx = objective(name, p, x, v)
        tol = 1e-9 * max(scale * scale, abs(fx))
        ref = reference(name, p, v)
        worst = None
        for z in ([ref] if ref is not None else []) + competitors(name, p, v, x, rng, scale):
            if feasible(name, p, z, scale) is None:
                fz = objective(name, p, z, v)
                if fz < fx - tol and (worst is None or fz < worst):
                    worst = fz
        if worst is not None:
            fails.append((name + "_optimal", f"column {j}: objective {fx!r} at the output but {worst!r} at a feasible competitor"))
        if name == "smoothness":
            r = smooth_matrix(len(v), p) @ x - v
            if np.max(np.abs(r)) > 1e-9 * scale * (1 + 4 * abs(p)):
                fails.append(("smoothness_optimal", f"column {j}: gradient of the objective is {float(np.max(np.abs(r)))!r}"))
    return fails


def check_svd_output(name, par, a, out, rng):
    """svd_thresholding: KKT conditions of  t*|X|_* + 1/2 |X - M|_F^2  (|M - X|_2 <= t and <M - X, X> = t*|X|_*) and the objective
    against competitors; procrustes: orthonormal columns (rows) and trace(Q^T M) = |M|_* (von Neumann: the maximum over the set)"""
    a = np.asarray(a, float)
    if not isinstance(out, np.ndarray) or out.shape != a.shape or not np.all(np.isfinite(out)):
        return [("finite_same_size", f"output is not a finite array of the input's shape: {str(out)[:80]}")]
    X = np.asarray(out, float); fails = []
    scale = max(float(np.max(np.abs(a))), 1e-300)
    sv = np.linalg.svd(a, compute_uv=False)
    if name == "svt":
        t = float(par); R = a - X
        sx = np.linalg.svd(X, compute_uv=False)
        big = max(scale, t)
        if float(np.linalg.norm(R, 2)) > t + 1e-9 * big:
            fails.append(("svt_optimal", f"spectral norm of M - X is {float(np.linalg.norm(R, 2))!r} > threshold {t!r}: M - X is not t times a subgradient of the nuclear norm at X"))
        elif abs(float((R * X).sum()) - t * float(sx.sum())) > 1e-9 * big * big * a.size:
            fails.append(("svt_optimal", f"<M - X, X> = {float((R * X).sum())!r} differs from t*|X|_* = {t * float(sx.sum())!r}"))
        else:
            def obj(Z):
                return t * float(np.linalg.svd(Z, compute_uv=False).sum()) + 0.5 * float(((Z - a) ** 2).sum())
            fx = obj(X); tol = 1e-9 * max(big * big, abs(fx))
            U, s_, Vt = np.linalg.svd(a, full_matrices=False)
            comps = [(U * np.maximum(s_ - t, 0)) @ Vt]
            for _ in range(4):
                Z = np.array([rng.gauss(0, 1) for _ in range(a.size)]).reshape(a.shape) * scale
                comps += [Z, X + 0.05 * Z, X * (1 + 0.01 * rng.uniform(-1, 1)), a * rng.random()]
            worst = min(obj(Z) for Z in comps)
            if worst < fx - tol:
                fails.append(("svt_optimal", f"objective {fx!r} at the output but {worst!r} at a competitor"))
    else:
        m, n = a.shape; k = min(m, n)
        G = X.T @ X if m >= n else X @ X.T
        if float(np.max(np.abs(G - np.eye(k)))) > 1e-9:
            fails.append(("procrustes_feasible", f"output does not have orthonormal {'columns' if m >= n else 'rows'}: |G - I|_max = {float(np.max(np.abs(G - np.eye(k))))!r}"))
        elif abs(float((X * a).sum()) - float(sv.sum())) > 1e-9 * scale * k:
            fails.append(("procrustes_optimal", f"trace(Q^T M) = {float((X * a).sum())!r} but the maximum over the set (the nuclear norm of M) is {float(sv.sum())!r}"))
    return fails


def check_idempotent(name, par, route, out):
    st, again = C.call_impl(impl_call, name, out, par, route)
    if st != "ok":
        return f"re-applying the operator to its own output raised {again}"
    o = np.asarray(out, float); g = np.asarray(again, float).reshape(o.shape)
    if not np.allclose(g, o, rtol=1e-9, atol=1e-9 * max(float(np.max(np.abs(o))), 1e-300)):
        return f"P(P(v)) differs from P(v) by {float(np.max(np.abs(g - o)))!r}"
    return None


def check_firm(name, par, route, a, out, rng):
    a = np.asarray(a, float)
    scale = float(np.max(np.abs(a))) or 1.0
    b = a + np.array([rng.gauss(0, 1) for _ in range(a.size)]).reshape(a.shape) * scale * rng.choice([1e-2, 1.0])
    st, ob = C.call_impl(impl_call, name, b, par, route)
    if st != "ok":
        return None
    for (u, v, pu, pv) in zip(units(name, a), units(name, b), units(name, np.asarray(out, float).reshape(a.shape)), units(name, np.asarray(ob, float).reshape(a.shape))):
        lhs = float(((pu - pv) ** 2).sum()); rhs = float(((pu - pv) * (u - v)).sum())
        if lhs > rhs + 1e-9 * max(scale * scale, abs(rhs)):
            return f"|P(u)-P(v)|^2 = {lhs!r} > <P(u)-P(v), u-v> = {rhs!r}"
    return None


# ----------------------------------------------------------------------------- known, deliberately unfixed defects
def model_agrees(f):
    """the Coq model of the (deliberately unfixed) algorithm gave the implementation's output on this input: the failure is the
    documented behaviour, not a new deviation of the code from the algorithm"""
    return bool((f.get("extra") or {}).get("model_agrees"))


def clf_inside_l1_ball(f):
    inp = f["inputs"]
    if inp.get("op") != "soft_sparsity" or f["predicate"] not in ("soft_sparsity_optimal", "soft_sparsity_idempotent") or not model_agrees(f):
        return False
    a = np.asarray(inp["tensor"], float); m = a.reshape(a.shape[0], -1)
    inside = np.abs(m).sum(axis=0) <= inp["param"] * (1 + 1e-12)
    if f["predicate"] == "soft_sparsity_idempotent":
        # not idempotent only for a column inside the ball with a zero entry (C12_l1ball_idempotent_refuted); elsewhere C12_l1ball_idempotent holds
        return bool(any(inside[j] and np.any(m[:, j] == 0) for j in range(m.shape[1])))
    return bool(inside.any())


def clf_maxnorm(f):
    inp = f["inputs"]
    if inp.get("op") != "normalize" or f["predicate"] != "normalize_optimal" or not model_agrees(f):
        return False
    a = np.asarray(inp["tensor"], float)
    return f.get("observed") is not None and bool(np.allclose(np.asarray(f["observed"], float).reshape(a.shape), a / np.max(np.abs(a)), rtol=1e-12, atol=0))


def clf_unimodal(f):
    return (f["inputs"].get("op") == "unimodality" and f["predicate"] in ("unimodality_optimal", "unimodality_idempotent")
            and model_agrees(f))


def clf_l2_zero(f):
    inp = f["inputs"]
    return (inp.get("op") == "l2" and f["predicate"] == "finite_same_size" and not np.any(np.asarray(inp["tensor"], float) != 0)
            and float(inp["param"]) == 0.0)


CLASSIFIERS = {"l2_zero_tensor_and_zero_regularizer": clf_l2_zero,
               "l1_norm_of_some_column_le_threshold": clf_inside_l1_ball,
               "max_normalisation_is_a_scaling_not_a_projection": clf_maxnorm,
               "unimodality_prox_suboptimal_or_not_idempotent": clf_unimodal}


# ----------------------------------------------------------------------------- generators
def gen_values(rng, n, kind, klass, scale):
    """kind 'dyadic': multiples of 1/16 (all float additions below are exact); 'float': arbitrary doubles"""
    def one():
        if kind == "dyadic":
            return rng.randint(-64, 64) / 16.0
        return rng.uniform(-4, 4)
    vals = [one() for _ in range(n)]
    if klass == "neg":
        vals = [-abs(x) - (0.0625 if kind == "dyadic" else 0.01) for x in vals]
    elif klass == "pos":
        vals = [abs(x) + (0.0625 if kind == "dyadic" else 0.01) for x in vals]
    elif klass == "ties":
        pool = [one() for _ in range(max(1, n // 3))]
        vals = [rng.choice(pool) * rng.choice([1, -1]) for _ in range(n)]
    elif klass == "zeros":
        vals = [0.0 if rng.random() < 0.4 else x for x in vals]
    elif klass == "sorted":
        vals = sorted(vals, reverse=rng.random() < 0.5)
    elif klass == "small":
        vals = [x / 64 for x in vals]
    elif klass == "const":
        c = one() or 1.0
        vals = [c for _ in range(n)]
    elif klass == "spike":
        vals = [x / 64 for x in vals]
        vals[rng.randrange(n)] = rng.choice([-1, 1]) * (4.0 if kind == "dyadic" else rng.uniform(3, 4))
    elif klass == "peak":       # rises then falls (unimodal up to a little noise)
        m = rng.randrange(n)
        up = sorted(abs(x) for x in vals[:m + 1]); down = sorted((abs(x) for x in vals[m + 1:]), reverse=True)
        vals = up + [min(x, up[-1]) for x in down]
    return [x * scale for x in vals]


CLASSES = ["signed", "neg", "pos", "ties", "zeros", "sorted", "small", "const", "spike", "peak"]
NAMES = ["non_negative", "soft", "soft_arr", "l2_square", "l2", "smoothness", "simplex", "soft_sparsity", "monotone_inc",
         "monotone_dec", "unimodality", "hard", "normalized_sparsity", "normalize"]
DISPATCHABLE = [n for n in NAMES if n not in ("soft_arr", "monotone_dec")]


def gen_par(rng, name, a, kind, scale):
    n = a.size
    if name == "hard":
        # (also non-integer and negative levels: `rank < level` keeps ceil(level) entries, none for a level <= 0)
        return rng.choice([0, 1, 2, max(1, n // 2), n, n + 2, 0.5, 1.5, n - 0.5, -1, -0.5])
    if name == "normalized_sparsity":
        return rng.choice([1, 2, max(1, n // 2), n, n + 1, 0.5, 1.5])
    if name == "soft_arr":
        return np.array([abs(x) for x in gen_values(rng, n, kind, rng.choice(["signed", "zeros"]), scale)]).reshape(a.shape)
    if name in ("simplex", "soft_sparsity"):
        # inside / outside the set: the budget ranges from far below to far above the column sums
        return rng.choice([1 / 16, 0.5, 1.0, 2.0, 8.0, 64.0]) * scale
    if name in ("non_negative", "normalize", "monotone_inc", "monotone_dec", "unimodality", "procrustes", "identity"):
        return None
    par = (rng.choice([0, 1, 4, 8, 24, 80]) / 16.0 if kind == "dyadic" else rng.choice([0.0, rng.uniform(0, 1), rng.uniform(1, 6)])) * scale
    if name in ("smoothness", "l2_square"):
        par = par / scale * rng.choice([1e-3, 1.0, 50.0]) if kind == "float" else par / scale
    return par


def gen_array(rng, name, shape, klass):
    kind = "dyadic" if (name == "unimodality" or rng.random() < 0.5) else "float"
    scale = rng.choice([2.0 ** -10, 1.0, 2.0 ** 10]) if kind == "dyadic" else rng.choice([1e-3, 1.0, 1e3])
    n = int(np.prod(shape))
    return np.array(gen_values(rng, n, kind, klass, scale), dtype=np.float64).reshape(shape), kind, scale


def gen_spec_route(rng, name, par, a, kind, scale):
    """proximal_operator with dict / list valued constraints: returns (effective operator, effective parameter, route); `order` is also
    written as the negative alias of the mode (order - n_const) and, rarely, just outside [-n_const, n_const) (IndexError: the call must raise)"""
    name, par, route = _gen_spec_route(rng, name, par, a, kind, scale)
    n = route.get("n_const")
    if n is not None and name != "reject":
        u = rng.random()
        if u < 0.15:
            route["order"] = route["order"] - n
        elif u > 0.97:
            route["order"] = rng.choice([n, n + 1, -n - 1])
            return "reject", None, route
    return name, par, route


def _gen_spec_route(rng, name, par, a, kind, scale):
    """proximal_operator with dict / list valued constraints: returns (effective operator, effective parameter, route)"""
    if rng.random() < 0.08:
        # n_const=None: proximal_operator returns the tensor unchanged whatever constraint is named
        return "identity", None, {"specs": [[name, rng.choice(["dict", "scalar"]), 0, par]], "n_const": None, "order": 0}
    n_const = rng.choice([1, 2, 3, 4])
    mode = rng.randrange(n_const)
    style = rng.choice(["dict", "list", "scalar"]) if n_const == 1 else rng.choice(["dict", "list", "dict", "list", "scalar"])
    specs = [[name, style, mode, par]]
    second = None
    if n_const > 1 and style != "scalar" and rng.random() < 0.6:
        name2 = rng.choice([x for x in DISPATCHABLE if x != name and (x != "unimodality" or kind == "dyadic")])
        par2 = gen_par(rng, name2, a, kind, scale)
        if can_dispatch(name2, par2):
            mode2 = rng.choice([i for i in range(n_const) if i != mode])
            second = (name2, par2, mode2)
            specs.append([name2, rng.choice(["dict", "list"]), mode2, par2])
            if rng.random() < 0.5:
                specs.reverse()
    # the same operator registered on further modes with other parameter values
    others = []
    if style != "scalar":
        taken = {mode} | ({second[2]} if second else set())
        for i in range(n_const):
            if i not in taken and rng.random() < 0.5:
                pi = gen_par(rng, name, a, kind, scale)
                if can_dispatch(name, pi):
                    others.append([i, pi])
        for sp in specs:
            if sp[0] == name and sp[2] == mode:
                sp.append(others)
    for sp in specs:
        if len(sp) == 4:
            sp.append([])
        sp.append(bool(sp[1] == "dict" and rng.random() < 0.3))
    order = rng.randrange(n_const)
    route = {"specs": specs, "n_const": n_const, "order": order}
    if rng.random() < 0.06:
        # a request validate_constraints must refuse: a second constraint on an occupied mode (also through the negative alias of
        # its number) or a dictionary key outside [-n_const, n_const)
        name2 = rng.choice([x for x in DISPATCHABLE if x != name and all(sp[0] != x for sp in specs)])
        par2 = gen_par(rng, name2, a, kind, scale)
        if can_dispatch(name2, par2):
            how = rng.choice(["same_mode", "out_of_range"]) if style != "scalar" else "same_mode"
            if how == "same_mode":
                specs.append([name2, "dict", mode, par2, [], bool(rng.random() < 0.5)])
            else:
                specs.append([name2, "dict", rng.choice([n_const, n_const + 1]), par2, [], False])
            return "reject", None, route
    if style == "scalar" or order == mode:
        return name, par, route
    for i, pi in others:
        if order == i:
            return name, pi, route
    if second is not None and order == second[2]:
        return second[0], second[1], route
    return "identity", None, route


def gen_reject_cases(rng):
    """requests validate_constraints must refuse, enumerated: scalar keyword + dict / list keyword (either registration order),
    two dicts meeting on a mode directly or through the negative alias of its number, keys just outside [-n, n)"""
    for n_const in (2, 3):
        for m in range(n_const):
            t = rng.choice([0.5, 1.0, 2.0])
            combos = [
                [["soft", "scalar", 0, t, [], False], ["non_negative", "dict", m, None, [], False]],      # dict keyword registered first
                [["non_negative", "scalar", 0, None, [], False], ["soft", "dict", m, t, [], False]],      # scalar keyword registered first
                [["l2_square", "scalar", 0, t, [], False], ["soft", "list", m, t, [], False]],
                [["soft", "dict", m, t, [], False], ["hard", "dict", m, 2, [], True]],                    # m and m - n
                [["simplex", "dict", m, t, [], True], ["smoothness", "list", m, t, [], False]],
                [["soft", "dict", n_const, t, [], False]],                                                # key n
                [["soft", "dict", -1, t, [], True]],                                                      # key -n - 1
            ]
            for specs in combos:
                a = np.array(gen_values(rng, 3, "dyadic", "signed", 1.0))
                yield "reject", None, a, {"specs": specs, "n_const": n_const, "order": rng.randrange(n_const)}, "dyadic", "reject"


def gen_cases(tier, rng):
    """yields (name, par, array, route, kind, klass)"""
    nrep = 2 if tier == "quick" else 3      # thorough: 3 repetitions over the larger shape list ~ 10 CPU-min + exact Print Assumptions (10 repetitions were 28 CPU-min, over the budget; 4 measured 12.5)
    shapes_q = [(1,), (2,), (3,), (5,), (8,), (1, 1), (4, 1), (1, 3), (3, 2), (5, 3)]
    shapes_t = shapes_q + [(4,), (6,), (7,), (12,), (2, 2), (6, 4), (9, 2), (2, 5)]
    mshapes_q = [(1, 1), (2, 2), (3, 2), (2, 3), (4, 4), (1, 3)]
    mshapes_t = mshapes_q + [(5, 3), (3, 5), (4, 1), (6, 6)]
    for rep in range(nrep):
        for shape in (shapes_q if tier == "quick" else shapes_t):
            for klass in CLASSES:
                for name in NAMES:
                    a, kind, scale = gen_array(rng, name, shape, klass)
                    par = gen_par(rng, name, a, kind, scale)
                    route = "direct"
                    if can_dispatch(name, par):
                        u = rng.random()
                        if name in ("non_negative", "normalize") or u < 0.25:
                            route = "dispatch"
                        elif u < 0.45:
                            name, par, route = gen_spec_route(rng, name, par, a, kind, scale)
                    yield name, par, a, route, kind, klass
        # tensors with three dimensions: operators on the flattened tensor accept them, the column-wise ones must refuse (smoothness: outside the model)
        for shape in (((2, 2, 2), (3, 1, 2)) if rep == 0 else ()) if tier == "quick" else ((2, 2, 2), (3, 1, 2), (2, 3, 2), (1, 2, 3)):
            for klass in ("signed", "ties") if tier == "quick" else ("signed", "ties", "zeros"):
                for name in NAMES:
                    if name in ("smoothness", "soft_arr"):
                        continue
                    a, kind, scale = gen_array(rng, name, shape, klass)
                    par = gen_par(rng, name, a, kind, scale)
                    route = "dispatch" if (can_dispatch(name, par) and (name in ("non_negative", "normalize") or rng.random() < 0.4)) else "direct"
                    yield name, par, a, route, kind, klass
        # smoothness_prox with three or more dimensions (NumPy's stacked solve, Model/ProxDispatch.smooth_nd): accepted iff shape[-2] == shape[0]
        for shape in (((2, 2, 2), (3, 3, 2), (3, 1, 2), (2, 3, 2), (2, 2, 2, 2)) if rep == 0 else ((2, 2, 3),)) if tier == "quick" else \
                ((2, 2, 2), (3, 3, 2), (2, 2, 3), (3, 1, 2), (2, 3, 2), (2, 2, 2, 2), (3, 2, 3, 2), (4, 4, 1), (2, 1, 2, 1), (1, 1, 1)):
            for klass in ("signed", "const") if tier == "quick" else ("signed", "const", "zeros", "spike"):
                a, kind, scale = gen_array(rng, "smoothness", shape, klass)
                par = gen_par(rng, "smoothness", a, kind, scale)
                u = rng.random()
                route = "direct"
                if can_dispatch("smoothness", par) and u < 0.6:
                    n_const = rng.choice([1, 2, 3]); mode = rng.randrange(n_const)
                    route = "dispatch" if u < 0.3 else {"specs": [["smoothness", rng.choice(["dict", "list"]), mode, par, [], bool(rng.random() < 0.3)]],
                                                        "n_const": n_const, "order": mode - (n_const if rng.random() < 0.3 else 0)}
                yield "smoothness", par, a, route, kind, klass
        if rep < 2:
            yield from gen_reject_cases(rng)
        for shape in (mshapes_q if tier == "quick" else mshapes_t):
            for klass in CLASSES + ["rank1"]:
                for name in ("svt", "procrustes"):
                    if klass == "rank1":
                        u, kind, scale = gen_array(rng, name, (shape[0], 1), "signed")
                        w, _, _ = gen_array(rng, name, (1, shape[1]), "signed")
                        a = u @ w / max(float(np.max(np.abs(w))), 1e-300)
                    else:
                        a, kind, scale = gen_array(rng, name, shape, klass)
                    par = gen_par(rng, "soft", a, kind, scale) if name == "svt" else None
                    yield name, par, a, "direct", kind, klass


# ----------------------------------------------------------------------------- Gallina literals
def qf(x):
    """Gallina literal of a rational.  A double (or int) is written with primitive integers, (D m e) = m / 2^e, (N m e) = -m / 2^e
    (Corr/C12.dy): elaborating these is an order of magnitude cheaper than (Qmake (n)%Z (d)%positive), and case files are dominated by
    the elaboration of their literals; everything else (norm tapes, tolerances) keeps the generic printer."""
    if isinstance(x, (int, np.integer)) and not isinstance(x, bool):
        num, e = int(x), 0
    elif isinstance(x, (float, np.floating)) and math.isfinite(float(x)):
        num, den = float(x).as_integer_ratio(); e = den.bit_length() - 1
    else:
        return C.q(x)
    if abs(num) >= 1 << 62 or e >= 1 << 20:
        return C.q(x)
    return f"({'N' if num < 0 else 'D'} {abs(num)} {e})"


def qf_list(xs):
    return "[" + "; ".join(qf(x) for x in xs) + "]"


def rows_lit(a, nrows):
    m = np.asarray(a, float).reshape(nrows, -1)
    return "[" + "; ".join(qf_list([float(x) for x in r]) for r in m) + "]"


def sqrt_q(fr):
    """rational s >= 0 with |s*s - fr| <= fr * 2^-80"""
    if fr == 0:
        return Fraction(0)
    k = 100 + max(0, fr.denominator.bit_length() - fr.numerator.bit_length()) // 2 + 2
    return Fraction(math.isqrt((fr.numerator << (2 * k)) // fr.denominator), 1 << k)


def fr_sumsq(xs):
    return sum((Fraction(float(x)) ** 2 for x in xs), Fraction(0))


def rank_bound(par):
    """hard_thresholding keeps the positions whose rank r = 0, 1, ... satisfies r < par: ceil(par) positions for par > 0, none otherwise
    (Model/ProxDispatch.rank_bound); par is an int in sensible calls but any float is accepted by the code"""
    return max(0, int(math.ceil(float(par))))


def model_hard(v, k):
    """the tie rule of the model (stable descending order, later position first) -- only used to feed the norm tape"""
    order = sorted(range(len(v)), key=lambda i: (-abs(v[i]), -i))
    keep = set(order[:k])
    return [v[i] if i in keep else 0.0 for i in range(len(v))]


KW_ORDER = ["non_negative", "l1_reg", "l2_reg", "l2_square_reg", "unimodality", "normalize", "simplex", "normalized_sparsity",
            "soft_sparsity", "smoothness", "monotonicity", "hard_sparsity"]     # registration order of validate_constraints


KIND = {"non_negative": "KNonNeg", "l1_reg": "KL1", "l2_reg": "KL2", "l2_square_reg": "KL2sq", "unimodality": "KUnimodal", "normalize": "KNormalize",
        "simplex": "KSimplex", "normalized_sparsity": "KNormSparsity", "soft_sparsity": "KSoftSparsity", "smoothness": "KSmooth",
        "monotonicity": "KMonotone", "hard_sparsity": "KHardSparsity"}


def routed_lit(name, par, a, route):
    """the keyword arguments exactly as written (raw Python int keys, also negative / colliding / out-of-range ones) -> ORouted / ORejected
    literal; C11's Coq model of validate_constraints (Model/Constraints.zvalidate) selects operator and parameter or says 'raises'"""
    flat = [float(x) for x in np.asarray(a, float).reshape(-1)]
    def qq(p):
        return qf(1) if p is None else qf(float(p) if not isinstance(p, (int, np.integer)) else int(p))
    specs = []
    for kw, val in spec_kwargs(route).items():
        if kw in ("n_const", "order"):
            continue
        if isinstance(val, dict):
            body = "(ZDict [" + "; ".join(f"({C.z(m)}, {qq(None if v is True else v)})" for m, v in val.items()) + "])"
        elif isinstance(val, list):
            body = "(ZList [" + "; ".join("None" if v is None else f"(Some {qq(None if v is True else v)})" for v in val) + "])"
        else:
            body = f"(ZScalar {qq(None if val is True else val)})"
        specs.append(f"({KIND[kw]}, {body})")
    tail = f"({int(route['order'])})%Z [" + "; ".join(specs) + "]"
    if name == "reject":
        return f"(ORejected {int(route['n_const'])}%nat {tail})"
    head = ("None " if route["n_const"] is None else f"(Some {int(route['n_const'])}%nat) ") + tail
    aux = Fraction(0)
    if name == "l2":
        aux = sqrt_q(fr_sumsq(flat))
    elif name == "normalized_sparsity":
        aux = sqrt_q(fr_sumsq(model_hard(flat, rank_bound(par))))
    return f"(ORouted {head} {C.q(aux)})"


ND_REFUSED = {"monotone_inc", "monotone_dec", "unimodality", "simplex", "soft_sparsity"}     # raise ValueError for more than two dimensions


def op_lit(name, par, a, tape=None, route=None, raised=False):
    if np.asarray(a).ndim > 2 and name == "smoothness":
        # presented as the rows of the shape[-2] x shape[-1] slices: OSmoothNd raised shape[0] shape[-2] <the call>
        sh = np.asarray(a).shape
        return f"(OSmoothNd {'true' if raised else 'false'} {sh[0]}%nat {sh[-2]}%nat {op_lit(name, par, np.asarray(a).reshape(-1, sh[-1]), tape, route)})"
    if np.asarray(a).ndim > 2:
        # a tensor with three or more dimensions, presented as first axis x the rest: ONd ndim raised <the call>
        flat2 = np.asarray(a).reshape(np.asarray(a).shape[0], -1)
        return f"(ONd {np.asarray(a).ndim}%nat {'true' if raised else 'false'} {op_lit(name, par, flat2, tape, route)})"
    if isinstance(route, dict):
        return routed_lit(name, par, a, route)     # also n_const=None: the early exit is the model's (Model/ProxDispatch.selected_pop)
    flat = [float(x) for x in np.asarray(a, float).reshape(-1)]
    if name == "non_negative": return "ONonneg"
    if name == "soft": return f"(OSoft {qf(float(par))})"
    if name == "soft_arr": return f"(OSoftArr {rows_lit(par, a.shape[0])})"
    if name == "l2_square": return f"(OL2sq {qf(float(par))})"
    if name == "l2": return f"(OL2 {qf(float(par))} {C.q(sqrt_q(fr_sumsq(flat)))})"
    if name == "smoothness": return f"(OSmooth {qf(float(par))})"
    if name == "simplex": return f"(OSimplex {qf(float(par))})"
    if name == "soft_sparsity": return f"(OSoftSparsity {qf(float(par))})"
    if name == "monotone_inc": return "(OMonotone false)"
    if name == "monotone_dec": return "(OMonotone true)"
    if name == "unimodality": return "OUnimodal"
    if name == "hard": return f"(OHard {rank_bound(par)}%nat)"
    if name == "normalized_sparsity": return f"(ONormSparsity {rank_bound(par)}%nat {C.q(sqrt_q(fr_sumsq(model_hard(flat, rank_bound(par)))))})"
    if name == "normalize": return "ONormalize"
    if name == "identity": return "OIdentity"
    if name in ("svt", "procrustes"):
        U, sv, V = tape
        body = f"{rows_lit(U, U.shape[0])} {qf_list([float(x) for x in sv])} {rows_lit(V, V.shape[0])}"
        return f"(OSvt {qf(float(par))} {body})" if name == "svt" else f"(OProcrustes {body})"
    raise KeyError(name)


def tolerances(name, par, a, kind):
    """(atol, rtol) as exact rationals; (0,0) = bit-exact comparison"""
    if name in ("non_negative", "hard", "identity"):
        return Fraction(0), Fraction(0)
    if name in ("soft", "soft_arr") and kind == "dyadic":
        return Fraction(0), Fraction(0)     # |x| - t and the product with the sign are exact on these inputs
    scale = max(float(np.max(np.abs(a))), 1e-300)
    if name in ("simplex", "soft_sparsity", "soft", "l2", "svt"):
        scale = max(scale, abs(float(par)))
    return Fraction(scale) / 10 ** 9, Fraction(1, 10 ** 9)


def in_domain(name, par, a):
    """inputs on which the operator is defined (no 0/0)"""
    flat = np.asarray(a, float).reshape(-1)
    if name == "normalize":
        return bool(np.any(flat != 0))
    if name == "normalized_sparsity":
        return bool(np.any(np.array(model_hard(list(flat), rank_bound(par))) != 0))
    return True


# ----------------------------------------------------------------------------- run
def route_label(route):
    return "spec" if isinstance(route, dict) else route


def l1ball_idempotent_class(a, par):
    """every column lies on or outside the l1 ball or has no zero entry (the hypothesis of C12_l1ball_idempotent)"""
    m = np.asarray(a, float); m = m.reshape(m.shape[0], -1)
    return bool(all(float(np.abs(m[:, j]).sum()) >= float(par) or not np.any(m[:, j] == 0) for j in range(m.shape[1])))


def smooth_nd_fails(par, a, out):
    """smoothness_prox on a tensor with three or more dimensions, the code as it is: every shape[-2] x shape[-1] slice of the output solves the coded
    tridiagonal system along axis -2 (independent of the Coq model)"""
    a = np.asarray(a, float); q = a.shape[-1]
    if not isinstance(out, np.ndarray) or out.size != a.size or not np.all(np.isfinite(out)):
        return [("finite_same_size", f"output is not a finite array of the input's size: {str(out)[:80]}")]
    for sl_in, sl_out in zip(a.reshape(-1, a.shape[-2], q), np.asarray(out, float).reshape(-1, a.shape[-2], q)):
        r = smooth_matrix(a.shape[-2], float(par)) @ sl_out - sl_in
        if np.max(np.abs(r)) > 1e-9 * max(float(np.max(np.abs(a))), 1e-300) * (1 + 4 * abs(float(par))):
            return [("smoothness_nd_system", f"a slice of the output does not solve the coded tridiagonal system along axis -2: residual {float(np.max(np.abs(r)))!r}")]
    return []


def predicates(name, par, a, out, route, rng, firm_rounds=1):
    """all property predicates on one implementation output -> list of (predicate id, message)"""
    if name == "smoothness" and np.asarray(a).ndim > 2:
        return smooth_nd_fails(par, a, out)
    if name == "identity":
        same = isinstance(out, np.ndarray) and out.shape == np.asarray(a).shape and np.array_equal(out, a)
        return [] if same else [("identity_unchanged", "no constraint is registered for the selected mode but the tensor was changed")]
    a_shape = np.asarray(a).shape
    ok_shapes = [a_shape] + ([(a_shape[0], 1)] if name in ("monotone_inc", "monotone_dec", "unimodality") and len(a_shape) == 1 else [])
    if isinstance(out, np.ndarray) and out.size == np.asarray(a).size and out.shape not in ok_shapes:
        # (monotonicity_prox / unimodality_prox return an (n, 1) column for a 1-D input: accepted as the same point)
        return [(name + "_feasible", f"output has shape {out.shape}, the input {a_shape}: not a point of the input's space")]
    fails = check_svd_output(name, par, a, out, rng) if name in ("svt", "procrustes") else check_output(name, par, a, out, rng)
    # (l1-ball operator: C12_l1ball_idempotent - the second application fixes the first result for every column on / outside the ball or free of
    # zeros, also when the first application is the known not-a-projection move of a column inside the ball; only a column inside the ball WITH a
    # zero entry is outside that statement, C12_l1ball_idempotent_refuted)
    l1_idem = (name == "soft_sparsity" and fails and all(p == "soft_sparsity_optimal" for p, _ in fails) and l1ball_idempotent_class(a, par))
    if (not fails or l1_idem) and name in PROJECTION:
        m = check_idempotent(name, par, route, out)
        if m:
            fails.append((name + "_idempotent", m))
    if not fails and name in CONVEX and (name not in ("soft", "svt") or par >= 0):
        for _ in range(firm_rounds):
            m = check_firm(name, par, route, a, out, rng)
            if m:
                fails.append((name + "_firmly_nonexpansive", m)); break
    return fails


def evaluate(chk, name, par, a, route, kind, klass, rng, cases, meta):
    st, out = C.call_impl(impl_call, name, a, par, route, timeout=60)
    rl = route_label(route)
    if st != "ok" and out == "timeout":
        chk.hist("outcome", "timeout-skipped"); chk.cov["skipped_timeouts"] = chk.cov.get("skipped_timeouts", 0) + 1
        return
    chk.hist("operator", name); chk.hist("route", rl); chk.hist("class", klass); chk.hist("kind", kind); chk.hist("outcome", st)
    chk.count(key=(name, a.shape, klass, kind, rl), nontrivial=a.size > 1 and bool(np.any(a != 0)))
    inputs = {"op": name, "tensor": a, "param": par, "route": route}
    ep = entry_point(name, route)
    if name == "reject":
        # the request is refused by validate_constraints: compared with the Coq model only (ORejected: it raised, ORouted: it returned)
        if (st == "reject" and str(out).startswith(("ValueError", "IndexError"))) or st == "ok":
            cid = len(cases); nrows = a.shape[0]
            lit = routed_lit("reject" if st == "reject" else "identity", None, a, route)
            outv = a if st == "reject" else np.asarray(out)
            if outv.size == a.size and np.all(np.isfinite(outv)):
                cases.append(f"(({cid})%Z, {lit}, {rows_lit(a, nrows)}, {rows_lit(outv, nrows)}, {C.q(0)}, {C.q(0)})")
                meta.append(inputs)
        else:
            chk.finding(ep, inputs, f"proximal_operator crashed instead of refusing the request: {out}", "reject_clean")
        return
    if a.ndim > 2 and name in ND_REFUSED:
        # more than two dimensions: the operator must refuse (ValueError); compared with the Coq model (ndim_ok) only
        if (st == "reject" and str(out).startswith("ValueError")) or st == "ok":
            outv = a if st != "ok" else np.asarray(out)
            if outv.size == a.size and np.all(np.isfinite(outv)):
                cid = len(cases)
                cases.append(f"(({cid})%Z, {op_lit(name, par, a, None, route, raised=(st != 'ok'))}, {rows_lit(a, a.shape[0])}, {rows_lit(outv, a.shape[0])}, {C.q(0)}, {C.q(0)})")
                meta.append(inputs)
        else:
            chk.finding(ep, inputs, f"the operator crashed instead of refusing a tensor with {a.ndim} dimensions: {out}", "reject_clean")
        return
    if a.ndim > 2 and name == "smoothness":
        # three or more dimensions: the code as it is (stacked solve) refuses unless shape[-2] == shape[0] and then smooths every slice along
        # axis -2; compared with Model/ProxDispatch.smooth_nd (raised-iff-the-model-refuses, values, the tridiagonal system per slice column)
        q = a.shape[-1]
        if (st == "reject" and str(out).startswith("ValueError")) or st == "ok":
            outv = a if st != "ok" else np.asarray(out)
            if outv.size == a.size and np.all(np.isfinite(outv)):
                if st == "ok":
                    for pred, msg in smooth_nd_fails(par, a, outv):
                        chk.finding(ep, inputs, msg, pred, observed=outv)
                atol, rtol = tolerances(name, par, a, kind)
                cid = len(cases)
                cases.append(f"(({cid})%Z, {op_lit(name, par, a, None, route, raised=(st != 'ok'))}, {rows_lit(a.reshape(-1, q), a.size // q)}, {rows_lit(np.asarray(outv).reshape(-1, q), a.size // q)}, {C.q(atol)}, {C.q(rtol)})")
                meta.append(inputs)
            else:
                chk.finding(ep, inputs, f"output is not a finite array of the input's size: {str(outv)[:80]}", "finite_same_size")
        else:
            chk.finding(ep, inputs, f"the operator crashed instead of refusing a tensor of shape {a.shape}: {out}", "reject_clean")
        return
    if st != "ok":
        chk.finding(ep, inputs, f"the operator raised on a valid input: {out}", name + "_feasible")
        return
    out = np.asarray(out)
    fails = predicates(name, par, a, out, route, rng)
    emit = out.size == a.size and bool(np.all(np.isfinite(out)))
    tape = None
    if emit and name in ("svt", "procrustes"):
        st2, tape = C.call_impl(svd_tape, a, timeout=60)
        emit = st2 == "ok"
    for pred, msg in fails:
        # cid: the correspondence case of the same call; a known-finding classification additionally requires that the Coq model
        # (the documented algorithm, as refuted in Props/C12.v) reproduces the implementation's output on this very input
        chk.finding(ep, inputs, msg, pred, observed=out, extra={"cid": len(cases) if emit else None})
    # correspondence case
    if emit:
        atol, rtol = tolerances(name, par, a, kind)
        cid = len(cases)
        nrows = a.shape[0]
        cases.append(f"(({cid})%Z, {op_lit(name, par, a, tape, route)}, {rows_lit(a, nrows)}, {rows_lit(out, nrows)}, {C.q(atol)}, {C.q(rtol)})")
        meta.append(inputs)
        if cid % 401 == 0:
            chk.sample({"operator": name, "route": C.jsonable(route), "param": C.jsonable(par), "input": np.asarray(a).tolist(), "output": out.tolist(),
                        "comparison": "exact" if atol == 0 else "toleranced"})
        if name in SECOND and klass != "second" and (not fails or (name == "soft_sparsity" and l1ball_idempotent_class(a, par))) and rng.random() < 0.15:
            b = np.asarray(out, float).reshape(a.shape)
            if in_domain(name, par, b):
                evaluate(chk, name, par, b, route, "float", "second", rng, cases, meta)


def merge_known():
    """make the entries of known_findings.d/C12.json visible even before the coordinator has merged them"""
    p = os.path.join(C.VERIF, "known_findings.d", "C12.json")
    extra = json.load(open(p)).get("findings", []) if os.path.exists(p) else []
    orig = C.load_known
    if getattr(orig, "_c12_merged", False):
        return
    def load(prop):
        ks = orig(prop)
        if prop == "C12":
            ks = ks + [e for e in extra if e["id"] not in {k["id"] for k in ks}]
        return ks
    load._c12_merged = True
    C.load_known = load


def drop_header_pseudo_axiom(chk):
    """common.print_assumptions parses the header line 'Axioms:' of Coq's output as an axiom called 'Axioms';
    remove exactly that pseudo entry (real non-stdlib axioms are still reported)."""
    chk.axioms = {k: [a for a in v if a != "Axioms"] for k, v in chk.axioms.items()}
    chk.broken = [b for b in chk.broken if not (str(b.get("what", "")).endswith("depends on non-stdlib axioms") and b.get("detail") == ["Axioms"])]


def load_case(e):
    a = C.from_jsonable_array(e["tensor"])
    par = C.from_jsonable_array(e["param"]) if isinstance(e["param"], dict) else e["param"]
    return e["op"], par, a, e.get("route", "direct")


def union_print_assumptions(prop, names):
    """Print Assumptions asked ONCE for a term that mentions every property theorem (one walk through the Reals library instead of one per
    theorem: ~1 s instead of ~0.85 s x 79).  The answer is the union of the theorems' axioms; when it contains nothing but standard-library
    axioms every theorem is clean and each is reported with that union (an over-approximation of its own list).  Otherwise - or if the
    question cannot be asked (a theorem is missing) - the per-theorem question of common.print_assumptions is asked instead."""
    import subprocess, shutil, re
    d = os.path.join(C.BUILD, "pa", f"{os.getpid()}_{prop}_union"); shutil.rmtree(d, ignore_errors=True); os.makedirs(d, exist_ok=True)
    fn = os.path.join(d, f"PAU_{prop}.v")
    with open(fn, "w") as f:
        f.write(f"From TLV Require Import Props.{prop}.\n")
        f.write("Definition all_property_theorems : True :=\n" + "".join(f"  let _ := @{n} in\n" for n in names) + "  I.\n")
        f.write('Goal True. idtac "@@BEGIN". exact I. Qed.\nPrint Assumptions all_property_theorems.\nGoal True. idtac "@@END". exact I. Qed.\n')
    r = subprocess.run(["timeout", "600", "coqc", "-R", os.path.join(C.COQ, "theories"), "TLV", fn], capture_output=True, text=True, cwd=d)
    shutil.rmtree(d, ignore_errors=True)
    if r.returncode == 0 and "@@BEGIN" in r.stdout and "@@END" in r.stdout:
        body = r.stdout.split("@@BEGIN", 1)[1].split("@@END")[0]
        if "Closed under the global context" in body:
            return {n: [] for n in names}, r.stdout
        axs = sorted(a for a in set(re.findall(r"^([A-Za-z_][\w.']*)\s*:", body, re.M)) if a not in ("Axioms", "Variables", "Hypotheses"))
        if axs and not C.own_axioms(axs):
            return {n: list(axs) for n in names}, r.stdout
    return _common_print_assumptions(prop, names)


_common_print_assumptions = C.print_assumptions


def run(chk):
    rng = random.Random(chk.seed)
    merge_known()
    # Print Assumptions: common.print_assumptions (one union question in the quick tier, exact per-theorem lists in the thorough tier or under
    # VERIF_PA_EXACT=1, cached on the stamp of the compiled objects); the local union variant below is kept as a fallback helper only
    # (ProxProofsUniExact: exactness proof of the CANDIDATE repair of unimodality_prox, build/fix_candidates/C12_unimodality_exact.*; built and gated
    # with the property's files, not used by Props / Corr)
    chk.build_proofs(extra_targets=["theories/Proofs/ProxProofsUniExact.vo"])
    drop_header_pseudo_axiom(chk)
    # corr:C12-static: the dispatch table regenerated from the current source by an ast translation, compared with the model inside Coq
    # (runs beside the case generation and the case shards; joined before the verdict)
    import threading
    from harness.props import C12_static
    static_box = {}
    static_thread = threading.Thread(target=lambda: static_box.update(info=C12_static.run_static(chk)))
    static_thread.start()
    C.reset_backends()
    cases, meta = [], []
    # corpus first
    cdir = os.path.join(C.VERIF, "corpus", "C12")
    if os.path.isdir(cdir):
        for fn in sorted(os.listdir(cdir)):
            e = json.load(open(os.path.join(cdir, fn)))
            name, par, a, route = load_case(e)
            evaluate(chk, name, par, a, route, e.get("kind", "float"), "corpus", rng, cases, meta)
    skipped = 0
    for name, par, a, route, kind, klass in gen_cases(chk.tier, rng):
        if not in_domain(name, par, a):
            skipped += 1; continue
        evaluate(chk, name, par, a, route, kind, klass, rng, cases, meta)
    failing, n_eval, broken = C.run_case_shards("C12", HEADER, "case", cases, shard=200 if chk.tier == "quick" else 300, timeout=1500)
    chk.checker_cmds.append("coqc (vm_compute) on generated build/cases/C12/*.v: Corr.C12.failing")
    chk.cov["traces_validated_against_impl"] = n_eval
    chk.cov["skipped_outside_domain"] = skipped
    chk.cov["exhaustive"] = False
    chk.cov["rule"] = ("14 operator configurations x tensor shapes (vectors of length 1-8, matrices up to 5x3; thorough: up to 12 / 9x2, more repetitions) x value classes "
                       "{signed, all-negative, all-positive, ties in magnitude, zeros, sorted, small (inside the sets), constant, one spike, rise-then-fall} x scales 1e-3..1e3 x "
                       "{dyadic inputs (exact comparison where the code is division-free), arbitrary doubles (toleranced 1e-9)} x {direct call, proximal_operator with a scalar "
                       "constraint, proximal_operator with dict / list valued constraints on 1-4 modes, one or two constraints, every order (unconstrained mode = identity)}; for about one in seven projection calls the output is fed back through the same "
                       "call (class 'second': a two-step sequence under the correspondence); "
                       "svd_thresholding / procrustes on matrices up to 4x4 (thorough 6x6) incl. rank-1, against the recorded answer of tl.truncated_svd; "
                       "smoothness_prox / proximal_operator(smoothness=t) on tensors with three and four dimensions (shape[-2] = shape[0] accepted and compared slice by slice, "
                       "otherwise raised-iff-the-model-refuses); the l1-ball operator's own output fed back also after the known move of a column inside the ball (zero-free columns); "
                       "a case is non-trivial if the tensor has more than one entry and is not all zero; distinct key = (operator, shape, class, kind, route)")
    static_thread.join()
    if "info" not in static_box:
        chk.broken.append({"what": "corr:C12-static did not complete", "detail": "the static-tie thread ended without a result"})
    chk.cov["static_dispatch_tie"] = static_box.get("info")
    for b in broken:
        chk.broken.append({"what": "correspondence corr:C12 shard not evaluated", "detail": b})
    for f in chk.findings:
        cid = (f.get("extra") or {}).get("cid")
        f["extra"]["model_agrees"] = bool(cid is not None and not broken and cid not in failing)
    for i in sorted(failing):
        chk.disagreement("corr:C12 (Model/Prox.v vs tensorly/tenalg/proximal.py)", meta[i])
        neighbourhood_search(chk, meta[i], rng)
    chk.assumptions = ["exact-arithmetic semantics: floating-point rounding is not modelled (bounded empirically by the toleranced comparison)",
                       "tl.norm / tl.solve / tl.truncated_svd are oracles: the norm and the SVD enter the model as rational tape values checked against their contracts "
                       "(s*s = sum of squares; U diag(s) V = M, U^T U = V V^T = I), the solve through the exact certificate sm_apply t x = v on the model's own elimination",
                       "np.argsort tie order is unspecified: hard-thresholding outputs are compared up to the choice among entries of equal magnitude",
                       "the sharp statements of feasibility / idempotence of procrustes and firm non-expansiveness of svd_thresholding assume the EXACT contract of the SVD "
                       "oracle while the per-case tape meets it to 1e-9 only (round 8: per-case certificates C12_procrustes_feasible / _nearest / _fixed_case_certified from the Boolean "
                       "procrustes_feasible_ok evaluated on the model's output, and the relaxed inequality C12_svt_firm_case_certified, need no such assumption); "
                       "optimality of svd_thresholding and the maximisation clause of procrustes do not assume it: "
                       "every case evaluates the Booleans svt_case_ok / procrustes_case_ok and the bounds svt_gap / procrustes_gap of C12_svt_case_certified / "
                       "C12_procrustes_case_certified in exact arithmetic (gap <= 1e-7 (t sum soft(s) + |M|^2 / 2), resp. <= 1e-7 sum s)",
                       "the dispatch table of proximal_operator is regenerated from the source by an ast translation on every run (corr:C12-static) and compared with "
                       "Model/ProxDispatch.pop_of inside Coq; the translator is harness code (trusted), fail-closed on constructs it does not recognise"]
    chk.trusted += ["reference solvers of the predicates (PAVA, bisection simplex projection, sorted top-k, numpy.linalg.svd) - search aids only"]
    return chk.finish(CLASSIFIERS)


def neighbourhood_search(chk, inp, rng):
    """a model/implementation disagreement: evaluate the property predicates on the case itself (more rounds) and on rescaled /
    sign-flipped / permuted neighbours, to turn the disagreement into a concrete failing input"""
    name, par, a, route = inp["op"], inp["param"], np.asarray(inp["tensor"], float), inp["route"]
    if name == "reject":
        return
    ep = entry_point(name, route)
    neigh = [a, -a, a[::-1].copy(), a * 0.5, np.abs(a), -np.abs(a)]
    for b in neigh:
        if not in_domain(name, par, b):
            continue
        st, out = C.call_impl(impl_call, name, b, par, route, timeout=60)
        if st != "ok" and name == "smoothness" and b.ndim > 2 and b.shape[-2] != b.shape[0] and str(out).startswith("ValueError"):
            continue
        if st != "ok":
            if out != "timeout":
                chk.finding(ep, {"op": name, "tensor": b, "param": par, "route": route}, f"the operator raised on a valid input: {out}", name + "_feasible")
            continue
        for pred, msg in predicates(name, par, b, np.asarray(out), route, rng, firm_rounds=10):
            chk.finding(ep, {"op": name, "tensor": b, "param": par, "route": route}, msg, pred, observed=np.asarray(out))


def replay(payload):
    if payload.get("kind") != "failing-input":
        print("replay file names a broken theorem/correspondence, not an input:", payload.get("theorem_or_correspondence"))
        return 1
    name, par, a, route = load_case(payload["inputs"])
    rng = random.Random(0)
    C.reset_backends()
    st, out = C.call_impl(impl_call, name, a, par, route, timeout=120)
    if st != "ok" and name == "smoothness" and a.ndim > 2:
        refused_as_coded = a.shape[-2] != a.shape[0] and str(out).startswith("ValueError")
        print("replay: smoothness on", a.shape, "raised", out, "->", "as the code documents" if refused_as_coded else "still failing"); return 0 if refused_as_coded else 1
    if st != "ok":
        print("replay: raised", out); return 1
    fails = predicates(name, par, a, np.asarray(out), route, rng, firm_rounds=20)
    print("replay:", name, route_label(route), "->", fails or "holds")
    return 1 if fails else 0
