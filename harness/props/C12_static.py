"""C12 static tie (corr:C12-static): the dispatch table of proximal_operator is REGENERATED from the current Python source on every run.

An `ast` translation of tensorly/tenalg/proximal.py::proximal_operator (early exit, the validate_constraints call, the if / elif chain on
the selected constraint name) and of the name tables of validate_constraints produces a Gallina definition `pop_of_src`; Coq then checks
  * pop_of_src = Model/ProxDispatch.pop_of   (for every kind, parameter, norm value; any carrier),
  * the registered names are exactly the twelve kinds of Model/Constraints.all_kinds (each once; the order is immaterial),
  * the end-to-end theorem prun_sound re-proved for the regenerated table.
Fail closed: any construct the translator does not recognise is reported as a broken tie, never ignored."""
import ast, os, subprocess, shutil
from harness import common as C

KIND = {"non_negative": "KNonNeg", "l1_reg": "KL1", "l2_reg": "KL2", "l2_square_reg": "KL2sq", "unimodality": "KUnimodal", "normalize": "KNormalize",
        "simplex": "KSimplex", "normalized_sparsity": "KNormSparsity", "soft_sparsity": "KSoftSparsity", "smoothness": "KSmooth",
        "monotonicity": "KMonotone", "hard_sparsity": "KHardSparsity"}


class Untranslatable(Exception):
    pass


def _name(n):
    return n.id if isinstance(n, ast.Name) else None


def _is_call(n, fname, attr_of=None):
    if not isinstance(n, ast.Call):
        return False
    f = n.func
    if attr_of is None:
        return isinstance(f, ast.Name) and f.id == fname
    return isinstance(f, ast.Attribute) and f.attr == fname and _name(f.value) == attr_of


def _args_are(call, names, kw=None):
    """positional arguments are exactly these Names; keywords exactly kw (name -> constant value)"""
    if [_name(a) for a in call.args] != list(names):
        return False
    got = {}
    for k in call.keywords:
        if k.arg is None or not isinstance(k.value, ast.Constant):
            return False
        got[k.arg] = k.value.value
    return got == (kw or {})


def translate_return(expr):
    """the Gallina pop term of one `return <expr>` of the dispatch chain"""
    tp = ("tensor", "parameter")
    if _is_call(expr, "clip", "tl") and _args_are(expr, ("tensor",), {"a_min": 0}):
        return "PNonneg"
    table = {"soft_thresholding": "PSoft (conv p)", "l2_prox": "PL2 (conv p) aux", "l2_square_prox": "PL2sq (conv p)", "simplex_prox": "PSimplex (conv p)",
             "normalized_sparsity_prox": "PNormSparsity (rank_bound p) aux", "soft_sparsity_prox": "PSoftSparsity (conv p)",
             "smoothness_prox": "PSmooth (conv p)", "hard_thresholding": "PHard (rank_bound p)"}
    for fn, term in table.items():
        if _is_call(expr, fn) and _args_are(expr, tp):
            return term
    if _is_call(expr, "unimodality_prox") and _args_are(expr, ("tensor",)):
        return "PUnimodal"
    if _is_call(expr, "monotonicity_prox"):
        if _args_are(expr, ("tensor",)) or _args_are(expr, ("tensor",), {"decreasing": False}):
            return "PMonotone false"
        if _args_are(expr, ("tensor",), {"decreasing": True}):
            return "PMonotone true"
    # tensor / tl.max(tl.abs(tensor))
    if isinstance(expr, ast.BinOp) and isinstance(expr.op, ast.Div) and _name(expr.left) == "tensor":
        r = expr.right
        if _is_call(r, "max", "tl") and not r.keywords and len(r.args) == 1 and _is_call(r.args[0], "abs", "tl") and _args_are(r.args[0], ("tensor",)):
            return "PNormalize"
    raise Untranslatable("return " + ast.unparse(expr))


def _func(tree, name):
    for n in tree.body:
        if isinstance(n, ast.FunctionDef) and n.name == name:
            return n
    raise Untranslatable(f"function {name} not found")


def _defaults(fn):
    a = fn.args
    if a.vararg or a.kwarg or a.kwonlyargs or a.posonlyargs:
        raise Untranslatable(f"{fn.name}: unexpected signature")
    names = [x.arg for x in a.args]
    ds = [None] * (len(names) - len(a.defaults)) + list(a.defaults)
    out = {}
    for nm, d in zip(names, ds):
        if d is not None and not isinstance(d, ast.Constant):
            raise Untranslatable(f"{fn.name}: default of {nm} is not a constant")
        out[nm] = ("<required>" if d is None else d.value)
    return names, out


def _body(fn):
    b = list(fn.body)
    if b and isinstance(b[0], ast.Expr) and isinstance(b[0].value, ast.Constant) and isinstance(b[0].value.value, str):
        b = b[1:]
    return b


def _returns_tensor(stmts):
    return len(stmts) == 1 and isinstance(stmts[0], ast.Return) and _name(stmts[0].value) == "tensor"


def extract(repo):
    """-> {"table": {keyword name: pop term}, "order": [names in registration order]}"""
    src = open(os.path.join(repo, "tensorly", "tenalg", "proximal.py")).read()
    tree = ast.parse(src)
    # ---- validate_constraints: the two parallel tables
    vc = _func(tree, "validate_constraints")
    vnames, vdef = _defaults(vc)
    lists = {}
    for st in _body(vc):
        if isinstance(st, ast.Assign) and len(st.targets) == 1 and _name(st.targets[0]) in ("constraints_list", "constraints_names"):
            if not isinstance(st.value, ast.List):
                raise Untranslatable(ast.unparse(st))
            key = _name(st.targets[0])
            if key in lists:
                raise Untranslatable(f"{key} assigned twice")
            lists[key] = st.value.elts
    if set(lists) != {"constraints_list", "constraints_names"}:
        raise Untranslatable("constraints_list / constraints_names tables not found")
    values = [_name(e) for e in lists["constraints_list"]]
    names = [e.value if isinstance(e, ast.Constant) else None for e in lists["constraints_names"]]
    if None in values or None in names or values != names:
        raise Untranslatable(f"constraints_list {values} and constraints_names {names} are not the same names in the same order")
    if sorted(vnames) != sorted(names + ["n_const", "order"]) or vdef["n_const"] != 1 or vdef["order"] != 0 or any(vdef[n] is not None for n in names):
        raise Untranslatable(f"validate_constraints signature / defaults: {vnames} {vdef}")
    # ---- proximal_operator
    po = _func(tree, "proximal_operator")
    pnames, pdef = _defaults(po)
    if pnames[:1] != ["tensor"] or sorted(pnames[1:]) != sorted(names + ["n_const", "order"]) or pdef["n_const"] != 1 or pdef["order"] != 0 or any(pdef[n] is not None for n in names):
        raise Untranslatable(f"proximal_operator signature / defaults: {pnames} {pdef}")
    body = _body(po)
    if len(body) != 3:
        raise Untranslatable(f"proximal_operator has {len(body)} statements, expected: early exit, validate_constraints call, dispatch chain")
    s0, s1, s2 = body
    # if n_const is None: return tensor
    ok0 = (isinstance(s0, ast.If) and not s0.orelse and isinstance(s0.test, ast.Compare) and _name(s0.test.left) == "n_const"
           and len(s0.test.ops) == 1 and isinstance(s0.test.ops[0], ast.Is) and isinstance(s0.test.comparators[0], ast.Constant)
           and s0.test.comparators[0].value is None and _returns_tensor(s0.body))
    if not ok0:
        raise Untranslatable(ast.unparse(s0))
    # constraint, parameter = validate_constraints(k=k, ..., n_const=n_const, order=order)
    ok1 = (isinstance(s1, ast.Assign) and len(s1.targets) == 1 and isinstance(s1.targets[0], ast.Tuple)
           and [_name(e) for e in s1.targets[0].elts] == ["constraint", "parameter"] and _is_call(s1.value, "validate_constraints")
           and not s1.value.args)
    if ok1:
        kws = {k.arg: _name(k.value) for k in s1.value.keywords}
        ok1 = kws == {n: n for n in names + ["n_const", "order"]}
    if not ok1:
        raise Untranslatable(ast.unparse(s1))
    # the chain
    table = {}
    node, first = s2, True
    while True:
        if not isinstance(node, ast.If):
            raise Untranslatable(ast.unparse(node)[:200])
        t = node.test
        if first:
            if not (isinstance(t, ast.Compare) and _name(t.left) == "constraint" and len(t.ops) == 1 and isinstance(t.ops[0], ast.Is)
                    and isinstance(t.comparators[0], ast.Constant) and t.comparators[0].value is None and _returns_tensor(node.body)):
                raise Untranslatable(ast.unparse(t))
            first = False
        else:
            if not (isinstance(t, ast.Compare) and _name(t.left) == "constraint" and len(t.ops) == 1 and isinstance(t.ops[0], ast.Eq)
                    and isinstance(t.comparators[0], ast.Constant) and isinstance(t.comparators[0].value, str)):
                raise Untranslatable(ast.unparse(t))
            nm = t.comparators[0].value
            if nm in table or nm not in KIND:
                raise Untranslatable(f"branch for {nm!r}: duplicate or unknown constraint name")
            if len(node.body) != 1 or not isinstance(node.body[0], ast.Return) or node.body[0].value is None:
                raise Untranslatable(ast.unparse(node.body[0])[:200])
            table[nm] = translate_return(node.body[0].value)
        if len(node.orelse) == 1 and isinstance(node.orelse[0], ast.If):
            node = node.orelse[0]
            continue
        if not (len(node.orelse) == 1 and isinstance(node.orelse[0], ast.Raise)):
            raise Untranslatable("the chain does not end with `else: raise`")
        break
    if set(table) != set(names):
        raise Untranslatable(f"dispatch chain covers {sorted(table)}, the names are {sorted(names)}")
    return {"table": table, "order": names}


# ----------------------------------------------------------------------------- closed-form operators: bodies regenerated from the source
def expr(node, env):
    """Gallina term (over an abstract record of field operations Op) of an element-wise Python expression"""
    if isinstance(node, ast.Name):
        if node.id not in env:
            raise Untranslatable(f"name {node.id}")
        return env[node.id]
    if isinstance(node, ast.Constant) and type(node.value) is int and node.value in (0, 1, 2):
        return {0: "(f0 Op)", 1: "(f1 Op)", 2: "(two Op)"}[node.value]
    if isinstance(node, ast.BinOp):
        ops = {ast.Add: "fadd", ast.Sub: "fsub", ast.Mult: "fmul", ast.Div: "fdiv"}
        if type(node.op) not in ops:
            raise Untranslatable(ast.unparse(node))
        return f"({ops[type(node.op)]} Op {expr(node.left, env)} {expr(node.right, env)})"
    if isinstance(node, ast.Call) and isinstance(node.func, ast.Attribute) and _name(node.func.value) == "tl":
        fn = node.func.attr
        if fn in ("sign", "abs") and len(node.args) == 1 and not node.keywords:
            return f"({'fsign' if fn == 'sign' else 'fabs'} Op {expr(node.args[0], env)})"
        if fn == "clip" and len(node.args) == 1 and [(k.arg, getattr(k.value, 'value', None)) for k in node.keywords] == [("a_min", 0)]:
            return f"(relu Op {expr(node.args[0], env)})"
    raise Untranslatable(ast.unparse(node))


def _single_return(fn):
    b = _body(fn)
    if len(b) != 1 or not isinstance(b[0], ast.Return) or b[0].value is None:
        raise Untranslatable(f"{fn.name}: body is not a single return")
    return b[0].value


def _argnames(fn, expected):
    names, _ = _defaults(fn)
    if names != list(expected):
        raise Untranslatable(f"{fn.name}: parameters {names}, expected {list(expected)}")


def extract_closed_forms(repo):
    """-> dict of Gallina terms for soft_thresholding, l2_square_prox, l2_prox (both branches), soft_sparsity_prox, normalized_sparsity_prox"""
    tree = ast.parse(open(os.path.join(repo, "tensorly", "tenalg", "proximal.py")).read())
    out = {}
    f = _func(tree, "soft_thresholding"); _argnames(f, ("tensor", "threshold"))
    out["soft1"] = expr(_single_return(f), {"tensor": "x", "threshold": "t"})
    f = _func(tree, "l2_square_prox"); _argnames(f, ("tensor", "regularizer"))
    out["l2sq"] = expr(_single_return(f), {"tensor": "x", "regularizer": "t"})
    # l2_prox: norm = tl.norm(tensor); if norm > regularizer: return <a>; return <b>
    f = _func(tree, "l2_prox"); _argnames(f, ("tensor", "regularizer"))
    b = _body(f)
    ok = (len(b) == 3 and isinstance(b[0], ast.Assign) and len(b[0].targets) == 1 and _name(b[0].targets[0]) == "norm"
          and _is_call(b[0].value, "norm", "tl") and _args_are(b[0].value, ("tensor",))
          and isinstance(b[1], ast.If) and not b[1].orelse and len(b[1].body) == 1 and isinstance(b[1].body[0], ast.Return)
          and isinstance(b[1].test, ast.Compare) and len(b[1].test.ops) == 1 and isinstance(b[1].test.ops[0], ast.Gt)
          and _name(b[1].test.left) == "norm" and _name(b[1].test.comparators[0]) == "regularizer" and isinstance(b[2], ast.Return))
    if not ok:
        raise Untranslatable("l2_prox: " + ast.unparse(f)[:300])
    env = {"tensor": "x", "regularizer": "t", "norm": "s"}
    out["l2_then"] = expr(b[1].body[0].value, env); out["l2_else"] = expr(b[2].value, env)
    # soft_sparsity_prox: simplex_prox(<e1(tensor)>, threshold) * <e2(tensor)>
    f = _func(tree, "soft_sparsity_prox"); _argnames(f, ("tensor", "threshold"))
    r = _single_return(f)
    ok = (isinstance(r, ast.BinOp) and isinstance(r.op, ast.Mult) and _is_call(r.left, "simplex_prox") and len(r.left.args) == 2
          and not r.left.keywords and _name(r.left.args[1]) == "threshold")
    if not ok:
        raise Untranslatable("soft_sparsity_prox: " + ast.unparse(r))
    out["ss_inner"] = expr(r.left.args[0], {"tensor": "x"}); out["ss_outer"] = expr(r.right, {"tensor": "x"})
    # normalized_sparsity_prox: tensor_hard = hard_thresholding(tensor, threshold); return tensor_hard / tl.norm(tensor_hard)
    f = _func(tree, "normalized_sparsity_prox"); _argnames(f, ("tensor", "threshold"))
    b = _body(f)
    ok = (len(b) == 2 and isinstance(b[0], ast.Assign) and len(b[0].targets) == 1 and _name(b[0].targets[0]) == "tensor_hard"
          and _is_call(b[0].value, "hard_thresholding") and _args_are(b[0].value, ("tensor", "threshold"))
          and isinstance(b[1], ast.Return) and isinstance(b[1].value, ast.BinOp) and isinstance(b[1].value.op, ast.Div)
          and _name(b[1].value.left) == "tensor_hard" and _is_call(b[1].value.right, "norm", "tl") and _args_are(b[1].value.right, ("tensor_hard",)))
    if not ok:
        raise Untranslatable("normalized_sparsity_prox: " + ast.unparse(f)[:300])
    return out


def coq_closed_forms(cf):
    return f"""
(* closed-form operators: bodies regenerated from the Python source, over an abstract record of field operations *)
Definition soft1_src {{F : Type}} (Op : fops F) (t x : F) : F := {cf['soft1']}.
Definition l2sq_src {{F : Type}} (Op : fops F) (t x : F) : F := {cf['l2sq']}.
Definition l2_then_src {{F : Type}} (Op : fops F) (s t x : F) : F := {cf['l2_then']}.
Definition l2_else_src {{F : Type}} (Op : fops F) (s t x : F) : F := {cf['l2_else']}.
Definition ss_inner_src {{F : Type}} (Op : fops F) (x : F) : F := {cf['ss_inner']}.
Definition ss_outer_src {{F : Type}} (Op : fops F) (x : F) : F := {cf['ss_outer']}.
Lemma soft1_src_ok : forall F (Op : fops F) t v, soft_thresholding Op t v = map (soft1_src Op t) v.
Proof. reflexivity. Qed.
Lemma soft_arr_src_ok : forall F (Op : fops F) ts v, soft_thresholding_arr Op ts v = map (fun tx => soft1_src Op (fst tx) (snd tx)) (combine ts v).
Proof. reflexivity. Qed.
Lemma l2sq_src_ok : forall F (Op : fops F) t v, l2_square_prox Op t v = map (l2sq_src Op t) v.
Proof. reflexivity. Qed.
Lemma l2_src_ok : forall F (Op : fops F) s t v, l2_prox_with Op s t v = if fltb Op t s then map (l2_then_src Op s t) v else map (l2_else_src Op s t) v.
Proof. reflexivity. Qed.
Lemma soft_sparsity_src_ok : forall F (Op : fops F) p v,
  soft_sparsity_prox Op p v = map (fun ab => fmul Op (fst ab) (ss_outer_src Op (snd ab))) (combine (simplex_prox Op p (map (ss_inner_src Op) v)) v).
Proof. reflexivity. Qed.
(* a theorem re-checked against the regenerated body: the regenerated soft-thresholding expression is the exact minimiser *)
Lemma soft1_src_optimal : forall t x z, (0 <= t)%R ->
  (t * Rabs (soft1_src Rops t x) + (soft1_src Rops t x - x) * (soft1_src Rops t x - x) / 2 <= t * Rabs z + (z - x) * (z - x) / 2)%R.
Proof. exact Proofs.ProxProofs.soft1_optimal. Qed.
"""


def coq_source(ex):
    arms = "\n".join(f"  | Constraints.{KIND[n]} => {ex['table'][n]}" for n in ex["order"])
    order = "; ".join("Constraints." + KIND[n] for n in ex["order"])
    return f"""From Coq Require Import List Reals QArith Qreals Bool.
From TLV Require Import Base.Ops Base.Tensor Model.Prox Model.Constraints Model.ProxDispatch Proofs.ProxProofs Proofs.ProxProofsMatrix Proofs.ProxProofsRun.
Import ListNotations.
(* regenerated from the Python source of proximal_operator / validate_constraints *)
Definition pop_of_src {{F : Type}} (conv : Q -> F) (k : Constraints.kind) (p : Q) (aux : F) : @pop F :=
  match k with
{arms}
  end.
Definition kinds_src : list Constraints.kind := [{order}].
Lemma pop_of_src_ok : forall F (conv : Q -> F) k p aux, pop_of_src conv k p aux = pop_of conv k p aux.
Proof. intros F conv k p aux. destruct k; reflexivity. Qed.
(* the registration order itself is immaterial (two constraints meeting on a mode raise whatever the order): same names, each once *)
Lemma kinds_src_ok : length kinds_src = length Constraints.all_kinds /\\
  forallb (fun k => existsb (Constraints.kind_eqb k) kinds_src) Constraints.all_kinds = true.
Proof. split; reflexivity. Qed.
(* the end-to-end theorem, re-checked for the regenerated table *)
Lemma prun_sound_src : forall k p aux nr nc X, (1 <= nr)%nat -> (1 <= nc)%nat -> rect nr nc X ->
  prox_spec k (Q2R p) (rank_bound p) aux (prun Rops (pop_of_src Q2R k p aux) X) X.
Proof. intros k p aux nr nc X Hn Hc HX. rewrite pop_of_src_ok. exact (prun_sound k p aux nr nc X Hn Hc HX). Qed.
Goal True. idtac "@@C12-STATIC-OK". exact I. Qed.
"""


def run_static(chk):
    """returns a dict for the evidence; appends to chk.broken when the tie is broken"""
    info = {"source": "tensorly/tenalg/proximal.py::proximal_operator, validate_constraints (ast)"}
    try:
        ex = extract(C.REPO)
    except Untranslatable as e:
        chk.broken.append({"what": "corr:C12-static: the source of proximal_operator / validate_constraints is no longer the shape the dispatch model transcribes",
                           "detail": str(e)[:500]})
        info["status"] = "untranslatable"
        return info
    except (OSError, SyntaxError) as e:
        chk.broken.append({"what": "corr:C12-static: source not readable", "detail": f"{type(e).__name__}: {e}"[:500]})
        info["status"] = "unreadable"
        return info
    d = os.path.join(C.BUILD, "cases", "C12", f"static_{os.getpid()}")
    shutil.rmtree(d, ignore_errors=True); os.makedirs(d, exist_ok=True)
    fn = os.path.join(d, "Static.v")
    with open(fn, "w") as f:
        f.write(coq_source(ex))
    p = subprocess.run(["timeout", "600", "coqc", "-w", "none", "-R", os.path.join(C.COQ, "theories"), "TLV", fn], capture_output=True, text=True, cwd=d)
    if p.returncode != 0 or "@@C12-STATIC-OK" not in p.stdout:
        chk.broken.append({"what": "corr:C12-static: the dispatch table regenerated from the source differs from Model/ProxDispatch.pop_of (or the name order from "
                                   "Model/Constraints.all_kinds)", "detail": {"table": ex["table"], "order": ex["order"], "stderr": p.stderr[-1500:]}})
        info["status"] = "mismatch"
    else:
        info["status"] = "ok"; info["branches"] = len(ex["table"])
        shutil.rmtree(d, ignore_errors=True)
    chk.checker_cmds.append("coqc on the dispatch table regenerated from the source (corr:C12-static): pop_of_src = pop_of, prun_sound_src")
    info["closed_forms"] = run_closed_forms(chk, d)
    return info


HEAD = """From Coq Require Import List Reals QArith Qreals Bool.
From TLV Require Import Base.Ops Base.Tensor Model.Prox Proofs.ProxProofs.
Import ListNotations.
"""


def coq_grid(cf):
    """second stage: the regenerated bodies differ syntactically from the model's; compare them as functions on a grid of rationals (t >= 0, s > 0)"""
    defs = coq_closed_forms(cf).split("Lemma soft1_src_ok")[0]
    return HEAD + defs + """
Definition ts : list Q := [0; (1#2); 1; 3]%Q.
Definition xs : list Q := [-3; -1; (-1#2); 0; (1#2); 1; 3]%Q.
Definition ss : list Q := [(1#2); 1; 3; 5]%Q.
Definition same (a b : list Q) : bool := Nat.eqb (length a) (length b) && forallb (fun p : Q * Q => Qeq_bool (fst p) (snd p)) (combine a b).
Definition grid_ok : bool :=
  forallb (fun t => same (soft_thresholding Qops t xs) (map (soft1_src Qops t) xs) && same (l2_square_prox Qops t xs) (map (l2sq_src Qops t) xs)
    && forallb (fun s => same (l2_prox_with Qops s t xs) (if fltb Qops t s then map (l2_then_src Qops s t) xs else map (l2_else_src Qops s t) xs)) ss
    && same (soft_sparsity_prox Qops (Qplus t 1) xs)
            (map (fun ab => fmul Qops (fst ab) (ss_outer_src Qops (snd ab))) (combine (simplex_prox Qops (Qplus t 1) (map (ss_inner_src Qops) xs)) xs))) ts.
Goal grid_ok = true. Proof. vm_compute. reflexivity. Qed.
Goal True. idtac "@@C12-GRID-OK". exact I. Qed.
"""


def run_closed_forms(chk, d):
    """the bodies of the closed-form operators regenerated from the source: identical to the model's definitions (Coq: reflexivity over an abstract
    record of operations), or - after a refactoring - equal as functions on a grid; only a semantic difference is a broken tie.  A source shape the
    translator does not recognise is reported here (the tie for these operators then rests on the per-run dynamic correspondence alone)."""
    try:
        cf = extract_closed_forms(C.REPO)
    except Untranslatable as e:
        return {"status": "not regenerated: source shape not recognised (dynamic correspondence only)", "detail": str(e)[:300]}
    os.makedirs(d, exist_ok=True)
    def coqc(name, text, marker):
        fn = os.path.join(d, name)
        with open(fn, "w") as f:
            f.write(text)
        p = subprocess.run(["timeout", "600", "coqc", "-w", "none", "-R", os.path.join(C.COQ, "theories"), "TLV", fn], capture_output=True, text=True, cwd=d)
        return p.returncode == 0 and marker in p.stdout, p.stderr[-1200:]
    ok, err = coqc("Closed.v", HEAD + coq_closed_forms(cf) + 'Goal True. idtac "@@C12-CLOSED-OK". exact I. Qed.\n', "@@C12-CLOSED-OK")
    chk.checker_cmds.append("coqc on the closed-form operator bodies regenerated from the source (corr:C12-static)")
    if ok:
        shutil.rmtree(d, ignore_errors=True)
        return {"status": "identical to the model's definitions", "bodies": sorted(cf)}
    ok2, err2 = coqc("Grid.v", coq_grid(cf), "@@C12-GRID-OK")
    if ok2:
        shutil.rmtree(d, ignore_errors=True)
        return {"status": "differ syntactically from the model's definitions, equal on the grid", "bodies": sorted(cf)}
    chk.broken.append({"what": "corr:C12-static: a closed-form operator body regenerated from the source differs from Model/Prox.v as a function",
                       "detail": {"bodies": cf, "stderr": err[-600:], "grid_stderr": err2[-600:]}})
    return {"status": "mismatch"}
