"""C12 static tie (corr:C12-static): the dispatch table of proximal_operator is REGENERATED from the current Python source on every run.

An `ast` translation of tensorly/tenalg/proximal.py::proximal_operator (early exit, the validate_constraints call, the if / elif chain on
the selected constraint name) and of the name tables of validate_constraints produces a Gallina definition `pop_of_src`; Coq then checks
  * pop_of_src = Model/ProxDispatch.pop_of   (for every kind, parameter, norm value; any carrier),
  * the registered names are exactly the twelve kinds of Model/Constraints.all_kinds (each once; the order is immaterial),
  * the end-to-end theorem prun_sound re-proved for the regenerated table.
Fail closed: any construct the translator does not recognise is reported as a broken tie, never ignored."""
import ast, os, subprocess, shutil
from harness import common as C

KIND = {"non_negative": "KNonNeg", "l1_reg": "KL1", "l2_reg": "KL2", "l2_square_reg": "KL2sq", "unimodality": "KUnimodal", "normalize": "KNormalize",
        "simplex": "KSimplex", "normalized_sparsity": "KNormSparsity", "soft_sparsity": "KSoftSparsity", "smoothness": "KSmooth",
        "monotonicity": "KMonotone", "hard_sparsity": "KHardSparsity"}


class Untranslatable(Exception):
    pass


def _name(n):
    return n.id if isinstance(n, ast.Name) else None


def _is_call(n, fname, attr_of=None):
    if not isinstance(n, ast.Call):
        return False
    f = n.func
    if attr_of is None:
        return isinstance(f, ast.Name) and f.id == fname
    return isinstance(f, ast.Attribute) and f.attr == fname and _name(f.value) == attr_of


def _args_are(call, names, kw=None):
    """positional arguments are exactly these Names; keywords exactly kw (name -> constant value)"""
    if [_name(a) for a in call.args] != list(names):
        return False
    got = {}
    for k in call.keywords:
        if k.arg is None or not isinstance(k.value, ast.Constant):
            return False
        got[k.arg] = k.value.value
    return got == (kw or {})


def translate_return(expr):
    """the Gallina pop term of one `return <expr>` of the dispatch chain"""
    tp = ("tensor", "parameter")
    if _is_call(expr, "clip", "tl") and _args_are(expr, ("tensor",), {"a_min": 0}):
        return "PNonneg"
    table = {"soft_thresholding": "PSoft (conv p)", "l2_prox": "PL2 (conv p) aux", "l2_square_prox": "PL2sq (conv p)", "simplex_prox": "PSimplex (conv p)",
             "normalized_sparsity_prox": "PNormSparsity (rank_bound p) aux", "soft_sparsity_prox": "PSoftSparsity (conv p)",
             "smoothness_prox": "PSmooth (conv p)", "hard_thresholding": "PHard (rank_bound p)"}
    for fn, term in table.items():
        if _is_call(expr, fn) and _args_are(expr, tp):
            return term
    if _is_call(expr, "unimodality_prox") and _args_are(expr, ("tensor",)):
        return "PUnimodal"
    if _is_call(expr, "monotonicity_prox"):
        if _args_are(expr, ("tensor",)) or _args_are(expr, ("tensor",), {"decreasing": False}):
            return "PMonotone false"
        if _args_are(expr, ("tensor",), {"decreasing": True}):
            return "PMonotone true"
    # tensor / tl.max(tl.abs(tensor))
    if isinstance(expr, ast.BinOp) and isinstance(expr.op, ast.Div) and _name(expr.left) == "tensor":
        r = expr.right
        if _is_call(r, "max", "tl") and not r.keywords and len(r.args) == 1 and _is_call(r.args[0], "abs", "tl") and _args_are(r.args[0], ("tensor",)):
            return "PNormalize"
    raise Untranslatable("return " + ast.unparse(expr))


def _func(tree, name):
    for n in tree.body:
        if isinstance(n, ast.FunctionDef) and n.name == name:
            return n
    raise Untranslatable(f"function {name} not found")


def _defaults(fn):
    a = fn.args
    if a.vararg or a.kwarg or a.kwonlyargs or a.posonlyargs:
        raise Untranslatable(f"{fn.name}: unexpected signature")
    names = [x.arg for x in a.args]
    ds = [None] * (len(names) - len(a.defaults)) + list(a.defaults)
    out = {}
    for nm, d in zip(names, ds):
        if d is not None and not isinstance(d, ast.Constant):
            raise Untranslatable(f"{fn.name}: default of {nm} is not a constant")
        out[nm] = ("<required>" if d is None else d.value)
    return names, out


def _body(fn):
    b = list(fn.body)
    if b and isinstance(b[0], ast.Expr) and isinstance(b[0].value, ast.Constant) and isinstance(b[0].value.value, str):
        b = b[1:]
    return b


def _returns_tensor(stmts):
    return len(stmts) == 1 and isinstance(stmts[0], ast.Return) and _name(stmts[0].value) == "tensor"


def extract(repo):
    """-> {"table": {keyword name: pop term}, "order": [names in registration order]}"""
    src = open(os.path.join(repo, "tensorly", "tenalg", "proximal.py")).read()
    tree = ast.parse(src)
    # ---- validate_constraints: the two parallel tables
    vc = _func(tree, "validate_constraints")
    vnames, vdef = _defaults(vc)
    lists = {}
    for st in _body(vc):
        if isinstance(st, ast.Assign) and len(st.targets) == 1 and _name(st.targets[0]) in ("constraints_list", "constraints_names"):
            if not isinstance(st.value, ast.List):
                raise Untranslatable(ast.unparse(st))
            key = _name(st.targets[0])
            if key in lists:
                raise Untranslatable(f"{key} assigned twice")
            lists[key] = st.value.elts
    if set(lists) != {"constraints_list", "constraints_names"}:
        raise Untranslatable("constraints_list / constraints_names tables not found")
    values = [_name(e) for e in lists["constraints_list"]]
    names = [e.value if isinstance(e, ast.Constant) else None for e in lists["constraints_names"]]
    if None in values or None in names or values != names:
        raise Untranslatable(f"constraints_list {values} and constraints_names {names} are not the same names in the same order")
    if sorted(vnames) != sorted(names + ["n_const", "order"]) or vdef["n_const"] != 1 or vdef["order"] != 0 or any(vdef[n] is not None for n in names):
        raise Untranslatable(f"validate_constraints signature / defaults: {vnames} {vdef}")
    # ---- proximal_operator
    po = _func(tree, "proximal_operator")
    pnames, pdef = _defaults(po)
    if pnames[:1] != ["tensor"] or sorted(pnames[1:]) != sorted(names + ["n_const", "order"]) or pdef["n_const"] != 1 or pdef["order"] != 0 or any(pdef[n] is not None for n in names):
        raise Untranslatable(f"proximal_operator signature / defaults: {pnames} {pdef}")
    body = _body(po)
    if len(body) != 3:
        raise Untranslatable(f"proximal_operator has {len(body)} statements, expected: early exit, validate_constraints call, dispatch chain")
    s0, s1, s2 = body
    # if n_const is None: return tensor
    ok0 = (isinstance(s0, ast.If) and not s0.orelse and isinstance(s0.test, ast.Compare) and _name(s0.test.left) == "n_const"
           and len(s0.test.ops) == 1 and isinstance(s0.test.ops[0], ast.Is) and isinstance(s0.test.comparators[0], ast.Constant)
           and s0.test.comparators[0].value is None and _returns_tensor(s0.body))
    if not ok0:
        raise Untranslatable(ast.unparse(s0))
    # constraint, parameter = validate_constraints(k=k, ..., n_const=n_const, order=order)
    ok1 = (isinstance(s1, ast.Assign) and len(s1.targets) == 1 and isinstance(s1.targets[0], ast.Tuple)
           and [_name(e) for e in s1.targets[0].elts] == ["constraint", "parameter"] and _is_call(s1.value, "validate_constraints")
           and not s1.value.args)
    if ok1:
        kws = {k.arg: _name(k.value) for k in s1.value.keywords}
        ok1 = kws == {n: n for n in names + ["n_const", "order"]}
    if not ok1:
        raise Untranslatable(ast.unparse(s1))
    # the chain
    table = {}
    node, first = s2, True
    while True:
        if not isinstance(node, ast.If):
            raise Untranslatable(ast.unparse(node)[:200])
        t = node.test
        if first:
            if not (isinstance(t, ast.Compare) and _name(t.left) == "constraint" and len(t.ops) == 1 and isinstance(t.ops[0], ast.Is)
                    and isinstance(t.comparators[0], ast.Constant) and t.comparators[0].value is None and _returns_tensor(node.body)):
                raise Untranslatable(ast.unparse(t))
            first = False
        else:
            if not (isinstance(t, ast.Compare) and _name(t.left) == "constraint" and len(t.ops) == 1 and isinstance(t.ops[0], ast.Eq)
                    and isinstance(t.comparators[0], ast.Constant) and isinstance(t.comparators[0].value, str)):
                raise Untranslatable(ast.unparse(t))
            nm = t.comparators[0].value
            if nm in table or nm not in KIND:
                raise Untranslatable(f"branch for {nm!r}: duplicate or unknown constraint name")
            if len(node.body) != 1 or not isinstance(node.body[0], ast.Return) or node.body[0].value is None:
                raise Untranslatable(ast.unparse(node.body[0])[:200])
            table[nm] = translate_return(node.body[0].value)
        if len(node.orelse) == 1 and isinstance(node.orelse[0], ast.If):
            node = node.orelse[0]
            continue
        if not (len(node.orelse) == 1 and isinstance(node.orelse[0], ast.Raise)):
            raise Untranslatable("the chain does not end with `else: raise`")
        break
    if set(table) != set(names):
        raise Untranslatable(f"dispatch chain covers {sorted(table)}, the names are {sorted(names)}")
    return {"table": table, "order": names}


# ----------------------------------------------------------------------------- closed-form operators: bodies regenerated from the source
def expr(node, env):
    """Gallina term (over an abstract record of field operations Op) of an element-wise Python expression"""
    if isinstance(node, ast.Name):
        if node.id not in env:
            raise Untranslatable(f"name {node.id}")
        return env[node.id]
    if isinstance(node, ast.Constant) and type(node.value) is int and node.value in (0, 1, 2):
        return {0: "(f0 Op)", 1: "(f1 Op)", 2: "(two Op)"}[node.value]
    if isinstance(node, ast.BinOp):
        ops = {ast.Add: "fadd", ast.Sub: "fsub", ast.Mult: "fmul", ast.Div: "fdiv"}
        if type(node.op) not in ops:
            raise Untranslatable(ast.unparse(node))
        return f"({ops[type(node.op)]} Op {expr(node.left, env)} {expr(node.right, env)})"
    if isinstance(node, ast.Call) and isinstance(node.func, ast.Attribute) and _name(node.func.value) == "tl":
        fn = node.func.attr
        if fn in ("sign", "abs") and len(node.args) == 1 and not node.keywords:
            return f"({'fsign' if fn == 'sign' else 'fabs'} Op {expr(node.args[0], env)})"
        if fn == "clip" and len(node.args) == 1 and [(k.arg, getattr(k.value, 'value', None)) for k in node.keywords] == [("a_min", 0)]:
            return f"(relu Op {expr(node.args[0], env)})"
    raise Untranslatable(ast.unparse(node))


def _single_return(fn):
    b = _body(fn)
    if len(b) != 1 or not isinstance(b[0], ast.Return) or b[0].value is None:
        raise Untranslatable(f"{fn.name}: body is not a single return")
    return b[0].value


def _argnames(fn, expected):
    names, _ = _defaults(fn)
    if names != list(expected):
        raise Untranslatable(f"{fn.name}: parameters {names}, expected {list(expected)}")


def extract_closed_forms(repo):
    """-> dict of Gallina terms for soft_thresholding, l2_square_prox, l2_prox (both branches), soft_sparsity_prox, normalized_sparsity_prox"""
    tree = ast.parse(open(os.path.join(repo, "tensorly", "tenalg", "proximal.py")).read())
    out = {}
    f = _func(tree, "soft_thresholding"); _argnames(f, ("tensor", "threshold"))
    out["soft1"] = expr(_single_return(f), {"tensor": "x", "threshold": "t"})
    f = _func(tree, "l2_square_prox"); _argnames(f, ("tensor", "regularizer"))
    out["l2sq"] = expr(_single_return(f), {"tensor": "x", "regularizer": "t"})
    # l2_prox: norm = tl.norm(tensor); if norm > regularizer: return <a>; return <b>
    f = _func(tree, "l2_prox"); _argnames(f, ("tensor", "regularizer"))
    b = _body(f)
    ok = (len(b) == 3 and isinstance(b[0], ast.Assign) and len(b[0].targets) == 1 and _name(b[0].targets[0]) == "norm"
          and _is_call(b[0].value, "norm", "tl") and _args_are(b[0].value, ("tensor",))
          and isinstance(b[1], ast.If) and not b[1].orelse and len(b[1].body) == 1 and isinstance(b[1].body[0], ast.Return)
          and isinstance(b[1].test, ast.Compare) and len(b[1].test.ops) == 1 and isinstance(b[1].test.ops[0], ast.Gt)
          and _name(b[1].test.left) == "norm" and _name(b[1].test.comparators[0]) == "regularizer" and isinstance(b[2], ast.Return))
    if not ok:
        raise Untranslatable("l2_prox: " + ast.unparse(f)[:300])
    env = {"tensor": "x", "regularizer": "t", "norm": "s"}
    out["l2_then"] = expr(b[1].body[0].value, env); out["l2_else"] = expr(b[2].value, env)
    # soft_sparsity_prox: simplex_prox(<e1(tensor)>, threshold) * <e2(tensor)>
    f = _func(tree, "soft_sparsity_prox"); _argnames(f, ("tensor", "threshold"))
    r = _single_return(f)
    ok = (isinstance(r, ast.BinOp) and isinstance(r.op, ast.Mult) and _is_call(r.left, "simplex_prox") and len(r.left.args) == 2
          and not r.left.keywords and _name(r.left.args[1]) == "threshold")
    if not ok:
        raise Untranslatable("soft_sparsity_prox: " + ast.unparse(r))
    out["ss_inner"] = expr(r.left.args[0], {"tensor": "x"}); out["ss_outer"] = expr(r.right, {"tensor": "x"})
    # normalized_sparsity_prox: tensor_hard = hard_thresholding(tensor, threshold); return tensor_hard / tl.norm(tensor_hard)
    f = _func(tree, "normalized_sparsity_prox"); _argnames(f, ("tensor", "threshold"))
    b = _body(f)
    ok = (len(b) == 2 and isinstance(b[0], ast.Assign) and len(b[0].targets) == 1 and _name(b[0].targets[0]) == "tensor_hard"
          and _is_call(b[0].value, "hard_thresholding") and _args_are(b[0].value, ("tensor", "threshold"))
          and isinstance(b[1], ast.Return) and isinstance(b[1].value, ast.BinOp) and isinstance(b[1].value.op, ast.Div)
          and _name(b[1].value.left) == "tensor_hard" and _is_call(b[1].value.right, "norm", "tl") and _args_are(b[1].value.right, ("tensor_hard",)))
    if not ok:
        raise Untranslatable("normalized_sparsity_prox: " + ast.unparse(f)[:300])
    return out


def coq_closed_forms(cf):
    return f"""
(* closed-form operators: bodies regenerated from the Python source, over an abstract record of field operations *)
Definition soft1_src {{F : Type}} (Op : fops F) (t x : F) : F := {cf['soft1']}.
Definition l2sq_src {{F : Type}} (Op : fops F) (t x : F) : F := {cf['l2sq']}.
Definition l2_then_src {{F : Type}} (Op : fops F) (s t x : F) : F := {cf['l2_then']}.
Definition l2_else_src {{F : Type}} (Op : fops F) (s t x : F) : F := {cf['l2_else']}.
Definition ss_inner_src {{F : Type}} (Op : fops F) (x : F) : F := {cf['ss_inner']}.
Definition ss_outer_src {{F : Type}} (Op : fops F) (x : F) : F := {cf['ss_outer']}.
Lemma soft1_src_ok : forall F (Op : fops F) t v, soft_thresholding Op t v = map (soft1_src Op t) v.
Proof. reflexivity. Qed.
Lemma soft_arr_src_ok : forall F (Op : fops F) ts v, soft_thresholding_arr Op ts v = map (fun tx => soft1_src Op (fst tx) (snd tx)) (combine ts v).
Proof. reflexivity. Qed.
Lemma l2sq_src_ok : forall F (Op : fops F) t v, l2_square_prox Op t v = map (l2sq_src Op t) v.
Proof. reflexivity. Qed.
Lemma l2_src_ok : forall F (Op : fops F) s t v, l2_prox_with Op s t v = if fltb Op t s then map (l2_then_src Op s t) v else map (l2_else_src Op s t) v.
Proof. reflexivity. Qed.
Lemma soft_sparsity_src_ok : forall F (Op : fops F) p v,
  soft_sparsity_prox Op p v = map (fun ab => fmul Op (fst ab) (ss_outer_src Op (snd ab))) (combine (simplex_prox Op p (map (ss_inner_src Op) v)) v).
Proof. reflexivity. Qed.
(* a theorem re-checked against the regenerated body: the regenerated soft-thresholding expression is the exact minimiser *)
Lemma soft1_src_optimal : forall t x z, (0 <= t)%R ->
  (t * Rabs (soft1_src Rops t x) + (soft1_src Rops t x - x) * (soft1_src Rops t x - x) / 2 <= t * Rabs z + (z - x) * (z - x) / 2)%R.
Proof. exact Proofs.ProxProofs.soft1_optimal. Qed.
"""


def coq_source(ex):
    arms = "\n".join(f"  | Constraints.{KIND[n]} => {ex['table'][n]}" for n in ex["order"])
    order = "; ".join("Constraints." + KIND[n] for n in ex["order"])
    return f"""From Coq Require Import List Reals QArith Qreals Bool.
From TLV Require Import Base.Ops Base.Tensor Model.Prox Model.Constraints Model.ProxDispatch Proofs.ProxProofs Proofs.ProxProofsMatrix Proofs.ProxProofsRun.
Import ListNotations.
(* regenerated from the Python source of proximal_operator / validate_constraints *)
Definition pop_of_src {{F : Type}} (conv : Q -> F) (k : Constraints.kind) (p : Q) (aux : F) : @pop F :=
  match k with
{arms}
  end.
Definition kinds_src : list Constraints.kind := [{order}].
Lemma pop_of_src_ok : forall F (conv : Q -> F) k p aux, pop_of_src conv k p aux = pop_of conv k p aux.
Proof. intros F conv k p aux. destruct k; reflexivity. Qed.
(* the registration order itself is immaterial (two constraints meeting on a mode raise whatever the order): same names, each once *)
Lemma kinds_src_ok : length kinds_src = length Constraints.all_kinds /\\
  forallb (fun k => existsb (Constraints.kind_eqb k) kinds_src) Constraints.all_kinds = true.
Proof. split; reflexivity. Qed.
(* the end-to-end theorem, re-checked for the regenerated table *)
Lemma prun_sound_src : forall k p aux nr nc X, (1 <= nr)%nat -> (1 <= nc)%nat -> rect nr nc X ->
  prox_spec k (Q2R p) (rank_bound p) aux (prun Rops (pop_of_src Q2R k p aux) X) X.
Proof. intros k p aux nr nc X Hn Hc HX. rewrite pop_of_src_ok. exact (prun_sound k p aux nr nc X Hn Hc HX). Qed.
Goal True. idtac "@@C12-STATIC-OK". exact I. Qed.
"""


def run_static(chk):
    """returns a dict for the evidence; appends to chk.broken when the tie is broken"""
    info = {"source": "tensorly/tenalg/proximal.py::proximal_operator, validate_constraints (ast)"}
    try:
        ex = extract(C.REPO)
    except Untranslatable as e:
        chk.broken.append({"what": "corr:C12-static: the source of proximal_operator / validate_constraints is no longer the shape the dispatch model transcribes",
                           "detail": str(e)[:500]})
        info["status"] = "untranslatable"
        return info
    except (OSError, SyntaxError) as e:
        chk.broken.append({"what": "corr:C12-static: source not readable", "detail": f"{type(e).__name__}: {e}"[:500]})
        info["status"] = "unreadable"
        return info
    d = os.path.join(C.BUILD, "cases", "C12", f"static_{os.getpid()}")
    shutil.rmtree(d, ignore_errors=True); os.makedirs(d, exist_ok=True)
    fn = os.path.join(d, "Static.v")
    with open(fn, "w") as f:
        f.write(coq_source(ex))
    p = subprocess.run(["timeout", "600", "coqc", "-w", "none", "-R", os.path.join(C.COQ, "theories"), "TLV", fn], capture_output=True, text=True, cwd=d)
    if p.returncode != 0 or "@@C12-STATIC-OK" not in p.stdout:
        chk.broken.append({"what": "corr:C12-static: the dispatch table regenerated from the source differs from Model/ProxDispatch.pop_of (or the name order from "
                                   "Model/Constraints.all_kinds)", "detail": {"table": ex["table"], "order": ex["order"], "stderr": p.stderr[-1500:]}})
        info["status"] = "mismatch"
    else:
        info["status"] = "ok"; info["branches"] = len(ex["table"])
        shutil.rmtree(d, ignore_errors=True)
    chk.checker_cmds.append("coqc on the dispatch table regenerated from the source (corr:C12-static): pop_of_src = pop_of, prun_sound_src")
    info["closed_forms"] = run_closed_forms(chk, d)
    info["array_programs"] = run_array_programs(chk, d + "_arr")
    return info


HEAD = """From Coq Require Import List Reals QArith Qreals Bool.
From TLV Require Import Base.Ops Base.Tensor Model.Prox Proofs.ProxProofs.
Import ListNotations.
"""


def coq_grid(cf):
    """second stage: the regenerated bodies differ syntactically from the model's; compare them as functions on a grid of rationals (t >= 0, s > 0)"""
    defs = coq_closed_forms(cf).split("Lemma soft1_src_ok")[0]
    return HEAD + defs + """
Definition ts : list Q := [0; (1#2); 1; 3]%Q.
Definition xs : list Q := [-3; -1; (-1#2); 0; (1#2); 1; 3]%Q.
Definition ss : list Q := [(1#2); 1; 3; 5]%Q.
Definition same (a b : list Q) : bool := Nat.eqb (length a) (length b) && forallb (fun p : Q * Q => Qeq_bool (fst p) (snd p)) (combine a b).
Definition grid_ok : bool :=
  forallb (fun t => same (soft_thresholding Qops t xs) (map (soft1_src Qops t) xs) && same (l2_square_prox Qops t xs) (map (l2sq_src Qops t) xs)
    && forallb (fun s => same (l2_prox_with Qops s t xs) (if fltb Qops t s then map (l2_then_src Qops s t) xs else map (l2_else_src Qops s t) xs)) ss
    && same (soft_sparsity_prox Qops (Qplus t 1) xs)
            (map (fun ab => fmul Qops (fst ab) (ss_outer_src Qops (snd ab))) (combine (simplex_prox Qops (Qplus t 1) (map (ss_inner_src Qops) xs)) xs))) ts.
Goal grid_ok = true. Proof. vm_compute. reflexivity. Qed.
Goal True. idtac "@@C12-GRID-OK". exact I. Qed.
"""


def run_closed_forms(chk, d):
    """the bodies of the closed-form operators regenerated from the source: identical to the model's definitions (Coq: reflexivity over an abstract
    record of operations), or - after a refactoring - equal as functions on a grid; only a semantic difference is a broken tie.  A source shape the
    translator does not recognise is reported here (the tie for these operators then rests on the per-run dynamic correspondence alone)."""
    try:
        cf = extract_closed_forms(C.REPO)
    except Untranslatable as e:
        return {"status": "not regenerated: source shape not recognised (dynamic correspondence only)", "detail": str(e)[:300]}
    os.makedirs(d, exist_ok=True)
    def coqc(name, text, marker):
        fn = os.path.join(d, name)
        with open(fn, "w") as f:
            f.write(text)
        p = subprocess.run(["timeout", "600", "coqc", "-w", "none", "-R", os.path.join(C.COQ, "theories"), "TLV", fn], capture_output=True, text=True, cwd=d)
        return p.returncode == 0 and marker in p.stdout, p.stderr[-1200:]
    ok, err = coqc("Closed.v", HEAD + coq_closed_forms(cf) + 'Goal True. idtac "@@C12-CLOSED-OK". exact I. Qed.\n', "@@C12-CLOSED-OK")
    chk.checker_cmds.append("coqc on the closed-form operator bodies regenerated from the source (corr:C12-static)")
    if ok:
        shutil.rmtree(d, ignore_errors=True)
        return {"status": "identical to the model's definitions", "bodies": sorted(cf)}
    ok2, err2 = coqc("Grid.v", coq_grid(cf), "@@C12-GRID-OK")
    if ok2:
        shutil.rmtree(d, ignore_errors=True)
        return {"status": "differ syntactically from the model's definitions, equal on the grid", "bodies": sorted(cf)}
    chk.broken.append({"what": "corr:C12-static: a closed-form operator body regenerated from the source differs from Model/Prox.v as a function",
                       "detail": {"bodies": cf, "stderr": err[-600:], "grid_stderr": err2[-600:]}})
    return {"status": "mismatch"}


# ----------------------------------------------------------------------------- array programs: bodies regenerated from the source (round 7)
# svd_thresholding, procrustes (identical to the model: reflexivity), hard_thresholding, simplex_prox and monotonicity_prox (one column; the loops are
# translated to fold / map form) as Gallina terms over a few array primitives defined beside them (stable argsort, sort, cumulative sum, wrap-around
# indexing, slices, running updates); Coq compares each regenerated program with the definition of Model/Prox.v on an exhaustive grid of short rational
# vectors (incl. ties).  Fail closed: a statement or expression the translator does not recognise is a broken tie.
PRIMS = """
Section Prims.
Context {F : Type} (Op : fops F).
Fixpoint p_ins (lt : nat -> nat -> bool) (a : nat) (l : list nat) : list nat :=
  match l with [] => [a] | b :: r => if lt a b then a :: b :: r else b :: p_ins lt a r end.
(* stable ascending argsort (NumPy's argsort on tie-free keys; among equal keys the earlier position first) *)
Definition p_argsort_by (lt : nat -> nat -> bool) (n : nat) : list nat := fold_left (fun acc a => p_ins lt a acc) (seq 0 n) [].
Definition p_argsort (v : list F) : list nat := p_argsort_by (fun a b => fltb Op (nth a v (f0 Op)) (nth b v (f0 Op))) (length v).
Definition p_argsort_nat (v : list nat) : list nat := p_argsort_by (fun a b => Nat.ltb (nth a v O) (nth b v O)) (length v).
Definition p_sort (v : list F) : list F := map (fun i => nth i v (f0 Op)) (p_argsort v).
Definition p_zip (f : F -> F -> F) (a b : list F) : list F := map (fun xy : F * F => f (fst xy) (snd xy)) (combine a b).
Definition p_gt (a b : list F) : list bool := map (fun xy : F * F => fltb Op (snd xy) (fst xy)) (combine a b).
Definition p_count (m : list bool) : nat := length (filter (fun b : bool => b) m).
(* Python indexing l[i] with a possibly negative i *)
Definition p_index (l : list F) (i : Z) : F :=
  if (i <? 0)%Z then nth (Z.to_nat (Z.of_nat (length l) + i)) l (f0 Op) else nth (Z.to_nat i) l (f0 Op).
Definition p_arange1 (n : nat) : list F := map (fun k => nat2F Op (S k)) (seq 0 n).      (* arange(n) + 1 *)
Fixpoint p_set (i : nat) (x : F) (l : list F) : list F :=
  match l, i with [], _ => [] | _ :: r, O => x :: r | a :: r, S j => a :: p_set j x r end.
(* max(A, axis=0) of a matrix whose row i is -inf before position i and `row i` from position i on *)
Definition p_colmax_upper (n : nat) (row : nat -> list F) : list F :=
  map (fun l => match map (fun i => nth (l - i) (row i) (f0 Op)) (seq 0 (S l)) with [] => f0 Op | x :: r => maxl Op x r end) (seq 0 n).
End Prims.
"""


class ArrayTr:
    """typed translation of the array expressions of proximal.py: VF list F, VN list nat, VB list bool, SF scalar, SZ Python index"""
    def __init__(self, env):
        self.env = dict(env)

    def tl(self, node, fn, nargs=None):
        return (isinstance(node, ast.Call) and isinstance(node.func, ast.Attribute) and node.func.attr == fn and _name(node.func.value) == "tl"
                and (nargs is None or len(node.args) == nargs))

    def axis0(self, node):
        return [(k.arg, getattr(k.value, "value", None)) for k in node.keywords] == [("axis", 0)]

    def ctx(self, node):
        """**tl.context(<name>)"""
        return (len(node.keywords) == 1 and node.keywords[0].arg is None and self.tl(node.keywords[0].value, "context", 1)
                and isinstance(node.keywords[0].value.args[0], ast.Name))

    def ex(self, node):
        if isinstance(node, ast.Name):
            if node.id not in self.env:
                raise Untranslatable(f"name {node.id}")
            return self.env[node.id]
        if isinstance(node, ast.Constant) and type(node.value) is int and node.value == 0:
            return "(f0 Op)", "SF"
        if self.tl(node, "tensor", 1) and self.ctx(node):                       # tl.tensor(x, **tl.context(..)): the same values
            return self.ex(node.args[0])
        if self.tl(node, "tensor", 1) and not node.keywords:
            return self.ex(node.args[0])
        if self.tl(node, "to_numpy", 1) and not node.keywords:
            return self.ex(node.args[0])
        if _is_call(node, "monotonicity_prox") and [_name(a) for a in node.args] == ["tensor"] and self.env.get("tensor", ("", ""))[0] == "v":
            kw = [(k.arg, getattr(k.value, "value", None)) for k in node.keywords]
            if kw == []:
                return "(monotone_inc Op v)", "VF"
            if kw == [("decreasing", True)]:
                return "(monotonicity_prox Op true v)", "VF"
        if self.tl(node, "argmin", 1) and self.axis0(node):
            t, ty = self.ex(node.args[0])
            if ty == "VF":
                return f"(argmin Op {t})", "SN"                                  # first index of the minimum (np.argmin)
        if _is_call(node, "soft_thresholding") and not node.keywords and len(node.args) == 2:
            (a, ta), (b, tb) = self.ex(node.args[0]), self.ex(node.args[1])
            if (ta, tb) == ("VF", "SF"):
                return f"(soft_thresholding Op {b} {a})", "VF"
        if self.tl(node, "abs", 1) and not node.keywords:
            t, ty = self.ex(node.args[0])
            if ty == "VF":
                return f"(map (fabs Op) {t})", "VF"
        if self.tl(node, "flip", 1) and self.axis0(node):
            t, ty = self.ex(node.args[0])
            if ty in ("VF", "VN", "VB"):
                return f"(rev {t})", ty
        if self.tl(node, "sort", 1) and self.axis0(node):
            t, ty = self.ex(node.args[0])
            if ty == "VF":
                return f"(p_sort Op {t})", "VF"
        if self.tl(node, "argsort", 1) and self.axis0(node):
            t, ty = self.ex(node.args[0])
            if ty == "VF":
                return f"(p_argsort Op {t})", "VN"
            if ty == "VN":
                return f"(p_argsort_nat {t})", "VN"
        if self.tl(node, "cumsum", 1) and self.axis0(node):
            t, ty = self.ex(node.args[0])
            if ty == "VF":
                return f"(cumsum_from Op (f0 Op) {t})", "VF"
        if (self.tl(node, "copy", 1) or self.tl(node, "tensor_to_vec", 1)) and not node.keywords:
            t, ty = self.ex(node.args[0])
            if ty == "VF":
                return t, ty
        if self.tl(node, "ones", 1) and self.ctx(node) and isinstance(node.args[0], ast.List) and len(node.args[0].elts) == 2 \
                and _name(node.args[0].elts[0]) == "row" and getattr(node.args[0].elts[1], "value", None) == 1:
            return "(map (fun _ => f1 Op) v)", "VF"            # a column of `row` ones
        if self.tl(node, "clip", 1) and [(k.arg, getattr(k.value, "value", None)) for k in node.keywords] == [("a_min", 0)]:
            t, ty = self.ex(node.args[0])
            if ty == "VF":
                return f"(map (relu Op) {t})", "VF"
        # tl.sum(tl.where(mask, 1, 0), axis=0) - 1 : a Python index
        if isinstance(node, ast.BinOp) and isinstance(node.op, ast.Sub) and getattr(node.right, "value", None) == 1 and self.tl(node.left, "sum", 1) \
                and self.axis0(node.left) and self.tl(node.left.args[0], "where", 3) and not node.left.args[0].keywords \
                and [getattr(x, "value", None) for x in node.left.args[0].args[1:]] == [1, 0]:
            t, ty = self.ex(node.left.args[0].args[0])
            if ty == "VB":
                return f"(Z.of_nat (p_count {t}) - 1)%Z", "SZ"
        if isinstance(node, ast.BinOp) and isinstance(node.op, ast.Mult):
            (a, ta), (b, tb) = self.ex(node.left), self.ex(node.right)
            if (ta, tb) == ("VB", "VB"):                                         # product of two 0/1 indicator arrays
                return f"(map (fun ab : bool * bool => andb (fst ab) (snd ab)) (combine {a} {b}))", "VB"
        if isinstance(node, ast.BinOp) and type(node.op) in (ast.Sub, ast.Div, ast.Add):
            (a, ta), (b, tb) = self.ex(node.left), self.ex(node.right)
            f = {ast.Sub: "fsub", ast.Div: "fdiv", ast.Add: "fadd"}[type(node.op)]
            if (ta, tb) == ("VF", "VF"):
                return f"(p_zip ({f} Op) {a} {b})", "VF"
            if (ta, tb) == ("VF", "SF"):
                return f"(map (fun x => {f} Op x {b}) {a})", "VF"
            if (ta, tb) == ("SF", "SF"):
                return f"({f} Op {a} {b})", "SF"
            if (ta, tb) == ("SN", "SN") and f == "fsub":
                return f"({a} - {b})%nat", "SN"
        if isinstance(node, ast.Compare) and len(node.ops) == 1 and isinstance(node.ops[0], ast.Eq) and getattr(node.comparators[0], "value", None) == 1:
            a, ta = self.ex(node.left)
            if ta == "VB":
                return a, "VB"                                                   # indicator == 1
        if isinstance(node, ast.Compare) and len(node.ops) == 1:
            (a, ta), (b, tb) = self.ex(node.left), self.ex(node.comparators[0])
            if (ta, tb) == ("VF", "VF") and type(node.ops[0]) in (ast.Gt, ast.GtE, ast.Lt, ast.LtE):
                if isinstance(node.ops[0], ast.Gt):
                    return f"(p_gt Op {a} {b})", "VB"
                if isinstance(node.ops[0], ast.Lt):
                    return f"(p_gt Op {b} {a})", "VB"
                x, y = (a, b) if isinstance(node.ops[0], ast.LtE) else (b, a)      # x <= y
                return f"(map (fun xy : F * F => fleb Op (fst xy) (snd xy)) (combine {x} {y}))", "VB"
            if isinstance(node.ops[0], ast.Lt) and (ta, tb) == ("VN", "SN"):
                return f"(map (fun r => Nat.ltb r {b}) {a})", "VB"
            if isinstance(node.ops[0], ast.LtE) and (ta, tb) == ("VN", "SN"):
                return f"(map (fun r => Nat.leb r {b}) {a})", "VB"
            if isinstance(node.ops[0], ast.Gt) and (ta, tb) == ("SN", "VN"):
                return f"(map (fun r => Nat.ltb r {a}) {b})", "VB"
            if isinstance(node.ops[0], ast.GtE) and (ta, tb) == ("VF", "SF") and b == "(f0 Op)":
                return f"(map (fun x => fleb Op (f0 Op) x) {a})", "VB"
        # tl.where(mask, x, c): c = 0, or the maximum over the WHOLE matrix of the very expression x (gmax: couples the columns)
        if self.tl(node, "where", 3) and not node.keywords:
            (m, tm), (x, tx) = self.ex(node.args[0]), self.ex(node.args[1])
            third = node.args[2]
            if (tm, tx) == ("VB", "VF"):
                if self.tl(third, "max", 1) and not third.keywords and ast.unparse(third.args[0]) == ast.unparse(node.args[1]):
                    return f"(map (fun mx : bool * F => if fst mx then snd mx else gmax) (combine {m} {x}))", "VF"
                c, tc = self.ex(third)
                if (c, tc) == ("(f0 Op)", "SF"):
                    return f"(apply_mask Op {m} {x})", "VF"
        # tl.reshape(x, tensor.shape): the same flattened data
        if self.tl(node, "reshape", 2) and not node.keywords and ast.unparse(node.args[1]) == "tensor.shape":
            return self.ex(node.args[0])
        raise Untranslatable(ast.unparse(node)[:200])


def _src(node):
    """source text of a statement, tuple targets written without parentheses (ast.unparse differs between Python versions)"""
    return ast.unparse(node).replace("(row, col) =", "row, col =").replace("(row, column) =", "row, column =")


def _assign(st, target):
    if not (isinstance(st, ast.Assign) and len(st.targets) == 1 and _name(st.targets[0]) == target):
        raise Untranslatable(f"expected `{target} = ...`, found: " + ast.unparse(st)[:160])
    return st.value


def _svd_call(st, names):
    ok = (isinstance(st, ast.Assign) and len(st.targets) == 1 and isinstance(st.targets[0], ast.Tuple) and [_name(e) for e in st.targets[0].elts] in names
          and _is_call(st.value, "truncated_svd", "tl") and [_name(a) for a in st.value.args] == ["matrix"]
          and [(k.arg, ast.unparse(k.value)) for k in st.value.keywords] == [("n_eigenvecs", "min(matrix.shape)")])
    if not ok:
        raise Untranslatable("SVD oracle call: " + ast.unparse(st)[:200])


def _mat(node):
    """matrix expressions of svd_thresholding / procrustes over the oracle's answer"""
    if isinstance(node, ast.Name) and node.id in ("U", "V"):
        return node.id
    if (_is_call(node, "dot", "tl") or _is_call(node, "matmul", "tl")) and len(node.args) == 2 and not node.keywords:
        return f"(mat_mul Op {_mat(node.args[0])} {_mat(node.args[1])})"
    if isinstance(node, ast.BinOp) and isinstance(node.op, ast.MatMult):                # A @ B
        return f"(mat_mul Op {_mat(node.left)} {_mat(node.right)})"
    if _is_call(node, "diag", "tl") and len(node.args) == 1 and not node.keywords:      # tl.diag(vector): the identity with row l scaled by entry l
        v = _vec(node.args[0])
        return f"(scale_rows Op {v} (identity_mat Op (length {v})))"
    if isinstance(node, ast.BinOp) and isinstance(node.op, ast.Mult) and _is_call(node.left, "reshape", "tl") and len(node.left.args) == 2 \
            and ast.unparse(node.left.args[1]) == "(-1, 1)":
        return f"(scale_rows Op {_vec(node.left.args[0])} {_mat(node.right)})"      # a column vector times a matrix: row l scaled by entry l
    raise Untranslatable(ast.unparse(node)[:200])


def _vec(node):
    """the vector of (thresholded) singular values: any expression of the array language over s and threshold"""
    t, ty = ArrayTr({"s": ("s", "VF"), "threshold": ("t", "SF")}).ex(node)
    if ty != "VF":
        raise Untranslatable(ast.unparse(node)[:200])
    return t


def _ret(st):
    if not (isinstance(st, ast.Return) and st.value is not None):
        raise Untranslatable("expected a return: " + ast.unparse(st)[:160])
    return st.value


def _range_loop(st, var, bound_src, reverse=False):
    ok = isinstance(st, ast.For) and _name(st.target) == var and not st.orelse and isinstance(st.iter, ast.Call)
    if ok:
        it = st.iter
        if reverse:
            ok = _name(it.func) == "reversed" and len(it.args) == 1 and isinstance(it.args[0], ast.Call)
            it = it.args[0] if ok else it
        ok = ok and _name(it.func) == "range" and len(it.args) == 1 and not it.keywords and ast.unparse(it.args[0]) == bound_src
    if not ok:
        raise Untranslatable(f"expected `for {var} in {'reversed(' if reverse else ''}range({bound_src}){')' if reverse else ''}`: " + ast.unparse(st)[:160])
    return st.body


def _index_update(st, arr, index_src):
    """arr = tl.index_update(arr, tl.index[<index_src>], <value>) -> value node"""
    v = _assign(st, arr)
    ok = (_is_call(v, "index_update", "tl") and len(v.args) == 3 and not v.keywords and _name(v.args[0]) == arr
          and isinstance(v.args[1], ast.Subscript) and ast.unparse(v.args[1].value) == "tl.index" and ast.unparse(v.args[1].slice).strip("()") == index_src)
    if not ok:
        raise Untranslatable(f"expected `{arr} = tl.index_update({arr}, tl.index[{index_src}], ...)`: " + ast.unparse(st)[:200])
    return v.args[2]


def extract_array_programs(repo):
    tree = ast.parse(open(os.path.join(repo, "tensorly", "tenalg", "proximal.py")).read())
    out = {}
    # ---- svd_thresholding / procrustes
    f = _func(tree, "svd_thresholding"); _argnames(f, ("matrix", "threshold")); b = _body(f)
    if len(b) != 2:
        raise Untranslatable("svd_thresholding: expected the oracle call and a return")
    _svd_call(b[0], [["U", "s", "V"]]); out["svt"] = _mat(_ret(b[1]))
    f = _func(tree, "procrustes"); _argnames(f, ("matrix",)); b = _body(f)
    if len(b) != 2:
        raise Untranslatable("procrustes: expected the oracle call and a return")
    _svd_call(b[0], [["U", "_", "V"], ["U", "s", "V"]]); out["procrustes"] = _mat(_ret(b[1]))
    # ---- hard_thresholding (on the flattened tensor v; number_of_non_zero as the number of ranks below it)
    f = _func(tree, "hard_thresholding"); _argnames(f, ("tensor", "number_of_non_zero")); b = _body(f)
    if len(b) != 3:
        raise Untranslatable("hard_thresholding: expected three statements")
    tr = ArrayTr({"tensor": ("v", "VF"), "number_of_non_zero": ("k", "SN")})
    tr.env["tensor_vec"] = tr.ex(_assign(b[0], "tensor_vec"))
    tr.env["sorted_indices"] = tr.ex(_assign(b[1], "sorted_indices"))
    t, ty = tr.ex(_ret(b[2]))
    if ty != "VF":
        raise Untranslatable("hard_thresholding: return type " + ty)
    out["hard"] = t
    # ---- simplex_prox, one column v (row = len(v)); the prologue reshapes a vector to one column, the epilogue back
    f = _func(tree, "simplex_prox"); _argnames(f, ("tensor", "parameter")); b = _body(f)
    b = [st for st in b if not (isinstance(st, ast.Expr) and isinstance(st.value, ast.Constant))]
    if len(b) != 8:
        raise Untranslatable(f"simplex_prox: {len(b)} statements, expected 8")
    if ast.unparse(_assign(b[0], "is_vector")) != "tl.ndim(tensor) == 1":
        raise Untranslatable("simplex_prox: " + ast.unparse(b[0]))
    pro = b[1]
    ok = (isinstance(pro, ast.If) and ast.unparse(pro.test) == "not is_vector" and [_src(x) for x in pro.body] == ["row, col = tl.shape(tensor)"]
          and [ast.unparse(x) for x in pro.orelse] == ["row = tl.shape(tensor)[0]", "col = 1", "tensor = tl.reshape(tensor, [row, col])"])
    if not ok:
        raise Untranslatable("simplex_prox prologue: " + ast.unparse(pro)[:300])
    tr = ArrayTr({"tensor": ("v", "VF"), "parameter": ("p", "SF")})
    tr.env["tensor_sort"] = tr.ex(_assign(b[2], "tensor_sort"))
    tr.env["cumsum_min_param_by_k"] = tr.ex(_assign(b[3], "cumsum_min_param_by_k"))
    tr.env["to_change"] = tr.ex(_assign(b[4], "to_change"))
    if ast.unparse(_assign(b[5], "difference")) != "tl.zeros(col, **tl.context(tensor))":
        raise Untranslatable("simplex_prox: " + ast.unparse(b[5]))
    lb = _range_loop(b[6], "i", "col")
    if len(lb) != 1:
        raise Untranslatable("simplex_prox: loop body")
    val = _index_update(lb[0], "difference", "i")
    if ast.unparse(val) != "cumsum_min_param_by_k[to_change[i], i]" or tr.env["to_change"][1] != "SZ" or tr.env["cumsum_min_param_by_k"][1] != "VF":
        raise Untranslatable("simplex_prox: " + ast.unparse(val))
    tr.env["difference"] = (f"(p_index Op {tr.env['cumsum_min_param_by_k'][0]} {tr.env['to_change'][0]})", "SF")      # column i of the loop
    epi = b[7]
    ok = (isinstance(epi, ast.If) and ast.unparse(epi.test) == "not is_vector" and len(epi.body) == 1 and len(epi.orelse) == 1
          and _is_call(_ret(epi.orelse[0]), "tensor_to_vec", "tl") and ast.unparse(_ret(epi.orelse[0]).args[0]) == ast.unparse(_ret(epi.body[0])))
    if not ok:
        raise Untranslatable("simplex_prox epilogue: " + ast.unparse(epi)[:300])
    t, ty = tr.ex(_ret(epi.body[0]))
    if ty != "VF":
        raise Untranslatable("simplex_prox: return type " + ty)
    out["simplex"] = t
    out["monotone"] = extract_monotone(tree)
    out["uni_flags"], out["uni_score"], out["uni_out"] = extract_unimodal(tree)
    return out


def extract_monotone(tree):
    """monotonicity_prox on one column v (decreasing=False; decreasing=True flips before and after): the j-loop runs over the columns, the i-loop
    fills row i of the helper matrix from position i on, the column maximum is taken, then the backward pass; translated to map / fold form"""
    f = _func(tree, "monotonicity_prox"); b = _body(f)
    names, dfl = _defaults(f)
    if names != ["tensor", "decreasing"] or dfl["decreasing"] is not False:
        raise Untranslatable(f"monotonicity_prox signature: {names} {dfl}")
    b = [st for st in b if not (isinstance(st, ast.Expr) and isinstance(st.value, ast.Constant))]
    src = [_src(x) for x in b]
    if len(b) != 8:
        raise Untranslatable(f"monotonicity_prox: {len(b)} statements, expected 8")
    expect = {1: "tensor_mon = tl.copy(tensor)", 2: "if decreasing:\n    tensor_mon = tl.flip(tensor_mon, axis=0)", 3: "row, column = tl.shape(tensor_mon)",
              4: "cum_sum = tl.cumsum(tensor_mon, axis=0)", 6: "if decreasing:\n    tensor_mon = tl.flip(tensor_mon, axis=0)", 7: "return tensor_mon"}
    # statement 0: 1-D -> one column, > 2-D -> ValueError
    s0 = b[0]
    ok = (isinstance(s0, ast.If) and ast.unparse(s0.test) == "tl.ndim(tensor) == 1" and [ast.unparse(x) for x in s0.body] == ["tensor = tl.reshape(tensor, [tl.shape(tensor)[0], 1])"]
          and len(s0.orelse) == 1 and isinstance(s0.orelse[0], ast.If) and ast.unparse(s0.orelse[0].test) == "tl.ndim(tensor) > 2"
          and len(s0.orelse[0].body) == 1 and isinstance(s0.orelse[0].body[0], ast.Raise) and not s0.orelse[0].orelse)
    if not ok:
        raise Untranslatable("monotonicity_prox prologue: " + src[0][:300])
    for j, e in expect.items():
        if src[j] != e:
            raise Untranslatable(f"monotonicity_prox statement {j}: " + src[j][:200])
    return translate_monotone_loop(b[5])


def translate_monotone_loop(loop):
    body = _range_loop(loop, "j", "column")
    if len(body) != 4:
        raise Untranslatable("monotonicity_prox: the column loop has " + str(len(body)) + " statements, expected 4")
    if ast.unparse(_assign(body[0], "assisted_tensor")) != "-tl.inf * tl.ones([row, row], **tl.context(tensor))":
        raise Untranslatable("monotonicity_prox: " + ast.unparse(body[0])[:200])
    ib = _range_loop(body[1], "i", "row")
    ok = len(ib) == 1 and isinstance(ib[0], ast.If) and ast.unparse(ib[0].test) == "i == 0" and len(ib[0].body) == 1 and len(ib[0].orelse) == 1
    if not ok:
        raise Untranslatable("monotonicity_prox: the row loop is not `if i == 0: ... else: ...`")

    def rowexpr(node, first):
        """<num> / tl.tensor(tl.arange(row - i) + 1, **ctx)  with num = cum_sum[i:, j]  or  cum_sum[i:, j] - cum_sum[i - 1, j]; cs = the column's cumulative sums"""
        if not (isinstance(node, ast.BinOp) and isinstance(node.op, ast.Div)
                and ast.unparse(node.right) == "tl.tensor(tl.arange(row - i) + 1, **tl.context(tensor))"):
            raise Untranslatable("monotonicity_prox row: " + ast.unparse(node)[:200])
        num = ast.unparse(node.left)
        if num == "cum_sum[i:, j]":
            top = "(skipn i cs)"
        elif num == "cum_sum[i:, j] - cum_sum[i - 1, j]" and not first:
            top = "(map (fun x => fsub Op x (nth (i - 1) cs (f0 Op))) (skipn i cs))"
        else:
            raise Untranslatable("monotonicity_prox row numerator: " + num)
        return f"(p_zip (fdiv Op) {top} (p_arange1 Op (length v - i)))"
    r0 = rowexpr(_index_update(ib[0].body[0], "assisted_tensor", "i, i:"), True)
    r1 = rowexpr(_index_update(ib[0].orelse[0], "assisted_tensor", "i, i:"), False)
    if ast.unparse(_index_update(body[2], "tensor_mon", ":, j")) != "tl.max(assisted_tensor, axis=0)":
        raise Untranslatable("monotonicity_prox: " + ast.unparse(body[2])[:200])
    bb = _range_loop(body[3], "i", "row - 1", reverse=True)
    ok = (len(bb) == 1 and isinstance(bb[0], ast.If) and not bb[0].orelse and ast.unparse(bb[0].test) == "tensor_mon[i, j] > tensor_mon[i + 1, j]"
          and len(bb[0].body) == 1 and ast.unparse(_index_update(bb[0].body[0], "tensor_mon", "i, j")) == "tensor_mon[i + 1, j]")
    if not ok:
        raise Untranslatable("monotonicity_prox backward pass: " + ast.unparse(body[3])[:300])
    return (f"(let cs := cumsum_from Op (f0 Op) v in\n   let row := fun i => match i with O => {r0} | S _ => {r1} end in\n"
            "   fold_left (fun x i => if fltb Op (nth (S i) x (f0 Op)) (nth i x (f0 Op)) then p_set i (nth (S i) x (f0 Op)) x else x)\n"
            "             (rev (seq 0 (length v - 1))) (p_colmax_upper Op (length v) row))")


def extract_unimodal(tree):
    """unimodality_prox on one column v; gmax stands for tl.max over the whole score matrix (all columns), the one quantity that couples the columns.
    -> (flags term, score term, output term)"""
    f = _func(tree, "unimodality_prox"); _argnames(f, ("tensor",)); b = _body(f)
    b = [st for st in b if not (isinstance(st, ast.Expr) and isinstance(st.value, ast.Constant))]
    if len(b) != 13:
        raise Untranslatable(f"unimodality_prox: {len(b)} statements, expected 13")
    s0 = b[0]
    ok = (isinstance(s0, ast.If) and ast.unparse(s0.test) == "tl.ndim(tensor) == 1"
          and [ast.unparse(x) for x in s0.body] == ["tensor = tl.vec_to_tensor(tensor, [tl.shape(tensor)[0], 1])"]
          and len(s0.orelse) == 1 and isinstance(s0.orelse[0], ast.If) and ast.unparse(s0.orelse[0].test) == "tl.ndim(tensor) > 2"
          and len(s0.orelse[0].body) == 1 and isinstance(s0.orelse[0].body[0], ast.Raise) and not s0.orelse[0].orelse)
    if not ok:
        raise Untranslatable("unimodality_prox prologue: " + ast.unparse(s0)[:300])
    tr = ArrayTr({"tensor": ("v", "VF")})
    for st, name in zip(b[1:11], ["tensor_unimodal", "monotone_increasing", "monotone_decreasing", "values", "sum_inc", "sum_inc", "sum_dec", "sum_dec",
                                  "difference", "min_indice"]):
        tr.env[name] = tr.ex(_assign(st, name))
        if name == "values":
            flags = tr.env[name]
    # (statements 1..10 are assignments; statement 11 is the loop, 12 the return)
    if flags[1] != "VB" or tr.env["min_indice"][1] != "SN" or tr.env["tensor_unimodal"] != ("v", "VF"):
        raise Untranslatable("unimodality_prox: unexpected types")
    # the score before the fill: the second argument of the `difference` where
    dnode = _assign(b[9], "difference")
    score = tr.ex(dnode.args[1])
    lb = _range_loop(b[11], "i", "len(min_indice)")
    if len(lb) != 2:
        raise Untranslatable("unimodality_prox: loop body")
    if ast.unparse(_index_update(lb[0], "tensor_unimodal", ":int(min_indice[i]), i")) != "monotone_increasing[:int(min_indice[i]), i]":
        raise Untranslatable("unimodality_prox: " + ast.unparse(lb[0])[:200])
    if ast.unparse(_index_update(lb[1], "tensor_unimodal", "int(min_indice[i] + 1):, i")) != "monotone_decreasing[int(min_indice[i] + 1):, i]":
        raise Untranslatable("unimodality_prox: " + ast.unparse(lb[1])[:200])
    if ast.unparse(_ret(b[12])) != "tensor_unimodal":
        raise Untranslatable("unimodality_prox: return")
    m, inc, dec = tr.env["min_indice"][0], tr.env["monotone_increasing"][0], tr.env["monotone_decreasing"][0]
    outp = f"(let m := {m} in let x1 := firstn m {inc} ++ skipn m v in firstn (S m) x1 ++ skipn (S m) {dec})"
    return flags[0], score[0], outp


def coq_array_programs(ap):
    return HEAD.replace("From Coq Require Import List Reals QArith Qreals Bool.", "From Coq Require Import List Reals ZArith QArith Qreals Bool.") + PRIMS + f"""
Definition svt_src {{F : Type}} (Op : fops F) (U : list (list F)) (s : list F) (V : list (list F)) (t : F) : list (list F) := {ap['svt']}.
Definition procrustes_src {{F : Type}} (Op : fops F) (U V : list (list F)) : list (list F) := {ap['procrustes']}.
(* identical to the model's definitions (reflexivity), or - after a refactoring - equal as functions on a grid (singular values >= 0) *)
Goal forall F (Op : fops F) U s V t, svd_thresholding_with Op U s V t = svt_src Op U s V t.
Proof. first [reflexivity | idtac "@@C12-SVT-NOT-SYNTACTIC"]. Abort.
Goal forall F (Op : fops F) U V, procrustes_with Op U V = procrustes_src Op U V.
Proof. first [reflexivity | idtac "@@C12-PROCRUSTES-NOT-SYNTACTIC"]. Abort.
Definition U0 : list (list Q) := [[1; 2]; [3; 4]; [0; 1]]%Q.
Definition V0 : list (list Q) := [[1; -1; 2]; [0; 1; 1]]%Q.
Definition same_rows (A B : list (list Q)) : bool :=
  Nat.eqb (length A) (length B) && forallb (fun p : list Q * list Q => Nat.eqb (length (fst p)) (length (snd p)) &&
    forallb (fun q : Q * Q => Qeq_bool (fst q) (snd q)) (combine (fst p) (snd p))) (combine A B).
Definition svd_grid_ok : bool :=
  forallb (fun s1 => forallb (fun s2 => forallb (fun t =>
     same_rows (svt_src Qops U0 [s1; s2] V0 t) (svd_thresholding_with Qops U0 [s1; s2] V0 t)) [0; (1#2); 1; 3]%Q) [0; 1; 2; 3]%Q) [0; 1; 2; 3]%Q
  && same_rows (procrustes_src Qops U0 V0) (procrustes_with Qops U0 V0).
Goal svd_grid_ok = true. Proof. vm_compute. reflexivity. Qed.
Definition hard_src {{F : Type}} (Op : fops F) (k : nat) (v : list F) : list F := {ap['hard']}.
Definition simplex_src {{F : Type}} (Op : fops F) (p : F) (v : list F) : list F := {ap['simplex']}.
Definition monotone_src {{F : Type}} (Op : fops F) (v : list F) : list F :=
  {ap['monotone']}.
(* exhaustive grid: every vector of length 0..4 over {{-2, -1, 0, 1, 2}} (ties included), every level / budget below *)
Definition vals : list Q := [-2; -1; 0; 1; 2]%Q.
Fixpoint vectors (n : nat) : list (list Q) := match n with O => [[]] | S m => flat_map (fun v => map (fun x => x :: v) vals) (vectors m) end.
Definition grid : list (list Q) := vectors 0 ++ vectors 1 ++ vectors 2 ++ vectors 3 ++ vectors 4.
Definition same (a b : list Q) : bool := Nat.eqb (length a) (length b) && forallb (fun p : Q * Q => Qeq_bool (fst p) (snd p)) (combine a b).
Definition hard_grid_ok : bool := forallb (fun v => forallb (fun k => same (hard_src Qops k v) (hard_thresholding Qops k v)) (seq 0 6)) grid.
Definition simplex_grid_ok : bool :=
  forallb (fun v => match v with [] => true | _ => forallb (fun p => same (simplex_src Qops p v) (simplex_prox Qops p v)) [(1#4); (1#2); 1; 3; 7]%Q end) grid.   (* budgets p > 0: the operator's domain *)
Definition monotone_grid_ok : bool :=
  forallb (fun v => same (monotone_src Qops v) (monotonicity_prox Qops false v)
                    && same (rev (monotone_src Qops (rev v))) (monotonicity_prox Qops true v)) grid.
(* unimodality_prox, one column; gmax = the maximum over the whole score matrix (a parameter here; Model/Prox.unimodality_cols takes it over all columns) *)
Definition uni_flags_src {{F : Type}} (Op : fops F) (v : list F) : list bool := {ap['uni_flags']}.
Definition uni_score_src {{F : Type}} (Op : fops F) (v : list F) : list F := {ap['uni_score']}.
Definition uni_out_src {{F : Type}} (Op : fops F) (gmax : F) (v : list F) : list F := {ap['uni_out']}.
Definition sameb (a b : list bool) : bool := Nat.eqb (length a) (length b) && forallb (fun p : bool * bool => Bool.eqb (fst p) (snd p)) (combine a b).
Definition uni_grid_ok : bool :=
  forallb (fun v => match v with [] => true | _ =>
     sameb (uni_flags_src Qops v) (fst (uni_scores Qops v)) && same (uni_score_src Qops v) (snd (uni_scores Qops v))
     && forallb (fun g => same (uni_out_src Qops g v) (uni_assemble Qops (argmin Qops (uni_difference g (uni_scores Qops v))) v)) [0; 1; 5]%Q end) grid.
Goal uni_grid_ok = true. Proof. vm_compute. reflexivity. Qed.
Goal hard_grid_ok = true. Proof. vm_compute. reflexivity. Qed.
Goal simplex_grid_ok = true. Proof. vm_compute. reflexivity. Qed.
Goal monotone_grid_ok = true. Proof. vm_compute. reflexivity. Qed.
Goal True. idtac "@@C12-ARRAY-OK". exact I. Qed.
"""


def run_array_programs(chk, d):
    try:
        ap = extract_array_programs(C.REPO)
    except Untranslatable as e:
        chk.broken.append({"what": "corr:C12-static: the source of svd_thresholding / procrustes / hard_thresholding / simplex_prox / monotonicity_prox / unimodality_prox is no "
                                   "longer a shape the array-program translator recognises (fail closed)", "detail": str(e)[:500]})
        return {"status": "untranslatable", "detail": str(e)[:300]}
    os.makedirs(d, exist_ok=True)
    fn = os.path.join(d, "Array.v")
    with open(fn, "w") as f:
        f.write(coq_array_programs(ap))
    p = subprocess.run(["timeout", "900", "coqc", "-w", "none", "-R", os.path.join(C.COQ, "theories"), "TLV", fn], capture_output=True, text=True, cwd=d)
    chk.checker_cmds.append("coqc on the array programs regenerated from the source (corr:C12-static): svt / procrustes identical, hard / simplex / monotone on an exhaustive grid")
    if p.returncode == 0 and "@@C12-ARRAY-OK" in p.stdout:
        shutil.rmtree(d, ignore_errors=True)
        syn = "identical to the model" if "NOT-SYNTACTIC" not in p.stdout else "equal to the model on the grid (syntactically different)"
        return {"status": f"svd_thresholding, procrustes {syn}; hard_thresholding, simplex_prox, monotonicity_prox (both directions), unimodality_prox (flags, scores, assembled column) equal on the grid", "programs": sorted(ap)}
    chk.broken.append({"what": "corr:C12-static: an array program regenerated from the source differs from Model/Prox.v",
                       "detail": {"programs": ap, "stderr": p.stderr[-1500:]}})
    return {"status": "mismatch"}
