"""C13 -- NNLS solvers (hals_nnls, fista, active_set_nnls) return KKT-optimal non-negative solutions;
admm(n_const=None) returns the unconstrained least-squares solution; the loop of admm with a number of constraints but none selected
contracts to it (C13_admm.py: the whole function admm against Model/NnlsAdmm.v).

Correspondence: Model/Nnls.v executed at Qops inside Coq against tensorly/solvers/nnls.py / admm.py on the same
inputs (HALS passes incl. l1 / ridge / epsilon / nonzero_rows / cold start, the cold start alone vs hals_init, FISTA
iterations with given and default step, the active-set algorithm with exact elimination, ADMM), toleranced;
exact-rational certificates on the returned points (CConv).
Predicates (Python, on the implementation's outputs): non-negativity, KKT (scaled tolerance, evaluated in exact rational
arithmetic), objective equal to the constructed optimum and to scipy.optimize.nnls for converged runs; approximate
optimality of single calls with the default n_iter_max / tol / lr; admm == numpy.linalg.solve.
Problems are CONSTRUCTED from a chosen KKT pair (x*, mu*) over small dyadic rationals, so the exact optimum is known.
Static tie (C13_tie.py): the row update / stopping rule / cold start of hals_nnls, the step / momentum / norm / stopping rule of
fista, the interpolation step of active_set_nnls and the n_const=None branch of admm are translated from the Python ast of the current source on every run and proved
equal to the model's terms by coqc (fail closed).
corpus/C13/*.json (the two defects repaired by 5f3eaf7 and dadc3ff) runs first.  A per-case timeout is counted as
skipped (histogram "skipped"), never a verdict."""
import contextlib, io, math, random
from fractions import Fraction as Fr
import numpy as np
from harness import common as C

HEADER = """From Coq Require Import List ZArith QArith Bool. Import ListNotations.
From TLV Require Import Base.Tensor Model.Nnls Model.NnlsAdmm Model.NnlsMomentum Corr.C13."""

EP_HALS = "tensorly.solvers.nnls.hals_nnls"
EP_FISTA = "tensorly.solvers.nnls.fista"
EP_AS = "tensorly.solvers.nnls.active_set_nnls"
EP_ADMM = "tensorly.solvers.admm.admm"
MEPS = float(np.finfo(np.float64).eps)


# ----------------------------------------------------------------------------- literals
def vec_lit(v):
    return C.q_list([float(x) for x in np.asarray(v).ravel()])


def mat_lit(A):
    A = np.asarray(A)
    if A.shape[0] == 0:
        return "(@nil (list Q))"
    return "[" + "; ".join(vec_lit(row) for row in A) + "]"


def optq(x):
    return "None" if x is None else f"(Some {C.q(x)})"


def finite(a):
    return bool(np.all(np.isfinite(np.asarray(a, dtype=float))))


# ----------------------------------------------------------------------------- constructed problems
def gen_design(rng, r, signed, dens=8, diag=False):
    """m x r design with small dyadic entries, Gram matrix of full rank and cond <= 100
    (diag: a diagonal design, so that block solutions hit exact zeros when the right-hand side has zeros)"""
    if diag:
        U = np.diag([rng.randint(4, 16) / 8 for _ in range(r)])
        return U, U.T @ U
    for _ in range(400):
        m = r + rng.randint(1, 3) + (r if rng.random() < 0.7 else 0)
        lo = -dens if signed else 0
        U = np.array([[rng.randint(lo, dens) / dens for _ in range(r)] for _ in range(m)], dtype=float)
        G = U.T @ U
        if np.linalg.matrix_rank(G) == r and np.linalg.cond(G) <= 100:
            return U, G
    # fall back: orthogonal-ish design (always well conditioned)
    U = np.vstack([np.eye(r), np.eye(r) * 0.5])
    return U, U.T @ U


def gen_problem(rng, r, n, signed, l1, l2, style=None, diag=False, scale=1.0):
    """(U, G, B, X, MU): X >= 0, MU >= 0, X*MU = 0, B = G X - MU + l1 + 2 l2 X  (all exactly representable),
    so X is the exact minimiser of sum_j x_j'Gx_j/2 - b_j'x_j + l1 sum x_j + l2 sum x_j^2 over x >= 0.
    styles: mixed / interior / all_active / degenerate (some coordinates with x* = 0 AND zero multiplier) /
    zero_degenerate (x* = 0 everywhere, some multipliers zero: the largest entry of -gradient at 0 is exactly 0).
    scale: a power of two applied to (X, MU) (small problems: the cold-start rescaling denominator gets below 1)."""
    U, G = gen_design(rng, r, signed, diag=diag)
    X = np.zeros((r, n)); MU = np.zeros((r, n))
    style = style or rng.choice(["mixed", "mixed", "mixed", "interior", "all_active", "degenerate"])
    for i in range(r):
        for j in range(n):
            c = rng.random()
            if style == "zero_degenerate":
                if c < 0.6:
                    MU[i, j] = rng.randint(1, 32) / 8
            elif style == "interior" or (style in ("mixed", "degenerate") and c < 0.5):
                X[i, j] = rng.randint(1, 32) / 8
            elif style == "all_active" or c < (0.85 if style == "degenerate" else 1.0):
                MU[i, j] = rng.randint(1, 32) / 8
            # degenerate: both zero (x* = 0 with zero multiplier)
    X *= scale; MU *= scale
    B = G @ X - MU + l1 + 2 * l2 * X
    return dict(U=U, G=G, B=B, X=X, MU=MU, l1=l1, l2=l2, r=r, n=n, signed=signed, style=style)


def objective(G, B, V, l1, l2):
    return float(0.5 * np.sum(V * (G @ V)) - np.sum(B * V) + l1 * np.sum(V) + l2 * np.sum(V * V))


def frac_mat(A):
    return [[Fr(float(x)) for x in row] for row in np.atleast_2d(np.asarray(A, dtype=float))]


def kkt_residuals_exact(G, B, V, l1, l2, eps=0.0):
    """exact rational evaluation of g = G V - B + l1 + 2 l2 V at the returned point:
    returns (min(V - eps), min g, max |(V - eps) g|) as floats"""
    Gf, Bf, Vf = frac_mat(G), frac_mat(B), frac_mat(V)
    r, n = len(Vf), len(Vf[0])
    l1f, l2f, ef = Fr(float(l1)), Fr(float(l2)), Fr(float(eps))
    mv, mg, mc = None, None, Fr(0)
    for i in range(r):
        for j in range(n):
            g = sum(Gf[i][k] * Vf[k][j] for k in range(r)) - Bf[i][j] + l1f + 2 * l2f * Vf[i][j]
            d = Vf[i][j] - ef
            mv = d if mv is None else min(mv, d)
            mg = g if mg is None else min(mg, g)
            mc = max(mc, abs(d * g))
    return float(mv), float(mg), float(mc)


def scipy_reference(p):
    """objective value of scipy.optimize.nnls on the equivalent augmented least-squares problem, per column"""
    from scipy.optimize import nnls
    U, G, B, l1, l2, r, n = p["U"], p["G"], p["B"], p["l1"], p["l2"], p["r"], p["n"]
    Ua = np.vstack([U, math.sqrt(2 * l2) * np.eye(r)]) if l2 else U
    Xs = np.zeros((r, n))
    for j in range(n):
        m = U @ np.linalg.solve(G, B[:, j] - l1)      # U^T m = B_j - l1
        ma = np.concatenate([m, np.zeros(r)]) if l2 else m
        Xs[:, j] = nnls(Ua, ma)[0]
    return Xs


# ----------------------------------------------------------------------------- running the solvers
def quiet(fn, *a, **k):
    with contextlib.redirect_stdout(io.StringIO()):
        return fn(*a, **k)


class _Shared:
    """the SAME array object on every .copy(): for call sequences that reuse one (UtM, UtU) pair of array objects"""
    def __init__(self, a):
        self.a = a

    def copy(self):
        return self.a


def run_hals_converged(p, V0, eps=0.0, exact=False, rounds=80, chunk=150, arrays=None):
    """hals_nnls run to convergence: the iteration is memoryless in V, so continuing from the returned V is the
    same iteration; stop when a whole chunk moves V by < 1e-14 (relative).
    arrays = (UtM, UtU): pass these very objects to every call (no copies) instead of fresh copies of p's data."""
    from tensorly.solvers.nnls import hals_nnls
    kw = dict(sparsity_coefficient=p["l1"] if p["l1"] else None, ridge_coefficient=p["l2"] if p["l2"] else None, epsilon=eps)
    B, G = (p["B"], p["G"]) if arrays is None else (_Shared(arrays[0]), _Shared(arrays[1]))
    if exact:
        # exact=True overrides (n_iter_max, tol) by (50000, 1e-16); the documented callback protocol caps the run
        state = {"prev": None, "it": 0}

        def cb(V, err):
            state["it"] += 1
            prev, state["prev"] = state["prev"], np.array(V, copy=True)
            return bool(state["it"] >= 6000 or (prev is not None and np.max(np.abs(prev - V)) <= 1e-15 * (1 + np.max(np.abs(V)))))
        return quiet(hals_nnls, B.copy(), G.copy(), V=None if V0 is None else V0.copy(), exact=True, callback=cb, **kw)
    V = quiet(hals_nnls, B.copy(), G.copy(), V=None if V0 is None else V0.copy(), n_iter_max=chunk, tol=0, **kw)
    for _ in range(rounds):
        if not finite(V):
            return V
        W = quiet(hals_nnls, B.copy(), G.copy(), V=V.copy(), n_iter_max=chunk, tol=0, **kw)
        done = np.max(np.abs(W - V)) <= 1e-14 * (1 + np.max(np.abs(V)))
        V = W
        if done:
            break
    return V


def run_fista_converged(p, x0, eps=0.0, lr=None, arrays=None):
    from tensorly.solvers.nnls import fista
    B, G = (p["B"], p["G"]) if arrays is None else (_Shared(arrays[0]), _Shared(arrays[1]))
    x = None if x0 is None else x0.copy()
    for _ in range(12):
        y = fista(B.copy(), G.copy(), x=x, n_iter_max=1500, sparsity_coef=p["l1"], ridge_coef=p["l2"], lr=lr, tol=0, epsilon=eps)
        if not finite(y):
            return y
        done = x is not None and np.max(np.abs(y - x)) <= 1e-14 * (1 + np.max(np.abs(y)))
        x = y.copy()
        if done:
            break
    return x


# ----------------------------------------------------------------------------- known findings
# The three defects found by this check (hals_nnls cold start 0/0, active_set_nnls rounding residue on the blocking
# coordinate, fista stopping on the signed sum of the step) were repaired in /repo (5f3eaf7, dadc3ff, f4b2876); their
# witnesses live in corpus/C13/*.json and run first.
# A fourth one (round 5): fista(ridge_coef=None) raised TypeError although the docstring offers `float or None`; repaired by ae57725
# (Example C13_fista_ridge_none_before_ae57725; the entry-call cases C'' pass ridge_coef=None on every run).
# A fifth and a sixth one (round 7, found when the whole function admm was modelled): admm(n_const=1, <constraint>) with `order` left at its
# default None raised TypeError (repaired by /repo a5b9e5b), admm(n_iter_max=0) raised UnboundLocalError (repaired by /repo fe4edf7); Examples
# C13_admm_order_none_before_a5b9e5b, C13_admm_zero_iterations_before_fe4edf7; the whole-function cases pass order=None and n_iter_max=0.
from harness.props import C13_admm
CLASSIFIERS = {}     # no known finding at present


def _load_known_with_own_snippet():
    """known_findings.json is merged by the coordinator from known_findings.d/*.json; until (and after) that merge
    this check reads its own snippet too, so that it is self-contained (ids are de-duplicated)."""
    import json, os
    orig = C.load_known
    if getattr(orig, "_c13", False):
        return

    def load(prop):
        ks = orig(prop)
        fn = os.path.join(C.VERIF, "known_findings.d", "C13.json")
        if prop == "C13" and os.path.exists(fn):
            ids = {k.get("id") for k in ks}
            ks = ks + [k for k in json.load(open(fn)).get("findings", []) if k.get("id") not in ids and k.get("property") == prop]
        return ks
    load._c13 = True
    C.load_known = load


# ----------------------------------------------------------------------------- predicates
def check_point(p, V, eps, what, tk=1e-6, to=1e-6):
    """property predicate on a returned ("converged") point: feasibility, KKT (scaled tolerance tk), objective equal
    (relative tolerance to) to the constructed optimum and to scipy's NNLS.  Returns None or a message."""
    V = np.asarray(V, dtype=float)
    G, B, l1, l2, X = p["G"], p["B"], p["l1"], p["l2"], p["X"]
    if V.shape != B.shape:
        return f"{what}: shape {V.shape} instead of {B.shape}"
    if not finite(V):
        return f"{what}: non-finite entries in the returned solution"
    mv, mg, mc = kkt_residuals_exact(G, B, V, l1, l2, eps)
    scale = 1 + float(np.max(np.abs(B))) + float(np.max(np.abs(V)))
    if mv < 0:
        return f"{what}: returned solution below the bound: min(V - eps) = {mv:.3g}"
    if mg < -tk * scale:
        return f"{what}: KKT violated: min gradient {mg:.3g} < 0 (scale {scale:.3g})"
    if mc > tk * scale * scale:
        return f"{what}: KKT violated: complementarity max|(V-eps)*g| = {mc:.3g}"
    if eps <= 1e-8:
        f, fs = objective(G, B, V, l1, l2), objective(G, B, X, l1, l2)
        tolf = to * (1 + abs(fs)) + 4 * eps * float(np.sum(np.abs(p["MU"]))) + eps
        if abs(f - fs) > tolf:
            return f"{what}: objective {f!r} differs from the constructed optimum {fs!r}"
        fr = objective(G, B, p["Xs"], l1, l2)
        if abs(f - fr) > tolf + 1e-7 * (1 + abs(fr)):
            return f"{what}: objective {f!r} differs from scipy.optimize.nnls {fr!r}"
    return None


def inputs_json(p, **kw):
    d = {"UtM": p["B"], "UtU": p["G"], "l1": p["l1"], "l2": p["l2"]}
    d.update(kw)
    return d


# ----------------------------------------------------------------------------- case generation
def tiers(tier):
    if tier == "quick":
        return dict(nprob=30, npass=40, nfista=24, nas=56, nadmm=10, aswarm=80, ncold=12, nfista2=10, nseq=8, ncall=8, nadmmloop=16, nadmmpred=12, nadmmnn=6, nasfb=8)
    # round 8: thinned by about a quarter (12.1 -> ~9 CPU-minutes at VERIF_NPROC=4, measured under load 90); the whole-function admm cases (37 s CPU per shard of 30) and
    # the FISTA iteration cases (17 s per shard) are the expensive ones
    return dict(nprob=160, npass=280, nfista=96, nas=480, nadmm=50, aswarm=1000, ncold=80, nfista2=72, nseq=56, ncall=48, nadmmloop=48, nadmmpred=80, nadmmnn=32, nasfb=60)


def dyadic_start(rng, r, n, kind):
    if kind == "dense":
        return np.array([[rng.randint(1, 24) / 8 for _ in range(n)] for _ in range(r)], dtype=float)
    if kind == "sparse":
        V = np.array([[rng.randint(1, 24) / 8 if rng.random() < 0.5 else 0.0 for _ in range(n)] for _ in range(r)], dtype=float)
        return V
    if kind == "zero":
        return np.zeros((r, n))
    if kind == "infeasible":   # entries below the bound: the first pass must repair them
        return np.array([[rng.randint(-16, 16) / 8 for _ in range(n)] for _ in range(r)], dtype=float)
    raise KeyError(kind)


def load_corpus():
    """corpus/C13/*.json: minimised regression inputs (former defects), run first"""
    import glob, json, os
    out = []
    for fn in sorted(glob.glob(os.path.join(C.VERIF, "corpus", "C13", "*.json"))):
        try:
            d = json.load(open(fn))
        except Exception:
            continue
        d["file"] = os.path.basename(fn)
        out.append(d)
    return out


class Skip(Exception):
    pass


def list_vs_kronecker(fista, UtM2, A, Bm, x0, K, fkw2):
    """transcription of C13_fista_list_is_fista_on_kronecker on the implementation: K iterations (tol = 0, so that no stopping decision can
    differ by rounding) of fista with UtU = [A, B] against fista with UtU = numpy.kron(A, B) on the row-major flattened data; None = agree"""
    Va = fista(UtM2.copy(), [A.copy(), Bm.copy()], x=None if x0 is None else x0.copy(), n_iter_max=K, tol=0, **fkw2)
    Vb = fista(UtM2.reshape(-1, 1).copy(), np.kron(A, Bm), x=None if x0 is None else x0.reshape(-1, 1).copy(), n_iter_max=K, tol=0, **fkw2)
    Va, Vb = np.asarray(Va, dtype=float), np.asarray(Vb, dtype=float)
    if not (finite(Va) and finite(Vb)):
        return "non-finite result"
    if Va.shape != UtM2.shape or Vb.shape != (UtM2.size, 1):
        return f"shapes {Va.shape} / {Vb.shape}"
    err = float(np.max(np.abs(Va.reshape(-1, 1) - Vb)))
    bound = 1e-9 * (1 + float(np.max(np.abs(Vb))))
    return None if err <= bound else f"fista with UtU = [A, B] and fista with UtU = kron(A, B) on the flattened data differ by {err:.3g} after {K} iterations (tol = 0)"


def impl_call(chk, fn, *a, timeout=120, **k):
    """call_impl + the rule that a timeout (shared, loaded machine) is never a verdict: counted as skipped"""
    st, v = C.call_impl(fn, *a, timeout=timeout, **k)
    if st == "crash" and v == "timeout":
        chk.hist("skipped", "timeout")
        raise Skip()
    return st, v


def fista_betas(K):
    """(momentum_old - 1) / momentum for the first K iterations: data-independent, defined with sqrt (recorded data of the model)"""
    betas, mo = [], 1.0
    for _ in range(K):
        m = (1 + math.sqrt(1 + 4 * mo ** 2)) / 2
        betas.append((mo - 1) / m); mo = m
    return betas


def run(chk):
    rng = random.Random(chk.seed)
    _load_known_with_own_snippet()
    chk.build_proofs()
    # common.print_assumptions parses the header line "Axioms:" of Print Assumptions as an axiom called 'Axioms'
    # (reported to the coordinator); drop exactly that pseudo-entry, keep every real one
    chk.axioms = {k: [a for a in v if a != "Axioms"] for k, v in chk.axioms.items()}
    chk.broken = [b for b in chk.broken if not (str(b.get("what", "")).endswith("depends on non-stdlib axioms") and b.get("detail") == ["Axioms"])]
    # static tie (harness/props/C13_tie.py): the arithmetic of the CURRENT source of the solvers is translated from its Python ast and
    # coqc proves that Model/Nnls.v computes exactly these terms; an untranslatable construct is a broken tie (fail closed)
    from harness.props import C13_tie
    C13_tie.run_ast_tie(chk)
    C.reset_backends()
    import tensorly as tl
    from tensorly.solvers.nnls import hals_nnls, fista, active_set_nnls
    from tensorly.solvers.admm import admm
    T = tiers(chk.tier)
    cases, meta = [], []

    def add_case(lit_fn, info):
        cid = len(cases)
        cases.append(lit_fn(cid))
        meta.append(info)
        return cid

    def sizes(k):
        # every size of the statement's box appears: 1-8 unknowns x 1-5 right-hand sides
        box = [(r, n) for r in range(1, 9) for n in range(1, 6)]
        rng.shuffle(box)
        out = []
        while len(out) < k:
            out += box
        return out[:k]

    L1 = [0.0, 0.0, 0.25, 1.0]
    L2 = [0.0, 0.0, 0.125, 0.5]

    # ---------------- corpus (minimised regression inputs: the former defects) first
    problems, as_corpus, fista_corpus = [], [], []
    for c in load_corpus():
        G = np.array(c["G"], dtype=float)
        if c.get("kind") == "hals":
            B = np.array(c["B"], dtype=float); r, n = B.shape
            problems.append(dict(U=np.linalg.cholesky(G).T, G=G, B=B, X=np.array(c["X"], dtype=float), MU=np.array(c["MU"], dtype=float),
                                 l1=0.0, l2=0.0, r=r, n=n, signed=True, style="corpus"))
        elif c.get("kind") == "fista_default":
            B = np.array(c["B"], dtype=float); r, n = B.shape
            fista_corpus.append(dict(U=np.linalg.cholesky(G).T, G=G, B=B, X=np.array(c["X"], dtype=float), MU=np.array(c["MU"], dtype=float),
                                     l1=0.0, l2=0.0, r=r, n=n, signed=True, style="corpus"))
        elif c.get("kind") == "aset":
            b = np.array(c["b"], dtype=float); r = len(b)
            as_corpus.append((dict(U=np.linalg.cholesky(G).T, G=G, B=b.reshape(-1, 1), X=np.array(c["X"], dtype=float).reshape(-1, 1),
                                   MU=np.array(c["MU"], dtype=float).reshape(-1, 1), l1=0.0, l2=0.0, r=r, n=1, signed=True, style="corpus"),
                              np.array(c["x0"], dtype=float)))
    chk.hist("corpus", len(problems) + len(as_corpus))
    for (r, n) in sizes(T["nprob"]):
        signed = rng.random() < 0.5
        problems.append(gen_problem(rng, r, n, signed, rng.choice(L1), rng.choice(L2)))
    for p in problems:
        p["Xs"] = scipy_reference(p)
    for p, _ in as_corpus:
        p["Xs"] = scipy_reference(p)

    # ---------------- A. converged runs: predicates + exact certificates (CConv)
    def conv_case(p, V, which, eps, lr, tstep, tkkt=1e-6, tobj=1e-6):
        lit = lambda cid: (f"(CConv {cid}%nat {which}%nat {mat_lit(p['B'])} {mat_lit(p['G'])} {p['n']}%nat {C.q(p['l1'])} {C.q(p['l2'])} "
                           f"{C.q(eps)} {C.q(lr)} {mat_lit(V)} {mat_lit(p['X'])} {C.q(tstep)} {C.q(tkkt)} {C.q(tobj if eps == 0 else 1.0)})")
        return lit

    for p in fista_corpus:
        p["Xs"] = scipy_reference(p)
        try:
            st, V = impl_call(chk, lambda: fista(p["B"].copy(), p["G"].copy(), sparsity_coef=p["l1"], ridge_coef=p["l2"], epsilon=0.0), timeout=180)
        except Skip:
            continue
        chk.count(key=("fista-default-corpus", p["r"], p["n"]), nontrivial=True)
        inp_d = inputs_json(p, x0=None, epsilon=0.0, lr=None, call="default", protocol="single call with the default n_iter_max, tol and lr")
        msg = f"fista raised: {V}" if st != "ok" else check_point(p, V, 0.0, "fista(default n_iter_max, tol, lr)", tk=1e-2, to=1e-4)
        if msg:
            chk.finding(EP_FISTA, inp_d, msg, "C13_kkt_optimal", observed=np.asarray(V) if st == "ok" else None)
    for p, x0 in as_corpus:
        as_point(chk, p, 0, x0, active_set_nnls, add_case, conv_case)
        as_point(chk, p, 0, None, active_set_nnls, add_case, conv_case)

    for pi, p in enumerate(problems):
        r, n = p["r"], p["n"]
        plain = (p["l1"] == 0 and p["l2"] == 0)
        kw = dict(sparsity_coefficient=p["l1"] if p["l1"] else None, ridge_coefficient=p["l2"] if p["l2"] else None)
        starts = [("cold", None), ("warm-" + (k := rng.choice(["dense", "sparse", "zero"])), dyadic_start(rng, r, n, k))]
        for sname, V0 in starts:
            eps = 0.0 if (pi % 5 or sname == "cold") else 2.0 ** -20
            exact = (chk.tier == "thorough" and pi % 40 == 7) or (chk.tier == "quick" and pi == 3)
            inp = inputs_json(p, V0=V0, epsilon=eps, exact=exact, protocol="run to convergence (continued calls, tol=0)")
            try:
                st, V = impl_call(chk, run_hals_converged, p, V0, eps, exact, timeout=180)
            except Skip:
                continue
            chk.count(key=("hals", r, n, p["signed"], p["style"], sname, p["l1"], p["l2"], eps), nontrivial=r * n > 1)
            chk.hist("solver", "hals_nnls/" + sname.split("-")[0] + ("/exact" if exact else "")); chk.hist("unknowns", r); chk.hist("rhs", n); chk.hist("style", p["style"])
            if st != "ok":
                chk.finding(EP_HALS, inp, f"hals_nnls raised on a well-conditioned problem: {V}", "C13_hals_returns", observed=None)
                continue
            msg = check_point(p, V, eps, "hals_nnls(" + sname + ")")
            if msg:
                chk.finding(EP_HALS, inp, msg, "C13_kkt_optimal", observed=np.asarray(V))
            else:
                add_case(conv_case(p, V, 0, eps, 1.0, 1e-9), ("conv-hals", pi, sname, r, n))
            if pi < 3:
                chk.sample({"solver": "hals_nnls", "start": sname, "UtU": p["G"].tolist(), "UtM": p["B"].tolist(),
                            "returned": np.asarray(V).tolist(), "constructed_optimum": p["X"].tolist()})
            # the call as a user writes it (default n_iter_max / tol and their stopping rule): approximately optimal
            if eps == 0.0:
                inp_d = inputs_json(p, V0=V0, epsilon=0.0, call="default", protocol="single call with the default n_iter_max and tol")
                try:
                    st, V = impl_call(chk, lambda: quiet(hals_nnls, p["B"].copy(), p["G"].copy(), V=None if V0 is None else V0.copy(), **kw), timeout=180)
                except Skip:
                    continue
                chk.count(key=("hals-default", r, n, p["style"], sname, p["l1"], p["l2"]), nontrivial=r * n > 1)
                chk.hist("solver", "hals_nnls/default-call")
                if st != "ok":
                    chk.finding(EP_HALS, inp_d, f"hals_nnls raised on a well-conditioned problem: {V}", "C13_hals_returns", observed=None)
                else:
                    msg = check_point(p, V, 0.0, "hals_nnls(default n_iter_max, tol; " + sname + ")", tk=1e-3, to=1e-4)
                    if msg:
                        chk.finding(EP_HALS, inp_d, msg, "C13_kkt_optimal", observed=np.asarray(V))
                    elif pi % 3 == 0:    # the same statement under the exact certificate evaluated in Coq (looser tolerances)
                        add_case(conv_case(p, V, 0, 0.0, 1.0, 1e-2, 1e-3, 1e-4), ("conv-hals-default", pi, sname, r, n))
        # fista (penalised as well) and active set (plain problems, column by column)
        if pi % 2 == 0 or chk.tier == "thorough":
            eps = 0.0 if pi % 3 else 1e-8
            x0 = None if pi % 4 else dyadic_start(rng, r, n, "dense")
            lr = None if pi % 3 else float(Fr(1) / Fr(float(np.linalg.norm(p["G"], 2) + 2 * p["l2"]) * 1.25))
            inp = inputs_json(p, x0=x0, epsilon=eps, lr=lr, protocol="run to convergence (restarted, tol=0)")
            try:
                st, V = impl_call(chk, run_fista_converged, p, x0, eps, lr, timeout=180)
                chk.count(key=("fista", r, n, p["signed"], p["style"], x0 is None, p["l1"], p["l2"], eps), nontrivial=r * n > 1)
                chk.hist("solver", "fista")
                if st != "ok":
                    chk.finding(EP_FISTA, inp, f"fista raised: {V}", "C13_fista_returns")
                else:
                    msg = check_point(p, V, eps, "fista")
                    if msg:
                        chk.finding(EP_FISTA, inp, msg, "C13_kkt_optimal", observed=np.asarray(V))
                    else:
                        lrq = lr if lr is not None else 1.0 / (float(np.linalg.norm(p["G"], 2)) + 2 * p["l2"])
                        add_case(conv_case(p, V, 1, eps, lrq, 1e-9), ("conv-fista", pi, "x", r, n))
                # the default call (n_iter_max=100, tol=1e-8, lr from the leading singular value): approximately optimal
                inp_d = inputs_json(p, x0=None, epsilon=0.0, lr=None, call="default", protocol="single call with the default n_iter_max, tol and lr")
                st, V = impl_call(chk, lambda: fista(p["B"].copy(), p["G"].copy(), sparsity_coef=p["l1"], ridge_coef=p["l2"], epsilon=0.0), timeout=180)
                chk.count(key=("fista-default", r, n, p["style"], p["l1"], p["l2"]), nontrivial=r * n > 1)
                chk.hist("solver", "fista/default-call")
                if st != "ok":
                    chk.finding(EP_FISTA, inp_d, f"fista raised: {V}", "C13_fista_returns")
                else:
                    msg = check_point(p, V, 0.0, "fista(default n_iter_max, tol, lr)", tk=1e-2, to=1e-4)
                    if msg:
                        chk.finding(EP_FISTA, inp_d, msg, "C13_kkt_optimal", observed=np.asarray(V))
                    elif pi % 3 == 0:
                        lrd = 1.0 / (float(np.linalg.norm(p["G"], 2)) + 2 * p["l2"])
                        add_case(conv_case(p, V, 1, 0.0, lrd, 1e-2, 1e-2, 1e-4), ("conv-fista-default", pi, "x", r, n))
            except Skip:
                pass
        if plain:
            for j in range(n):
                as_point(chk, p, j, None, active_set_nnls, add_case, conv_case)
                k = rng.choice(["dense", "sparse"])
                x0 = dyadic_start(rng, r, 1, k)[:, 0]
                if x0.max() > 0:
                    as_point(chk, p, j, x0, active_set_nnls, add_case, conv_case)

    # ---------------- A''. multi-step sequences on ONE (UtM, UtU) pair of array objects (no copies between the calls): cold solve,
    # warm restart from the result, perturbed warm start, another solver, cold solve again -- every result judged against
    # the constructed optimum of the PRISTINE data.  A solver that writes into its inputs makes a later solve wrong.
    for t, (r, n) in enumerate(sizes(T["nseq"])):
        l1 = rng.choice([0.25, 1.0, 0.5, 0.0]); l2 = rng.choice([0.0, 0.125, 0.5])
        p = gen_problem(rng, r, n, rng.random() < 0.5, l1, l2)
        p["Xs"] = scipy_reference(p)
        UtM_obj, UtU_obj = p["B"].copy(), p["G"].copy()
        arrays = (UtM_obj, UtU_obj)
        steps = [("hals cold", lambda prev: run_hals_converged(p, None, 0.0, False, arrays=arrays)),
                 ("hals warm restart", lambda prev: run_hals_converged(p, prev.copy(), 0.0, False, arrays=arrays)),
                 ("hals perturbed warm start", lambda prev: run_hals_converged(p, np.clip(prev + dyadic_start(rng, r, n, "infeasible") / 4, 0, None), 0.0, False, arrays=arrays)),
                 ("fista", lambda prev: run_fista_converged(p, None if rng.random() < 0.5 else prev.copy(), 0.0, None, arrays=arrays))]
        if l1 == 0 and l2 == 0:
            steps.append(("active_set_nnls on every column", lambda prev: np.stack(
                [np.asarray(active_set_nnls(UtM_obj[:, j], UtU_obj, x=None if j % 2 else prev[:, j].copy())) for j in range(n)], axis=1)))
        steps.append(("hals cold again", lambda prev: run_hals_converged(p, None, 0.0, False, arrays=arrays)))
        prev, hist_names = None, []
        for name, fn in steps:
            try:
                st, V = impl_call(chk, fn, prev, timeout=240)
            except Skip:
                break
            hist_names.append(name)
            chk.count(key=("sequence", r, n, l1, l2, name), nontrivial=r * n > 1)
            chk.hist("solver", "sequence/" + name.split()[0])
            inp = inputs_json(p, sequence=list(hist_names), protocol="calls on ONE (UtM, UtU) pair of array objects, each run to convergence; judged against the pristine data")
            ep = EP_FISTA if name == "fista" else (EP_AS if name.startswith("active") else EP_HALS)
            if st != "ok":
                chk.finding(ep, inp, f"step '{name}' of the sequence raised: {V}", "C13_sequence_returns")
                break
            msg = check_point(p, V, 0.0, f"step '{name}' after {hist_names[:-1]}")
            if msg:
                changed = [nm for nm, a, b in (("UtM", UtM_obj, p["B"]), ("UtU", UtU_obj, p["G"])) if not np.array_equal(a, b)]
                if changed:
                    msg += f" [the caller's {' and '.join(changed)} no longer equal the data passed to the first call: an earlier call wrote into its input]"
                chk.finding(ep, inp, msg, "C13_kkt_optimal_sequence", observed=np.asarray(V))
                break
            prev = np.asarray(V, dtype=float)

    # ---------------- A'. active set on random warm-started problems (the input class of the former rounding defect)
    for t in range(T["aswarm"]):
        r = rng.randint(2, 8)
        p = gen_problem(rng, r, 1, rng.random() < 0.5, 0.0, 0.0, style="mixed")
        p["Xs"] = p["X"]
        x0 = np.array([rng.randint(1, 64) / 64 if rng.random() < rng.choice([0.4, 0.7, 1.0]) else 0.0 for _ in range(r)])
        if x0.max() > 0:
            as_point(chk, p, 0, x0, active_set_nnls, add_case, conv_case, light=True)

    # degenerate cases: exact zeros in the block solutions (diagonal UtU, zero multipliers), cold and fully positive warm starts
    for t in range(max(6, T["aswarm"] // 12)):
        r = rng.randint(1, 6)
        p = gen_problem(rng, r, 1, True, 0.0, 0.0, style=rng.choice(["degenerate", "zero_degenerate"]), diag=rng.random() < 0.7)
        p["Xs"] = p["X"]
        as_point(chk, p, 0, None, active_set_nnls, add_case, conv_case, light=True)
        as_point(chk, p, 0, dyadic_start(rng, r, 1, "dense")[:, 0], active_set_nnls, add_case, conv_case, light=True)

    # ---------------- B. HALS passes: model vs implementation from the same start
    for t, (r, n) in enumerate(sizes(T["npass"])):
        signed = rng.random() < 0.5
        l1 = rng.choice([None, None, 0.25, 1.0, 0.0]); l2 = rng.choice([None, None, 0.125, 0.5])
        kind = rng.choice(["dense", "sparse", "zero", "infeasible", "cold", "cold"])
        # cold starts: problems of different magnitude (the rescaling denominator sum(UtU * V V^T) above and below 1)
        scale = rng.choice([1.0, 2.0 ** -6, 2.0 ** -9]) if kind == "cold" else 1.0
        nz = rng.random() < 0.25
        # nonzero_rows: make the safety procedure fire (rows clipped to zero while other rows are positive)
        style_b = rng.choice(["all_active", "zero_degenerate", "mixed"]) if nz else rng.choice([None, None, "all_active"])
        p = gen_problem(rng, r, n, signed, l1 or 0.0, l2 or 0.0, style=style_b, scale=scale)
        G, B = p["G"].copy(), p["B"]
        eps = rng.choice([0.0, 0.0, 0.0, 2.0 ** -10, 0.5]) if not nz or rng.random() < 0.3 else 0.0
        if nz and rng.random() < 0.3 and r > 1 and kind != "cold":
            k0 = rng.randrange(r); G[k0, :] = 0; G[:, k0] = 0        # "Column k of U is zero": must raise
        elif kind != "cold" and rng.random() < 0.1 and r > 1:
            k0 = rng.randrange(r); G[k0, :] = 0; G[:, k0] = 0        # zero diagonal without nonzero_rows: row skipped
        iters = rng.choice([1, 1, 2, 3, 3])
        tol = rng.choice([0.0, 0.0, 0.5, 0.5, 0.125, 0.875])      # the stopping rule fires at different passes
        V0 = None if kind == "cold" else dyadic_start(rng, r, n, kind)
        sol = np.zeros((r, n)); impl0 = np.zeros((r, n))
        kw = dict(sparsity_coefficient=l1, ridge_coefficient=l2, nonzero_rows=nz, epsilon=eps)
        if iters >= 2 and rng.random() < 0.7:
            # place tol next to an actual ratio rec_error_j / rec_error_0 of this run (observed through the documented callback
            # in a probe run with tol = 0), 25% above or 20% below: the stopping rule then fires, or just does not fire, at pass j
            errs = []
            st_p, _ = C.call_impl(lambda: quiet(hals_nnls, B.copy(), G.copy(), V=None if V0 is None else V0.copy(), n_iter_max=iters, tol=0,
                                                callback=lambda V_, e_: errs.append(float(e_)), **kw))
            if st_p == "ok" and len(errs) >= 2 and errs[0] > 0 and all(math.isfinite(e) for e in errs):
                j = rng.randrange(1, len(errs))
                ratio = errs[j] / errs[0]
                t = ratio * (1.25 if rng.random() < 0.6 else 0.8)
                if t > 1:
                    t = min(1.0, ratio * 1.05) if ratio < 0.95 else ratio * 0.8
                t = math.floor(t * 4096) / 4096
                if 0 < t <= 1 and abs(t - ratio) > 0.02 * ratio:
                    tol = t
                    chk.hist("hals_stop_rule", "tol placed next to an observed ratio")
        try:
            if V0 is None:
                sol = np.linalg.solve(G, B)       # the recorded answer of tl.solve (same LAPACK routine, same input)
                st0, impl0 = impl_call(chk, lambda: quiet(hals_nnls, B.copy(), G.copy(), V=None, n_iter_max=0, tol=tol, **kw))
                if st0 != "ok" or not finite(impl0):
                    chk.finding(EP_HALS, inputs_json(p, V0=None, n_iter_max=0), f"hals_nnls cold start is not a finite matrix: {impl0}", "C13_hals_returns",
                                observed=impl0 if st0 == "ok" else None)
                    continue
            # how the run is limited to `iters` passes: by n_iter_max; by the documented callback answering True at pass `iters`
            # (larger budget, tol = 0); or exact=True (n_iter_max and tol replaced by 50000 and 1e-16) cut by the callback
            mode = rng.choice(["n_iter_max", "n_iter_max", "callback", "exact"])
            if mode == "n_iter_max":
                st, V = impl_call(chk, lambda: quiet(hals_nnls, B.copy(), G.copy(), V=None if V0 is None else V0.copy(), n_iter_max=iters, tol=tol, **kw))
            else:
                cnt = [0]

                def cb(V_, e_):
                    cnt[0] += 1
                    return True if cnt[0] >= iters else None
                if mode == "callback":
                    tol = 0.0
                    st, V = impl_call(chk, lambda: quiet(hals_nnls, B.copy(), G.copy(), V=None if V0 is None else V0.copy(), n_iter_max=iters + 3, tol=0.0, callback=cb, **kw))
                else:
                    tol = 1e-16
                    st, V = impl_call(chk, lambda: quiet(hals_nnls, B.copy(), G.copy(), V=None if V0 is None else V0.copy(), n_iter_max=1, tol=0.5, exact=True, callback=cb, **kw))
            chk.hist("hals_pass_limit", mode)
        except Skip:
            continue
        if st == "ok":
            impl = f"(Ok (Some {mat_lit(V)}))" if finite(V) else "(Ok None)"
        elif st == "reject":
            impl = "Err"
        else:
            chk.finding(EP_HALS, inputs_json(p, V0=V0), f"hals_nnls crashed: {V}", "C13_hals_returns")
            continue
        o = f"(mkH {optq(l1)} {optq(l2)} {C.boolc(nz)} {C.q(eps)} {C.q(MEPS)})"
        v0 = "None" if V0 is None else f"(Some {mat_lit(V0)})"
        add_case(lambda cid: f"(CHals {cid}%nat {mat_lit(B)} {mat_lit(G)} {n}%nat {v0} {mat_lit(sol)} {iters}%nat {C.q(tol)} {o} {mat_lit(impl0)} {impl})",
                 ("pass-hals", kind, r, n, l1, l2, eps, nz, iters, st))
        chk.count(key=("hals-pass", r, n, kind, l1, l2, eps, nz, iters), nontrivial=r * n > 1)
        chk.hist("hals_pass_start", kind); chk.hist("hals_pass_outcome", "raised" if st != "ok" else ("nan" if not finite(V) else "ok"))
        if st == "ok" and not finite(V):
            chk.finding(EP_HALS, inputs_json(p, V0=V0, epsilon=eps, n_iter_max=iters), "hals_nnls returned non-finite entries on a well-conditioned problem",
                        "C13_hals_returns", observed=V)
        # predicate (the model's hals_rejects, C13_hals_nnls_ge_eps_any_nonzero_rows): with nonzero_rows=True a zero column of U
        # (UtU[k,k] = 0) is refused with ValueError as soon as one pass runs
        if nz and iters >= 1 and st == "ok" and any(G[k, k] == 0 for k in range(r)):
            chk.finding(EP_HALS, inputs_json(dict(p, G=G), V0=V0, epsilon=eps, n_iter_max=iters, nonzero_rows=True),
                        "nonzero_rows=True and a zero diagonal entry of UtU: hals_nnls returned instead of raising ValueError", "C13_hals_rejects_zero_column", observed=V)
        # predicate (documented contract of nonzero_rows=True, a TEST -- no theorem): an updated row is not left identically zero when the
        # matrix has a positive entry at that moment (the safety value is eps(dtype) * max(V)).  Decidable from outside for a single pass
        # from a warm start: when row k is updated, the rows below it still hold their start values
        if st == "ok" and finite(V) and nz and iters == 1 and V0 is not None:
            zr = [k for k in range(r - 1) if G[k, k] != 0 and float(np.max(V0[k + 1:, :])) > 0 and not np.any(V[k, :] != 0)]
            if zr:
                chk.finding(EP_HALS, inputs_json(p, V0=V0, epsilon=eps, n_iter_max=iters, nonzero_rows=True),
                            f"nonzero_rows=True but row {zr[0]} of the result is identically zero although the matrix had positive entries when it was updated",
                            "C13_hals_nonzero_rows", observed=V)
            chk.hist("hals_nonzero_rows", "single pass from a warm start: checked")
        # predicate (theorem (i)): every updated row is >= eps after at least one pass
        if st == "ok" and finite(V):
            upd = [k for k in range(r) if G[k, k] != 0]
            if upd and float(np.min(V[upd, :])) < eps and not nz:
                chk.finding(EP_HALS, inputs_json(p, V0=V0, epsilon=eps, n_iter_max=iters), f"iterate below epsilon: {float(np.min(V[upd, :]))} < {eps}",
                            "C13_hals_iterates_ge_eps", observed=V)

    # ---------------- B'. the cold start alone (n_iter_max = 0) vs the model's hals_init, over problem magnitudes
    for t, (r, n) in enumerate(sizes(T["ncold"])):
        p = gen_problem(rng, r, n, rng.random() < 0.5, 0.0, 0.0, style=rng.choice(["mixed", "mixed", "degenerate", "all_active"]),
                        scale=rng.choice([1.0, 2.0 ** -4, 2.0 ** -6, 2.0 ** -9]))
        G, B = p["G"], p["B"]
        sol = np.linalg.solve(G, B)
        try:
            st0, impl0 = impl_call(chk, lambda: quiet(hals_nnls, B.copy(), G.copy(), V=None, n_iter_max=0))
        except Skip:
            continue
        chk.count(key=("hals-cold-start", r, n, p["style"]), nontrivial=r * n > 1)
        chk.hist("hals_pass_start", "cold-start-only")
        if st0 != "ok" or not finite(impl0):
            chk.finding(EP_HALS, inputs_json(p, V0=None, n_iter_max=0), f"hals_nnls cold start is not a finite matrix: {impl0}", "C13_hals_returns",
                        observed=impl0 if st0 == "ok" else None)
            continue
        o = f"(mkH None None false {C.q(0.0)} {C.q(MEPS)})"
        add_case(lambda cid: f"(CHals {cid}%nat {mat_lit(B)} {mat_lit(G)} {n}%nat None {mat_lit(sol)} 0%nat {C.q(0.0)} {o} {mat_lit(impl0)} (Ok (Some {mat_lit(impl0)})))",
                 ("cold-start-only", r, n, p["style"]))

    # ---------------- C. FISTA iterations: model vs implementation
    for t, (r, n) in enumerate(sizes(T["nfista"])):
        p = gen_problem(rng, r, n, rng.random() < 0.5, rng.choice(L1), rng.choice(L2))
        G, B = p["G"], p["B"]
        K = rng.choice([1, 2, 3, 4, 4, 4])
        nonneg = rng.random() < 0.85
        eps = rng.choice([0.0, 1e-8, 0.25])
        tol = rng.choice([0.0, 0.0, 0.5, 0.5, 0.125, 0.875])      # the stopping rule fires at different iterations
        u = rng.random()
        # lr=None: the code takes 1 / (leading singular value of UtU + 2 ridge); the model receives the same quantity computed
        # from numpy's independent 2-norm (recorded LAPACK answer)
        lr_arg = None if u < 0.4 else (float(Fr(1) / Fr(float(np.linalg.norm(G, 2) + 2 * p["l2"]))) if u < 0.8 else rng.choice([0.125, 0.03125]))
        lr = lr_arg if lr_arg is not None else 1.0 / (float(np.linalg.norm(G, 2)) + 2 * p["l2"])
        x0 = None if rng.random() < 0.4 else dyadic_start(rng, r, n, rng.choice(["dense", "sparse", "infeasible"]))
        fkw = dict(non_negative=nonneg, sparsity_coef=p["l1"], ridge_coef=p["l2"], lr=lr_arg, epsilon=eps)
        if K >= 2 and rng.random() < 0.7:
            # place tol next to an actual ratio norm_j / norm_0 of this run (iterates of probe runs with tol = 0)
            xs = [np.zeros((r, n)) if x0 is None else x0]
            okp = True
            for k in range(1, K + 1):
                st_p, y = C.call_impl(lambda: fista(B.copy(), G.copy(), x=None if x0 is None else x0.copy(), n_iter_max=k, tol=0, **fkw))
                okp = okp and st_p == "ok" and finite(y)
                if not okp:
                    break
                xs.append(np.asarray(y, dtype=float))
            if okp:
                norms = [float(np.sum(np.abs(xs[k - 1] - xs[k]))) for k in range(1, K + 1)]
                if norms[0] > 0:
                    j = rng.randrange(1, K)
                    ratio = norms[j] / norms[0]
                    t = math.floor(ratio * (1.25 if rng.random() < 0.6 else 0.8) * 4096) / 4096
                    if 0 < t <= 1 and abs(t - ratio) > 0.05 * ratio:
                        tol = t
                        chk.hist("fista_stop_rule", "tol placed next to an observed ratio")
        try:
            st, V = impl_call(chk, lambda: fista(B.copy(), G.copy(), x=None if x0 is None else x0.copy(), n_iter_max=K, tol=tol, **fkw))
        except Skip:
            continue
        if st != "ok" or not finite(V):
            chk.finding(EP_FISTA, inputs_json(p, x0=x0, lr=lr_arg, epsilon=eps, n_iter_max=K), f"fista failed: {V}", "C13_fista_returns")
            continue
        betas = fista_betas(K)
        x0m = np.zeros((r, n)) if x0 is None else x0
        add_case(lambda cid: (f"(CFista {cid}%nat {mat_lit(B)} {mat_lit(G)} {n}%nat {C.boolc(nonneg)} {C.q(p['l1'])} {C.q(p['l2'])} {C.q(lr)} "
                              f"{C.q(tol)} {C.q(eps)} {mat_lit(x0m)} {C.q_list(betas)} {mat_lit(V)})"),
                 ("iter-fista", r, n, K, nonneg, eps, "lr=None" if lr_arg is None else lr_arg))
        chk.count(key=("fista-iter", r, n, K, nonneg, eps, x0 is None, lr_arg is None), nontrivial=r * n > 1)
        chk.hist("fista_lr", "default (from the singular value)" if lr_arg is None else "given")
        if nonneg and float(np.min(V)) < eps:
            chk.finding(EP_FISTA, inputs_json(p, x0=x0, lr=lr_arg, epsilon=eps, n_iter_max=K), f"iterate below epsilon: {float(np.min(V))}",
                        "C13_fista_iterates_ge_eps", observed=V)

    # ---------------- C'. fista with a LIST [A, B] as UtU (the multi_mode_dot branch; core update of non_negative_tucker_hals):
    # unknown r1 x r2, gradient A x B^T - UtM + l1 + 2 l2 x; problems constructed from a KKT pair of the Kronecker problem
    for t in range(T["nfista2"]):
        r1, r2 = rng.randint(1, 4), rng.randint(1, 4)
        _, A = gen_design(rng, r1, rng.random() < 0.5); _, Bm = gen_design(rng, r2, rng.random() < 0.5)
        l1 = rng.choice(L1); l2 = rng.choice([0.0, 0.0, 0.125])
        symmetric = t % 2 == 0          # odd cases: non-symmetric matrices (multi_mode_dot must not transpose them); iterations only
        if not symmetric:
            A = A + np.triu(np.ones((r1, r1)), 1) / 8; Bm = Bm - np.tril(np.ones((r2, r2)), -1) / 4
        X = np.zeros((r1, r2)); MU = np.zeros((r1, r2))
        for i in range(r1):
            for j in range(r2):
                if rng.random() < 0.5:
                    X[i, j] = rng.randint(1, 32) / 8
                else:
                    MU[i, j] = rng.randint(0, 32) / 8
        UtM2 = A @ X @ Bm.T - MU + l1 + 2 * l2 * X
        Lc = float(np.linalg.norm(A, 2) * np.linalg.norm(Bm, 2) + 2 * l2)
        lr = float(Fr(1) / Fr(Lc)) if rng.random() < 0.7 else 2.0 ** -7
        K = rng.choice([1, 2, 3, 4, 4]); nonneg = rng.random() < 0.85
        eps = rng.choice([0.0, 1e-8, 0.25]); tol = rng.choice([0.0, 0.0, 0.5, 0.125])
        x0 = None if rng.random() < 0.4 else dyadic_start(rng, r1, r2, rng.choice(["dense", "sparse", "infeasible"]))
        fkw2 = dict(non_negative=nonneg, sparsity_coef=l1, ridge_coef=l2, lr=lr, epsilon=eps)
        inp2 = {"UtM": UtM2, "UtU": [A, Bm], "l1": l1, "l2": l2, "x0": x0, "lr": lr, "epsilon": eps, "n_iter_max": K, "list_UtU": True, "non_negative": nonneg}
        try:
            st, V = impl_call(chk, lambda: fista(UtM2.copy(), [A.copy(), Bm.copy()], x=None if x0 is None else x0.copy(), n_iter_max=K, tol=tol, **fkw2))
        except Skip:
            continue
        if st != "ok" or not finite(V):
            chk.finding(EP_FISTA, inp2, f"fista (list UtU) failed: {V}", "C13_fista_returns")
            continue
        x0m = np.zeros((r1, r2)) if x0 is None else x0
        betas = fista_betas(K)
        add_case(lambda cid: (f"(CFista2 {cid}%nat {mat_lit(UtM2)} {mat_lit(A)} {mat_lit(Bm)} {r2}%nat {C.boolc(nonneg)} {C.q(l1)} {C.q(l2)} {C.q(lr)} "
                              f"{C.q(tol)} {C.q(eps)} {mat_lit(x0m)} {C.q_list(betas)} {mat_lit(V)})"),
                 ("iter-fista-list", r1, r2, K, nonneg, eps))
        chk.count(key=("fista-list-iter", r1, r2, K, nonneg, eps, x0 is None), nontrivial=r1 * r2 > 1)
        chk.hist("solver", "fista/list-UtU")
        if nonneg and float(np.min(V)) < eps:
            chk.finding(EP_FISTA, inp2, f"iterate below epsilon: {float(np.min(V))}", "C13_fista_iterates_ge_eps", observed=V)
        # predicate (theorem C13_fista_list_is_fista_on_kronecker, round 8): the list branch is the matrix branch on the Kronecker matrix
        try:
            stk, msgk = impl_call(chk, list_vs_kronecker, fista, UtM2, A, Bm, x0, K, fkw2)
        except Skip:
            continue
        chk.hist("fista_list_vs_kronecker", "compared")
        if stk != "ok":
            chk.finding(EP_FISTA, dict(inp2, kronecker_identity=True), f"fista failed on the list / Kronecker pair: {msgk}", "C13_fista_list_is_fista_on_kronecker")
        elif msgk:
            chk.finding(EP_FISTA, dict(inp2, kronecker_identity=True), msgk, "C13_fista_list_is_fista_on_kronecker", observed=V)
        # run to convergence (restarted, tol = 0) and test KKT / objective of the Kronecker problem against the constructed optimum
        if symmetric:
            def conv2():
                x = None
                for _ in range(12):
                    y = fista(UtM2.copy(), [A.copy(), Bm.copy()], x=x, n_iter_max=1500, sparsity_coef=l1, ridge_coef=l2, lr=float(Fr(1) / Fr(Lc)), tol=0, epsilon=0.0)
                    if not finite(y):
                        return y
                    done = x is not None and np.max(np.abs(y - x)) <= 1e-14 * (1 + np.max(np.abs(y)))
                    x = y.copy()
                    if done:
                        break
                return x
            try:
                st, Vc = impl_call(chk, conv2, timeout=180)
            except Skip:
                continue
            if st != "ok" or not finite(Vc):
                chk.finding(EP_FISTA, inp2, f"fista (list UtU) failed: {Vc}", "C13_fista_returns")
                continue
            g = A @ Vc @ Bm.T - UtM2 + l1 + 2 * l2 * Vc
            scale = 1 + float(np.max(np.abs(UtM2))) + float(np.max(np.abs(Vc)))
            f = lambda Z: float(0.5 * np.sum(Z * (A @ Z @ Bm.T)) - np.sum(UtM2 * Z) + l1 * np.sum(Z) + l2 * np.sum(Z * Z))
            msg = None
            if float(np.min(Vc)) < 0:
                msg = f"fista(list UtU): negative entry {float(np.min(Vc))}"
            elif float(np.min(g)) < -1e-6 * scale or float(np.max(np.abs(Vc * g))) > 1e-6 * scale * scale:
                msg = f"fista(list UtU): KKT violated: min gradient {float(np.min(g)):.3g}, complementarity {float(np.max(np.abs(Vc * g))):.3g}"
            elif abs(f(Vc) - f(X)) > 1e-6 * (1 + abs(f(X))):
                msg = f"fista(list UtU): objective {f(Vc)!r} differs from the constructed optimum {f(X)!r}"
            chk.count(key=("fista-list-conv", r1, r2, l1, l2), nontrivial=r1 * r2 > 1)
            if msg:
                chk.finding(EP_FISTA, dict(inp2, protocol="run to convergence (restarted, tol=0)", x0=None, epsilon=0.0), msg, "C13_kkt_optimal", observed=Vc)

    # ---------------- C''. the ENTRY POINT fista with its argument handling (Model/NnlsEntry.v fista_call): sparsity_coef / ridge_coef /
    # lr / x passed as None or as numbers, tol = 0 (no stopping decision).  ridge_coef=None (offered by the docstring) raised TypeError
    # before /repo ae57725; it is read as 0 now, and so does the model
    for t in range(T["ncall"]):
        r, n = rng.randint(1, 5), rng.randint(1, 3)
        sp_arg = rng.choice([None, None, 0.0, 0.25])
        rd_arg = None if t % 4 == 0 else rng.choice([0.0, 0.125, 0.5])
        p = gen_problem(rng, r, n, rng.random() < 0.5, sp_arg or 0.0, rd_arg or 0.0)
        G, B = p["G"], p["B"]
        K = rng.choice([1, 2, 3]); nonneg = rng.random() < 0.8; eps = rng.choice([0.0, 1e-8])
        sigma = float(np.linalg.norm(G, 2))
        lr_arg = None if rng.random() < 0.5 else float(Fr(1) / Fr(sigma + 2 * (rd_arg or 0.0)))
        x0 = None if rng.random() < 0.5 else dyadic_start(rng, r, n, rng.choice(["dense", "sparse", "infeasible"]))
        inp = {"UtM": B, "UtU": G, "l1": sp_arg or 0.0, "l2": rd_arg or 0.0, "sparsity_coef": sp_arg, "ridge_coef": rd_arg, "lr": lr_arg, "x0": x0,
               "epsilon": eps, "n_iter_max": K, "non_negative": nonneg, "entry_call": True}
        try:
            st, V = impl_call(chk, lambda: fista(B.copy(), G.copy(), x=None if x0 is None else x0.copy(), n_iter_max=K, non_negative=nonneg,
                                                 sparsity_coef=sp_arg, ridge_coef=rd_arg, lr=lr_arg, tol=0, epsilon=eps))
        except Skip:
            continue
        chk.count(key=("fista-call", r, n, sp_arg is None, rd_arg is None, lr_arg is None, x0 is None, K, nonneg), nontrivial=r * n > 1)
        chk.hist("solver", "fista/entry-call"); chk.hist("fista_call_ridge", "None" if rd_arg is None else "number")
        if st == "crash" or (st == "ok" and not finite(V)):
            chk.finding(EP_FISTA, inp, f"fista failed on documented arguments: {V}", "C13_fista_returns")
            continue
        if st == "reject":
            chk.finding(EP_FISTA, inp, f"fista raised on documented arguments: {V}", "C13_fista_returns")
        impl = "Err" if st == "reject" else f"(Ok {mat_lit(V)})"
        x0l = "None" if x0 is None else f"(Some {mat_lit(x0)})"
        betas = fista_betas(K)
        add_case(lambda cid: (f"(CFistaCall {cid}%nat {mat_lit(B)} {mat_lit(G)} {n}%nat {C.boolc(nonneg)} {optq(sp_arg)} {optq(rd_arg)} {optq(lr_arg)} "
                              f"{C.q(sigma)} {C.q(eps)} {x0l} {C.q_list(betas)} {impl})"),
                 ("call-fista", r, n, K, sp_arg, rd_arg, lr_arg is None, x0 is None))
        if st == "ok" and nonneg and float(np.min(V)) < eps:
            chk.finding(EP_FISTA, inp, f"iterate below epsilon: {float(np.min(V))}", "C13_fista_iterates_ge_eps", observed=V)

    # ---------------- D. active set: model (exact elimination, exact step) vs implementation
    as_inputs = [(p, x0, 100) for p, x0 in as_corpus]
    for t in range(T["nas"]):
        r = rng.randint(1, 8)
        if t % 8 == 0:     # exact zeros in the block solutions
            p = gen_problem(rng, r, 1, True, 0.0, 0.0, style=rng.choice(["degenerate", "zero_degenerate"]), diag=rng.random() < 0.7)
        else:
            p = gen_problem(rng, r, 1, rng.random() < 0.5, 0.0, 0.0)
        x0 = None
        if rng.random() < 0.6:
            x0 = dyadic_start(rng, r, 1, rng.choice(["dense", "sparse"]))[:, 0]
            if x0.max() <= 0:
                x0 = None
        as_inputs.append((p, x0, rng.choice([1, 2, 100, 100])))
    for p, x0, iters in as_inputs:
        # the tol argument: the default, and two large values (the termination test `max gradient on the active set <= tol` then fires
        # earlier); not dyadic, so that no gradient of these dyadic problems sits on the threshold
        as_tol = 10e-8 if rng.random() < 0.6 else rng.choice([0.3712, 1.9])
        b, G, r = p["B"][:, 0], p["G"], p["r"]
        try:
            # a quarter of the warm starts are passed as an (r, 1) matrix: the code vectorises its start (tl.base.tensor_to_vec)
            x0_arg = None if x0 is None else (x0.reshape(-1, 1).copy() if rng.random() < 0.25 else x0.copy())
            st, x = impl_call(chk, lambda: active_set_nnls(b.copy(), G.copy(), x=x0_arg, n_iter_max=iters, tol=as_tol))
        except Skip:
            continue
        if x0_arg is not None and x0_arg.ndim == 2:
            chk.hist("active_set_model_vs_impl", "warm start given as a matrix")
        impl = f"(Some {vec_lit(x)})" if st == "ok" and finite(x) else "None"
        x0l = "None" if x0 is None else f"(Some {vec_lit(x0)})"
        add_case(lambda cid: f"(CAset {cid}%nat {vec_lit(b)} {mat_lit(G)} {x0l} {iters}%nat {C.q(as_tol)} {impl})",
                 ("aset", r, x0 is not None, iters, st, p["style"]))
        chk.count(key=("aset", r, x0 is not None, iters, p["style"], p["signed"]), nontrivial=r > 1)
        chk.hist("active_set_model_vs_impl", ("warm" if x0 is not None else "cold") + f"/n_iter_max={iters}")
        chk.hist("active_set_tol", "default" if as_tol == 10e-8 else str(as_tol))

    # ---------------- E. ADMM with n_const=None
    for t in range(T["nadmm"]):
        r = rng.randint(1, 8); m = rng.randint(1, 5)
        p = gen_problem(rng, r, m, rng.random() < 0.5, 0.0, 0.0)
        G = p["G"]; UtM = p["B"].T.copy()                 # m x r
        if rng.random() < 0.5:                             # a non-symmetric system matrix: the code solves with UtU^T
            G = G + np.triu(np.ones((r, r)), 1) / 8
            if np.linalg.cond(G) > 100:
                G = p["G"]
        x = dyadic_start(rng, m, r, "dense"); dual = dyadic_start(rng, m, r, "sparse")
        nit = rng.choice([1, 100])
        try:
            st, out = impl_call(chk, lambda: admm(UtM.copy(), G.copy(), x.copy(), dual.copy(), n_const=None, n_iter_max=nit))
        except Skip:
            continue
        inp = {"UtM": UtM, "UtU": G, "x": x, "dual_var": dual}
        if st != "ok":
            chk.finding(EP_ADMM, inp, f"admm(n_const=None) failed: {out}", "C13_admm_returns")
            continue
        xo, xs, dv = out
        ref = np.linalg.solve(G.T, UtM.T).T
        chk.count(key=("admm", r, m), nontrivial=r * m > 1)
        chk.hist("solver", "admm(n_const=None)")
        if xo.shape != ref.shape or not np.allclose(xo, ref, rtol=1e-9, atol=1e-12):
            chk.finding(EP_ADMM, inp, "admm(n_const=None) does not return numpy.linalg.solve(UtU^T, UtM^T)^T", "C13_admm_least_squares", observed=xo)
            continue
        if not np.array_equal(dv, dual):
            chk.finding(EP_ADMM, inp, "admm(n_const=None) changed the dual variable", "C13_admm_least_squares", observed=dv)
            continue
        add_case(lambda cid: f"(CAdmm {cid}%nat {mat_lit(UtM)} {mat_lit(G)} {mat_lit(x)} {mat_lit(dual)} {m}%nat {r}%nat {mat_lit(xo)} {mat_lit(xs)})",
                 ("admm", r, m))

    # ---------------- F. the whole function admm (loop, proximal_operator call with n_const / order, stopping rule, raising calls)
    C13_admm.run_cases(chk, rng, T["nadmmloop"], admm, add_case, gen_problem, dyadic_start, impl_call, mat_lit, Skip)
    C13_admm.run_predicates(chk, rng, T["nadmmpred"], admm, gen_problem, dyadic_start, impl_call, Skip)
    C13_admm.run_nonneg_predicates(chk, rng, T["nadmmnn"], admm, gen_problem, dyadic_start, impl_call, Skip)
    # ---------------- G. active_set_nnls on semidefinite problems with an exactly singular block: the `except:` path
    C13_admm.run_aset_fallback(chk, rng, T["nasfb"], active_set_nnls, add_case, impl_call, vec_lit, mat_lit, Skip, EP_AS)

    # ---------------- evaluate the correspondence inside Coq
    failing, n_eval, broken = C.run_case_shards("C13", HEADER, "case", cases, shard=24 if chk.tier == "quick" else 30, timeout=3000)
    chk.checker_cmds.append("coqc (vm_compute) on generated build/cases/C13/*.v: Corr.C13.failing")
    chk.cov["traces_validated_against_impl"] = n_eval
    chk.cov["exhaustive"] = False
    chk.cov["rule"] = ("problems constructed from a chosen KKT pair (x*, mu*) over dyadic rationals (exact optimum known): every size 1-8 unknowns x 1-5 right-hand sides, "
                       "signed and non-negative designs with cond(UtU) <= 100, optimum styles mixed / interior / all-active / degenerate, l1 in {0, .25, 1}, ridge in {0, .125, .5}; "
                       "corpus of the former defects first; solvers run to convergence from cold and warm (dense / sparse / zero) starts -> predicates + exact certificates (CConv); "
                       "single calls with the default n_iter_max / tol / lr -> approximately optimal (looser tolerance); "
                       "1-3 HALS passes and 1-4 FISTA iterations (given and default step) from dense / sparse / zero / infeasible / cold starts with epsilon, nonzero_rows, zero diagonals -> model vs implementation; "
                       "the cold start of hals_nnls (n_iter_max=0) vs the model's hals_init; the entry point fista with sparsity_coef / ridge_coef / lr / x given or None vs the model's fista_call; "
                       "active set cold / warm (a quarter of the warm starts given as an (r,1) matrix) vs the exact model; ADMM(n_const=None) vs the model with exact elimination; the whole function admm (n_const / order given or None, no constraint / non_negative / l1_reg / l2_square_reg, 0-4 iterations, tol default / 0 / negative / .5 / placed around an observed ratio, calls that raise) vs Model/NnlsAdmm.v. "
                       "non-trivial = more than one unknown*rhs; distinct key = (solver, size, design sign, optimum style, start, coefficients, epsilon)")
    for b_ in broken:
        chk.broken.append({"what": "correspondence corr:C13 shard not evaluated", "detail": b_})
    for i in sorted(failing):
        chk.disagreement("corr:C13 (Model/Nnls.v vs tensorly/solvers/nnls.py, admm.py)", {"case": list(map(str, meta[i]))})
    chk.assumptions = ["tl.solve / numpy.linalg.solve answers satisfy their contract on the generated well-conditioned systems (checked: the exact elimination of the model agrees to 1e-7)",
                       "float64 arithmetic of the implementation is within 1e-9 (relative) of exact arithmetic on 1-4 iterations of these well-conditioned problems",
                       "'run to convergence' is a limit statement: proved are monotone descent + fixed point <=> KKT => optimal; that the returned point is an approximate fixed point is measured (CConv)"]
    chk.trusted = ["scipy.optimize.nnls as independent reference (objective value only)",
                   "static tie (C13_tie.py): the translator from the Python ast to Gallina terms is trusted to render the arithmetic faithfully (it knows only +, -, *, /, clip, where, dot, "
                   "transpose, sum, abs, copy, solve and fails closed on anything else); what it does not translate (the list branch, try / except and block solves of active_set_nnls, validate_constraints) is tied by the differential correspondence only",
                   "the leading singular value (numpy 2-norm) enters the model as recorded data; the FISTA momentum coefficients are computed in the model (2^-60 square root) and compared with the recorded float sequence to 1e-14, the iterations are evaluated with the recorded values",
                   "admm (whole function): norms compared in squared form (C13_admm_norm_test_is_norm_test), validate_constraints modelled for one scalar constraint or none and orders >= 0",
                   "stopping decisions: when every decision e < t of the model's run is clear-cut (|e - t| > 1e-6 (|e| + |t|)) the implementation must return the model's result; only borderline decisions (incl. e = t = 0) fall back to accepting any prefix iterate"]
    return chk.finish(CLASSIFIERS)


def as_point(chk, p, j, x0, active_set_nnls, add_case, conv_case, light=False):
    """active_set_nnls on column j: predicate; exact certificate when it holds"""
    b, G = p["B"][:, j], p["G"]
    try:
        st, x = impl_call(chk, lambda: active_set_nnls(b.copy(), G.copy(), x=None if x0 is None else x0.copy()))
    except Skip:
        return
    r = p["r"]
    chk.count(key=("active_set", r, p["signed"], p["style"], x0 is None, None if x0 is None else int((x0 > 0).sum())), nontrivial=r > 1)
    chk.hist("solver", "active_set_nnls/" + ("cold" if x0 is None else "warm"))
    inp = {"Utm": b, "UtU": G, "x0": x0, "n_iter_max": 100, "tol": 10e-8}
    if st != "ok":
        chk.finding(EP_AS, inp, f"active_set_nnls raised on a well-conditioned problem: {x}", "C13_active_set_returns")
        return
    pj = dict(p); pj["B"] = p["B"][:, j:j + 1]; pj["X"] = p["X"][:, j:j + 1]; pj["MU"] = p["MU"][:, j:j + 1]; pj["Xs"] = p["Xs"][:, j:j + 1]; pj["n"] = 1
    msg = check_point(pj, np.asarray(x).reshape(-1, 1), 0.0, "active_set_nnls(" + ("cold" if x0 is None else "warm") + ")")
    if msg:
        chk.finding(EP_AS, inp, msg, "C13_kkt_optimal", observed=np.asarray(x))
    elif not light:
        lr = 1.0 / float(np.linalg.norm(G, 2))
        add_case(conv_case(pj, np.asarray(x).reshape(-1, 1), 1, 0.0, lr, 1e-6), ("conv-aset", j, x0 is None, r, 1))


def replay(payload):
    """re-run a stored failing input against the current implementation; 1 = still failing"""
    if payload.get("kind") != "failing-input":
        print("replay file names a broken theorem/correspondence, not an input:", payload.get("theorem_or_correspondence"))
        return 1
    C.reset_backends()
    from tensorly.solvers.nnls import hals_nnls, fista, active_set_nnls
    from tensorly.solvers.admm import admm
    arr = lambda v: None if v is None else (C.from_jsonable_array(v) if isinstance(v, dict) else np.asarray(v, dtype=float))
    inp, ep = payload["inputs"], payload["entry_point"]
    if ep == EP_ADMM and inp.get("admm_call"):
        return C13_admm.replay(payload, admm)
    if ep == EP_ADMM:
        UtM, G, x, dual = arr(inp["UtM"]), arr(inp["UtU"]), arr(inp["x"]), arr(inp["dual_var"])
        st, out = C.call_impl(lambda: admm(UtM.copy(), G.copy(), x.copy(), dual.copy(), n_const=None))
        bad = st != "ok" or not np.allclose(out[0], np.linalg.solve(G.T, UtM.T).T, rtol=1e-9, atol=1e-12) or not np.array_equal(out[2], dual)
        print("replay admm:", "fails" if bad else "holds")
        return 1 if bad else 0
    if inp.get("sequence"):
        G, B = arr(inp["UtU"]), arr(inp["UtM"]); l1, l2 = float(inp.get("l1", 0.0)), float(inp.get("l2", 0.0))
        r, n = B.shape
        p = dict(U=np.linalg.cholesky(G).T, G=G, B=B, l1=l1, l2=l2, r=r, n=n, MU=np.zeros((r, n)))
        p["Xs"] = scipy_reference(p); p["X"] = p["Xs"]
        UtM_obj, UtU_obj = B.copy(), G.copy(); arrays = (UtM_obj, UtU_obj)
        prev, msg = None, None
        for name in inp["sequence"]:
            if name.startswith("hals"):
                V0 = None if "cold" in name else (prev.copy() if "restart" in name else np.clip(prev + 0.125, 0, None))
                st, V = C.call_impl(run_hals_converged, p, V0, 0.0, False, arrays=arrays, timeout=240)
            elif name == "fista":
                st, V = C.call_impl(run_fista_converged, p, None, 0.0, None, arrays=arrays, timeout=240)
            else:
                st, V = C.call_impl(lambda: np.stack([np.asarray(active_set_nnls(UtM_obj[:, j], UtU_obj)) for j in range(n)], axis=1), timeout=240)
            msg = f"raised {V}" if st != "ok" else check_point(p, V, 0.0, name)
            if msg:
                break
            prev = np.asarray(V, dtype=float)
        print("replay: sequence", inp["sequence"], "->", msg or "holds")
        return 1 if msg else 0
    if inp.get("entry_call"):
        st, V = C.call_impl(lambda: fista(arr(inp["UtM"]), arr(inp["UtU"]), x=arr(inp.get("x0")), n_iter_max=int(inp.get("n_iter_max", 1)),
                                          non_negative=bool(inp.get("non_negative", True)), sparsity_coef=inp.get("sparsity_coef"),
                                          ridge_coef=inp.get("ridge_coef"), lr=inp.get("lr"), tol=0, epsilon=float(inp.get("epsilon", 0.0))))
        bad = st != "ok" or not finite(V) or (bool(inp.get("non_negative", True)) and float(np.min(V)) < float(inp.get("epsilon", 0.0)))
        print("replay: fista entry call ->", f"fails ({V})" if st != "ok" else ("fails" if bad else "holds"))
        return 1 if bad else 0
    if inp.get("list_UtU") and inp.get("kronecker_identity"):
        A, Bm = [arr(v) for v in inp["UtU"]]
        fkw2 = dict(non_negative=bool(inp.get("non_negative", True)), sparsity_coef=float(inp.get("l1", 0.0)), ridge_coef=float(inp.get("l2", 0.0)),
                    lr=float(inp["lr"]), epsilon=float(inp.get("epsilon", 0.0)))
        st, msg = C.call_impl(list_vs_kronecker, fista, arr(inp["UtM"]), A, Bm, arr(inp.get("x0")), int(inp.get("n_iter_max", 1)), fkw2, timeout=120)
        bad = st != "ok" or msg is not None
        print("replay: fista(list UtU) vs fista(kron) ->", (msg if st == "ok" else f"failed {msg}") if bad else "holds")
        return 1 if bad else 0
    if inp.get("list_UtU"):
        A, Bm = [arr(v) for v in inp["UtU"]]
        UtM2 = arr(inp["UtM"]); l1, l2 = float(inp.get("l1", 0.0)), float(inp.get("l2", 0.0))
        Lc = float(np.linalg.norm(A, 2) * np.linalg.norm(Bm, 2) + 2 * l2)
        x = None
        for _ in range(12):
            st, y = C.call_impl(lambda: fista(UtM2.copy(), [A.copy(), Bm.copy()], x=x, n_iter_max=1500, sparsity_coef=l1, ridge_coef=l2, lr=1.0 / Lc, tol=0, epsilon=0.0), timeout=120)
            if st != "ok" or not finite(y):
                print("replay: fista(list UtU) failed", y); return 1
            x = np.array(y, copy=True)
        g = A @ x @ Bm.T - UtM2 + l1 + 2 * l2 * x
        scale = 1 + float(np.max(np.abs(UtM2))) + float(np.max(np.abs(x)))
        bad = float(np.min(x)) < 0 or float(np.min(g)) < -1e-6 * scale or float(np.max(np.abs(x * g))) > 1e-6 * scale * scale
        print("replay: fista(list UtU) ->", "KKT violated" if bad else "holds")
        return 1 if bad else 0
    G = arr(inp["UtU"])
    if ep == EP_AS:
        b, x0 = arr(inp["Utm"]), arr(inp.get("x0"))
        B = b.reshape(-1, 1)
    else:
        B = arr(inp["UtM"])
    l1, l2 = float(inp.get("l1", 0.0)), float(inp.get("l2", 0.0))
    r, n = B.shape
    if payload.get("predicate") in ("C13_hals_rejects_zero_column", "C13_hals_nonzero_rows"):
        # single-pass predicates on problems whose UtU may carry a zeroed diagonal entry (no reference optimum needed)
        kw0 = dict(sparsity_coefficient=l1 or None, ridge_coefficient=l2 or None)
        V0 = arr(inp.get("V0")); eps0 = float(inp.get("epsilon", 0.0))
        st, V = C.call_impl(lambda: quiet(hals_nnls, B.copy(), G.copy(), V=None if V0 is None else V0.copy(), n_iter_max=1, tol=0, epsilon=eps0, nonzero_rows=True, **kw0))
        if payload.get("predicate") == "C13_hals_rejects_zero_column":
            msg = "returned instead of raising ValueError" if st == "ok" else None
        else:
            zr = [] if st != "ok" or V0 is None else [k for k in range(r - 1) if G[k, k] != 0 and float(np.max(V0[k + 1:, :])) > 0 and not np.any(V[k, :] != 0)]
            msg = f"failed {V}" if st != "ok" else (f"row {zr[0]} identically zero with nonzero_rows=True" if zr else None)
        print("replay:", ep, "->", msg or "holds")
        return 1 if msg else 0
    # the optimum is recomputed with the independent reference
    p = dict(U=np.linalg.cholesky(G).T, G=G, B=B, l1=l1, l2=l2, r=r, n=n, MU=np.zeros((r, n)))
    p["Xs"] = scipy_reference(p); p["X"] = p["Xs"]
    eps = float(inp.get("epsilon", 0.0))
    default = inp.get("call") == "default"
    pred = payload.get("predicate")
    if ep == EP_AS:
        st, x = C.call_impl(lambda: active_set_nnls(b.copy(), G.copy(), x=None if x0 is None else x0.copy()))
        msg = f"raised {x}" if st != "ok" else check_point(p, np.asarray(x).reshape(-1, 1), 0.0, "active_set_nnls")
    elif ep == EP_FISTA:
        if pred in ("C13_fista_iterates_ge_eps", "C13_fista_returns") and not default:
            st, V = C.call_impl(lambda: fista(B.copy(), G.copy(), x=arr(inp.get("x0")), n_iter_max=int(inp.get("n_iter_max", 4)), sparsity_coef=l1, ridge_coef=l2, lr=inp.get("lr"), tol=0, epsilon=eps))
            msg = f"failed {V}" if st != "ok" or not finite(V) else (f"below epsilon {np.min(V)}" if np.min(V) < eps else None)
        elif default:
            st, V = C.call_impl(lambda: fista(B.copy(), G.copy(), sparsity_coef=l1, ridge_coef=l2, epsilon=0.0), timeout=120)
            msg = f"raised {V}" if st != "ok" else check_point(p, V, 0.0, "fista(default)", tk=1e-2, to=1e-4)
        else:
            st, V = C.call_impl(run_fista_converged, p, arr(inp.get("x0")), eps, inp.get("lr"), timeout=120)
            msg = f"raised {V}" if st != "ok" else check_point(p, V, eps, "fista")
    else:
        kw = dict(sparsity_coefficient=l1 or None, ridge_coefficient=l2 or None)
        if pred in ("C13_hals_iterates_ge_eps", "C13_hals_returns") and not default and "n_iter_max" in inp:
            st, V = C.call_impl(lambda: quiet(hals_nnls, B.copy(), G.copy(), V=arr(inp.get("V0")), n_iter_max=int(inp.get("n_iter_max", 1)), tol=0, epsilon=eps, **kw))
            msg = f"failed {V}" if st != "ok" else (f"non-finite or below epsilon {np.min(V)}" if not finite(V) or (int(inp.get("n_iter_max", 1)) > 0 and np.min(V) < eps) else None)
        elif default:
            st, V = C.call_impl(lambda: quiet(hals_nnls, B.copy(), G.copy(), V=arr(inp.get("V0")), **kw), timeout=120)
            msg = f"raised {V}" if st != "ok" else check_point(p, V, 0.0, "hals_nnls(default)", tk=1e-3, to=1e-4)
        else:
            st, V = C.call_impl(run_hals_converged, p, arr(inp.get("V0")), eps, bool(inp.get("exact", False)), timeout=120)
            msg = f"raised {V}" if st != "ok" else check_point(p, V, eps, "hals_nnls")
    print("replay:", ep, "->", msg or "holds")
    return 1 if msg else 0
