"""C13 -- the whole function tensorly/solvers/admm.py `admm` against Model/NnlsAdmm.v (case CAdmmLoop of Corr/C13.v) and the
Python transcriptions of the theorems of Proofs/NnlsProofsAdmmLoop.v on the implementation's outputs.

Cases: UtU well-conditioned (symmetric, and non-symmetric so that the transposes matter), x / dual_var zero or dyadic, n_const in
{None, 1, 2, 3}, order in {None, 0, 1, 2} (so the calls that raise are compared too), no constraint / non_negative / l1_reg /
l2_square_reg (parameter 0 = falsy = no constraint), n_iter_max 0-4, tol in {default, 0, negative, .5, placed 25% above / 20% below
the ratios observed at a chosen iteration by probe runs}.  Predicates: (a) C13_admm_unconstrained_bound: with n_const given, no
constraint, dual_var = 0, every row of the returned x is within (rho / (mu + rho))^n of the least-squares solution and the dual
variable is still zero; (b) C13_admm_returns: every call with n_iter_max >= 1 that proximal_operator accepts returns, in particular the
documented stand-alone call (n_const = 1, order left at its default: repaired by a5b9e5b) and n_iter_max = 0 (repaired by fe4edf7)."""
import numpy as np
from harness import common as C

EP_ADMM = "tensorly.solvers.admm.admm"
KIND_KW = {0: lambda par: {}, 1: lambda par: {"non_negative": True}, 2: lambda par: {"l1_reg": par}, 3: lambda par: {"l2_square_reg": par}}
KIND_NAME = {0: "none", 1: "non_negative", 2: "l1_reg", 3: "l2_square_reg"}


def optnat(v):
    return "None" if v is None else f"(Some {int(v)}%nat)"


def call_admm(admm, UtM, G, x, dual, n_const, order, kind, par, iters, tol):
    kw = dict(KIND_KW[kind](par))
    if order != "default":
        kw["order"] = order
    if tol != "default":
        kw["tol"] = tol
    return admm(UtM.copy(), G.copy(), x.copy(), dual.copy(), n_iter_max=iters, n_const=n_const, **kw)


def ratios(out, x_prev):
    xo, xs, dv = out
    n1, n2 = float(np.linalg.norm(xo)), float(np.linalg.norm(dv))
    r1 = float(np.linalg.norm(xo - xs.T)) / n1 if n1 > 0 else None
    r2 = float(np.linalg.norm(xo - x_prev)) / n2 if n2 > 0 else None
    return r1, r2


def run_cases(chk, rng, count, admm, add_case, gen_problem, dyadic_start, impl_call, mat_lit, Skip):
    for t in range(count):
        r = rng.randint(1, 5); m = rng.randint(1, 4)
        p = gen_problem(rng, r, m, rng.random() < 0.5, 0.0, 0.0)
        G = p["G"]; UtM = p["B"].T.copy()
        if rng.random() < 0.35:
            G2 = G + np.triu(np.ones((r, r)), 1) / 8
            if np.linalg.cond(G2) <= 100 and np.min(np.linalg.eigvalsh((G2 + G2.T) / 2)) > 0.05:
                G = G2
        x = dyadic_start(rng, m, r, rng.choice(["dense", "zero", "infeasible"]))
        dual = np.zeros((m, r)) if rng.random() < 0.5 else dyadic_start(rng, m, r, rng.choice(["sparse", "infeasible"])) / 4
        kind = rng.choice([0, 0, 1, 1, 1, 2, 3]); par = rng.choice([0.0, 0.25, 0.5]) if kind >= 2 else 0.0
        n_const = rng.choice([None, 1, 1, 1, 1, 2, 3]); order = rng.choice([None, 0, 0, 0, 0, 1, 2])
        if t % 9 == 0:
            n_const, order = 1, None               # the documented stand-alone call
        iters = rng.choice([0, 1, 2, 2, 3, 3, 4, 4])
        tol_kind = rng.choice(["default", "zero", "negative", "half", "placed", "placed"])
        tol = {"default": 1e-4, "zero": 0.0, "negative": -1.0, "half": 0.5}.get(tol_kind)
        if tol_kind == "placed" and not (t % 9 == 0):
            # a constrained run whose rule can fire: accepted (n_const, order), a constraint that keeps the dual variable alive, >= 2 iterations
            n_const = rng.choice([1, 1, 2]); order = rng.randint(0, n_const - 1)
            kind = rng.choice([1, 1, 2, 3]); par = rng.choice([0.25, 0.5]) if kind >= 2 else 0.0
            iters = max(iters, 2)
            if not np.any(dual != 0):
                dual = dyadic_start(rng, m, r, "infeasible") / 4
        try:
            if tol_kind == "placed":
                tol = 1e-4
                if n_const is not None and order is not None and order < n_const and iters >= 1:
                    k = rng.randint(1, iters)
                    st1, o1 = impl_call(chk, lambda: call_admm(admm, UtM, G, x, dual, n_const, order, kind, par, k, -1.0))
                    xp = x
                    if k > 1:
                        st0, o0 = impl_call(chk, lambda: call_admm(admm, UtM, G, x, dual, n_const, order, kind, par, k - 1, -1.0))
                        xp = o0[0] if st0 == "ok" else x
                    if st1 == "ok":
                        r1, r2 = ratios(o1, xp)
                        if r1 is not None and r2 is not None and 0 < max(r1, r2) < 50:      # (a dual variable that is rounding noise gives an astronomic ratio)
                            tol = max(r1, r2) * (1.25 if rng.random() < 0.6 else 0.8)
                            chk.hist("admm_tol", "placed at iteration %d of %d" % (k, iters))
            st, out = impl_call(chk, lambda: call_admm(admm, UtM, G, x, dual, n_const, order, kind, par, iters, tol))
        except Skip:
            continue
        inp = {"admm_call": True, "UtM": UtM, "UtU": G, "x": x, "dual_var": dual, "n_const": n_const, "order": order,
               "constraint": KIND_NAME[kind], "parameter": par, "n_iter_max": iters, "tol": tol}
        chk.count(key=("admm_loop", r, m, n_const, order, kind, par > 0, iters, tol_kind), nontrivial=r * m > 1 and iters > 1)
        chk.hist("solver", "admm(whole function)/" + KIND_NAME[kind])
        ok = st == "ok" and all(np.all(np.isfinite(np.asarray(a, dtype=float))) for a in out)
        eo = 0 if order is None else order           # repaired code (a5b9e5b): order = None selects mode 0
        if st != "ok" and (iters == 0 or n_const is None or eo < n_const):      # C13_admm_returns (repaired code fe4edf7: also n_iter_max = 0)
            chk.finding(EP_ADMM, inp, f"admm raised although proximal_operator accepts (n_const, order): {out}", "C13_admm_returns")
        if ok:
            xo, xs, dv = [np.asarray(a, dtype=float) for a in out]
            impl = f"(Ok ({mat_lit(xo)}, {mat_lit(xs)}, {mat_lit(dv)}))"
            # C13_admm_nonneg_returns_nonneg: at least one iteration or a non-negative start (n_iter_max = 0 returns the start itself)
            if kind == 1 and n_const is not None and (iters >= 1 or float(np.min(x)) >= 0) and float(np.min(xo)) < 0:
                chk.finding(EP_ADMM, inp, "admm(non_negative=True) returned a negative entry", "C13_admm_nonneg", observed=xo)
        else:
            impl = "Err"
        chk.hist("admm_model_vs_impl", f"n_const={n_const}/order={order}/{'returns' if ok else 'raises'}")
        add_case(lambda cid: (f"(CAdmmLoop {cid}%nat {mat_lit(UtM)} {mat_lit(G)} {mat_lit(x)} {mat_lit(dual)} {m}%nat {r}%nat {optnat(n_const)} {optnat(order)} "
                              f"{kind}%nat {C.q(par)} {iters}%nat {C.q(tol)} {impl})"),
                 ("admm_loop", r, m, n_const, order, KIND_NAME[kind], par, iters, tol, st))


def run_predicates(chk, rng, count, admm, gen_problem, dyadic_start, impl_call, Skip):
    """C13_admm_unconstrained_bound / _bound_any_dual / _runs_all on the implementation: n_const given, no constraint selected; symmetric
    and non-symmetric UtU (mu = smallest eigenvalue of the symmetric part); dual_var zero or not (then the bound starts at x_1)"""
    for t in range(count):
        r = rng.randint(1, 8); m = rng.randint(1, 5)
        p = gen_problem(rng, r, m, rng.random() < 0.5, 0.0, 0.0)
        G = p["G"]; UtM = p["B"].T.copy()
        if rng.random() < 0.35:
            G2 = G + np.triu(np.ones((r, r)), 1) / 8
            if np.linalg.cond(G2) <= 100 and np.min(np.linalg.eigvalsh((G2 + G2.T) / 2)) > 0.05:
                G = G2
        x = dyadic_start(rng, m, r, rng.choice(["dense", "zero", "infeasible"]))
        dual = np.zeros((m, r)) if rng.random() < 0.5 else dyadic_start(rng, m, r, rng.choice(["dense", "infeasible"])) / 2
        n = rng.choice([1, 2, 5, 20, 100])
        tol = rng.choice([1e-4, 0.5, 10.0])        # the rule must not fire whatever tol is
        n_const = rng.choice([1, 2]); order = rng.randint(0, n_const - 1)
        kw = rng.choice([{}, {"l1_reg": 0.0}, {"non_negative": False}])
        inp = {"admm_call": True, "UtM": UtM, "UtU": G, "x": x, "dual_var": dual, "n_const": n_const, "order": order, "constraint": "none",
               "parameter": 0.0, "n_iter_max": n, "tol": tol}
        try:
            msg, obs = unconstrained_message(lambda fn: impl_call(chk, fn), admm, G, UtM, x, dual, n, n_const, order, tol, kw)
        except Skip:
            continue
        chk.count(key=("admm_bound", r, m, n, tol, bool(np.any(dual != 0)), bool(np.any(G != G.T))), nontrivial=r * m > 1)
        chk.hist("solver", "admm(no constraint selected)/" + ("dual_var = 0" if not np.any(dual != 0) else "dual_var != 0"))
        if msg:
            chk.finding(EP_ADMM, inp, msg, "C13_admm_unconstrained_bound", observed=obs)


def run_nonneg_predicates(chk, rng, count, admm, gen_problem, dyadic_start, impl_call, Skip):
    """transcription of C13_admm_nonneg_fixed_point_kkt (+ kkt_optimal): admm(non_negative=True) run for 3000 bodies (tol < 0: the rule cannot
    fire); IF one more body reproduces (x, dual_var) to 1e-10 x scale THEN x >= 0, gradient >= 0, complementary, gradient = rho * dual_var
    (1e-6 x scale) and the objective equals the constructed NNLS optimum.  A run that has not converged makes no claim (counted)."""
    for t in range(count):
        r = rng.randint(1, 6); m = rng.randint(1, 4)
        p = gen_problem(rng, r, m, rng.random() < 0.5, 0.0, 0.0)
        G = p["G"]; UtM = p["B"].T.copy()
        x = dyadic_start(rng, m, r, rng.choice(["dense", "zero", "infeasible"]))
        dual = np.zeros((m, r)) if rng.random() < 0.5 else dyadic_start(rng, m, r, "infeasible") / 4
        n_const = rng.choice([1, 2]); order = rng.randint(0, n_const - 1)
        inp = {"admm_call": True, "UtM": UtM, "UtU": G, "x": x, "dual_var": dual, "n_const": n_const, "order": order, "constraint": "non_negative",
               "parameter": 0.0, "n_iter_max": 3000, "tol": -1.0}
        try:
            msg, obs = nonneg_message(lambda fn: impl_call(chk, fn), admm, G, UtM, x, dual, n_const, order, np.asarray(p["X"], dtype=float).T)
        except Skip:
            continue
        chk.count(key=("admm_nonneg_fp", r, m, bool(np.any(dual != 0)), p["style"]), nontrivial=r * m > 1)
        chk.hist("solver", "admm(non_negative=True)/" + ("not converged: no claim" if msg == "" else "fixed point"))
        if msg:
            chk.finding(EP_ADMM, inp, msg, "C13_admm_nonneg_fixed_point_kkt", observed=obs)


def nonneg_message(call, admm, G, UtM, x, dual, n_const, order, Xopt=None):
    run = lambda x0, d0, k: call(lambda: admm(UtM.copy(), G.copy(), x0.copy(), d0.copy(), n_iter_max=k, n_const=n_const, order=order, non_negative=True, tol=-1.0))
    st, out = run(x, dual, 3000)
    if st != "ok":
        return f"admm(non_negative=True) raised: {out}", None
    xo, xs, dv = [np.asarray(a, dtype=float) for a in out]
    st2, out2 = run(xo, dv, 1)
    if st2 != "ok":
        return f"admm(non_negative=True) raised: {out2}", None
    x2, d2 = np.asarray(out2[0], dtype=float), np.asarray(out2[2], dtype=float)
    scale = 1.0 + float(np.max(np.abs(UtM))) + float(np.max(np.abs(xo))) + float(np.max(np.abs(dv)))
    if not (np.all(np.isfinite(xo)) and np.all(np.isfinite(dv))):
        return "admm(non_negative=True) returned a non-finite state", xo
    if max(float(np.max(np.abs(x2 - xo))), float(np.max(np.abs(d2 - dv)))) > 1e-10 * scale:
        return "", None                      # not a fixed point (yet): the theorem makes no claim
    rho = float(np.trace(G)) / G.shape[0]
    g = xo @ G - UtM                         # g[c, i] = sum_k UtU[k, i] x[c, k] - UtM[c, i]
    if float(np.min(xo)) < 0:
        return "admm(non_negative=True): fixed point with a negative entry", xo
    if float(np.min(g)) < -1e-6 * scale or float(np.max(np.abs(xo * g))) > 1e-6 * scale * scale or float(np.max(np.abs(g - rho * dv))) > 1e-6 * scale:
        return "admm(non_negative=True): a state reproduced by the loop body violates the KKT conditions (gradient >= 0, complementarity, gradient = rho * dual_var)", xo
    if Xopt is not None and np.allclose(G, G.T):
        obj = lambda V: 0.5 * float(np.sum(V * (V @ G))) - float(np.sum(UtM * V))
        if abs(obj(xo) - obj(Xopt)) > 1e-6 * (1 + abs(obj(Xopt))):
            return "admm(non_negative=True): fixed point whose objective differs from the constructed NNLS optimum", xo
    return None, None


def unconstrained_message(call, admm, G, UtM, x, dual, n, n_const, order, tol, kw):
    """transcription of C13_admm_unconstrained_bound (dual_var = 0) and C13_admm_unconstrained_bound_any_dual (the bound from x_1 on)"""
    run = lambda k: call(lambda: admm(UtM.copy(), G.copy(), x.copy(), dual.copy(), n_iter_max=k, n_const=n_const, order=order, tol=tol, **kw))
    st, out = run(n)
    if st != "ok":
        return f"admm without a selected constraint raised: {out}", None
    xo, xs, dv = [np.asarray(a, dtype=float) for a in out]
    base, steps = x, n
    if np.any(dual != 0):
        st1, o1 = run(1)
        if st1 != "ok":
            return f"admm without a selected constraint raised: {o1}", None
        base, steps = np.asarray(o1[0], dtype=float), n - 1
    r = G.shape[0]
    star = np.linalg.solve(G.T, UtM.T).T
    rho = float(np.trace(G)) / r
    mu = float(np.min(np.linalg.eigvalsh((G + G.T) / 2)))
    q = rho / (mu + rho)
    scale = 1.0 + float(np.max(np.abs(star))) + float(np.max(np.abs(x))) + float(np.max(np.abs(dual)))
    if float(np.max(np.abs(dv))) > 1e-9 * scale:
        return "admm without a selected constraint returned a non-zero dual variable", xo
    e0 = np.linalg.norm(base - star, axis=1); en = np.linalg.norm(xo - star, axis=1)
    if np.any(en > (q ** steps) * e0 * (1 + 1e-6) + 1e-9 * scale):
        return (f"admm without a selected constraint: after {n} iterations a row of x is farther from the least-squares solution "
                f"solve(UtU^T, UtM^T)^T than (rho/(mu+rho))^{steps} times the distance of " + ("x" if steps == n else "x_1") +
                " (the loop stopped early or the iteration is not the contraction)"), xo
    return None, None


def replay(payload, admm):
    inp = payload["inputs"]
    arr = lambda v: C.from_jsonable_array(v) if isinstance(v, dict) else np.asarray(v, dtype=float)
    UtM, G, x, dual = arr(inp["UtM"]), arr(inp["UtU"]), arr(inp["x"]), arr(inp["dual_var"])
    kind = {v: k for k, v in KIND_NAME.items()}[inp.get("constraint", "none")]
    st, out = C.call_impl(lambda: call_admm(admm, UtM, G, x, dual, inp.get("n_const"), inp.get("order"), kind, float(inp.get("parameter") or 0.0),
                                            int(inp.get("n_iter_max", 1)), float(inp.get("tol", 1e-4))))
    if payload.get("predicate") == "C13_admm_unconstrained_bound":
        msg, _ = unconstrained_message(lambda fn: C.call_impl(fn, timeout=120), admm, G, UtM, x, dual, int(inp.get("n_iter_max", 1)), inp.get("n_const"),
                                       inp.get("order"), float(inp.get("tol", 1e-4)), {})
    elif payload.get("predicate") == "C13_admm_nonneg_fixed_point_kkt":
        msg, _ = nonneg_message(lambda fn: C.call_impl(fn, timeout=240), admm, G, UtM, x, dual, inp.get("n_const"), inp.get("order"))
    elif payload.get("predicate") == "C13_admm_nonneg":
        claim = int(inp.get("n_iter_max", 1)) >= 1 or float(np.min(x)) >= 0
        msg = f"raised {out}" if st != "ok" else ("negative entry" if claim and float(np.min(out[0])) < 0 else None)
    else:
        msg = f"raised {out}" if st != "ok" else None
    print("replay admm (whole function):", msg or "holds")
    return 1 if msg else 0


# ----------------------------------------------------------------------------- active_set_nnls: the `except:` path
def run_aset_fallback(chk, rng, count, active_set_nnls, add_case, impl_call, vec_lit, mat_lit, Skip, EP_AS):
    """active_set_nnls on SEMIDEFINITE problems with an exactly singular 2 x 2 block c * u u^T (u, c powers of two, so numpy's LU meets an exact
    zero pivot and tl.solve raises) next to a positive diagonal: warm starts with both block coordinates passive take the `except:` path at
    once, cold starts reach it later.  Model (exact elimination returns None on the singular block) vs implementation (CAset); predicate:
    the returned vector is >= 0 (C13_active_set_nonneg allows a raising tl.solve).  KKT of the result is recorded, not demanded: the
    property is about well-conditioned problems and termination is proved for positive definite UtU only."""
    for t in range(count):
        r = rng.randint(2, 4)
        u = [rng.choice([1.0, 2.0, 4.0]) for _ in range(2)]; c = rng.choice([0.5, 1.0, 2.0])
        pos = rng.sample(range(r), 2)
        G = np.diag([rng.choice([1.0, 2.0, 4.0]) for _ in range(r)])
        for a_, ia in enumerate(pos):
            for b_, ib in enumerate(pos):
                G[ia, ib] = c * u[a_] * u[b_]
        # (no exact zero in Utm: a passive coordinate with x = s = 0 makes the code compute 0/0 = NaN -- NaN is not modelled; observed on
        #  this semidefinite class: UtU=[[32,0,32],[0,4,0],[32,0,32]], Utm=(5.5,0,5.5), x0=(3,.25,1.25) returns (0,0,0), not KKT; outside the property)
        b = np.array([rng.choice([v for v in range(-12, 25) if v != 0]) / 4 for _ in range(r)], dtype=float)
        warm = rng.random() < 0.7
        x0 = None
        if warm:
            x0 = np.array([rng.randint(0, 12) / 4 for _ in range(r)], dtype=float)
            for i in pos:
                x0[i] = rng.randint(1, 12) / 4          # both coordinates of the singular block passive
        try:
            st, x = impl_call(chk, lambda: active_set_nnls(b.copy(), G.copy(), x=None if x0 is None else x0.copy()))
        except Skip:
            continue
        inp = {"Utm": b, "UtU": G, "x0": x0, "n_iter_max": 100, "tol": 10e-8, "semidefinite": True}
        chk.count(key=("aset_fallback", r, warm, tuple(pos)), nontrivial=True)
        ok = st == "ok" and bool(np.all(np.isfinite(np.asarray(x, dtype=float))))
        chk.hist("active_set_fallback", ("warm" if warm else "cold") + ("/returns" if ok else "/raises"))
        if ok:
            x = np.asarray(x, dtype=float)
            if float(np.min(x)) < 0:
                chk.finding(EP_AS, inp, "active_set_nnls returned a negative entry on a semidefinite problem (except: path)", "C13_active_set_nonneg", observed=x)
            g = b - G @ x; sc = 1 + float(np.max(np.abs(b)))
            kkt = bool(np.all(np.abs(g[x > 0]) <= 1e-6 * sc)) and bool(np.all(g[x <= 0] <= 10e-8 + 1e-6 * sc))
            chk.hist("active_set_fallback_kkt", "holds" if kkt else "does not hold (recorded, not demanded)")
        impl = f"(Some {vec_lit(x)})" if ok else "None"
        x0l = "None" if x0 is None else f"(Some {vec_lit(x0)})"
        add_case(lambda cid: f"(CAset {cid}%nat {vec_lit(b)} {mat_lit(G)} {x0l} 100%nat {C.q(10e-8)} {impl})", ("aset_fallback", r, warm, st))
