"""AST tie for C13 (helper module of harness/props/C13.py).
The arithmetic of tensorly/solvers/nnls.py and of the n_const=None branch of solvers/admm.py is translated from the CURRENT
Python source on every run into Gallina terms, and coqc proves that Model/Nnls.v computes exactly these terms:
  hals_row_update   the value written into row k of V by one HALS row update (4 combinations of sparsity / ridge given or None)
  hals_stop_rule    `if iteration == 0: rec_error0 = rec_error` + `if rec_error < tol * rec_error0: break`
  hals_cold_start   the `if V is None:` block (clip, rescaling with its guard), matrix level
  fista_step        x_gradient / x_new / tl.where (non_negative=True), entry (i, j)
  fista_loop_step   momentum extrapolation, norm = sum |x - x_new|, stopping test, copy
  aset_step         active_set_nnls inner loop: ratio, the move x + alpha (s - x), blocking coordinates attaining alpha put on the bound
  admm_none         x = transpose(solve(transpose(UtU), transpose(UtM)))
  hals_error_nonzero_rows   rec_error += norm(V - newV)**2 (whole V: the broadcast), the nonzero_rows safety value and test, the ValueError
  fista_entry       None -> 0 for sparsity_coef / ridge_coef, x None -> zeros, the default step 1 / (sigma + 2 ridge_coef)
  admm_x_split      rho = trace(UtU) / shape(x)[1]; x_split = solve((UtU + rho I)^T, (UtM + rho (x + dual_var))^T)
  aset_selection_termination   when argmax(gradient) enters the passive set; clip / gradient / termination test at the end of the loop
  admm_loop_body_stop   admm with n_const given, ENTRYWISE: the two arguments of tl.solve, the argument of proximal_operator, the new dual variable,
                    the matrices inside the two norm tests (Model/NnlsAdmm.v admm_body / admm_stop; entry lemmas in Proofs/NnlsProofsAdmmLoop.v)
  hals_callback_exact   `if exact:` sets (50000, 1e-16); the callback block sits after the row loop and before the reference / rule (= hals_loop_cb)
  admm_order_default    `if order is None: order = 0` before the loop (repaired code a5b9e5b) = admm ... None = admm ... (Some 0)
  admm_zero_iterations  `x_split = tl.transpose(x)` before the loop (repaired code fe4edf7) = admm ... 0 tol returns (x, x^T, dual_var)
  fista_momentum    momentum_old = 1.0; momentum = (1 + sqrt(1 + 4 momentum_old**2)) / 2 = Model/NnlsMomentum.v momentum_next; momentum_old = momentum
(the structural parts of the last four are matched as ast patterns; their arithmetic is translated; all end in coqc goals about the model)
Fail closed: a construct the translator does not know is a broken tie."""
import ast


class Untranslatable(Exception):
    pass


def _is_tl(call, name):
    f = call.func
    if isinstance(f, ast.Attribute) and f.attr == name:
        return True
    return isinstance(f, ast.Name) and f.id == name


def _callname(call):
    f = call.func
    return f.attr if isinstance(f, ast.Attribute) else (f.id if isinstance(f, ast.Name) else None)


def _num(e):
    if isinstance(e, ast.Constant) and isinstance(e.value, int) and not isinstance(e.value, bool):
        return str(e.value) if e.value >= 0 else f"(- {-e.value})"
    if isinstance(e, ast.Constant) and isinstance(e.value, float) and float(e.value).is_integer():
        return str(int(e.value))
    return None


def _is_none_test(e):
    """`X is None` / `X is not None` -> (name, True if 'is None')"""
    if isinstance(e, ast.Compare) and len(e.ops) == 1 and isinstance(e.left, ast.Name) and \
            isinstance(e.comparators[0], ast.Constant) and e.comparators[0].value is None:
        if isinstance(e.ops[0], ast.Is):
            return e.left.id, True
        if isinstance(e.ops[0], ast.IsNot):
            return e.left.id, False
    return None


# ---------------------------------------------------------------------------------------------- entry-level translation
# every value is a Python function (i, j) -> Gallina term of type R (scalars ignore the indices: NumPy broadcasting)
class Entry:
    def __init__(self, env, given, special):
        self.env = dict(env)          # name -> function (i, j) -> term
        self.inputs = set(env)        # the function's own arguments / atoms
        self.given = given            # name -> bool : is the optional argument given (not None) / flag value
        self.special = special        # callable(node, self) -> function or None : problem-specific atoms
        self.views = set()            # names bound to a VIEW of an input array (a slice / another name): `name -= ...` would write into the input

    def expr(self, e):
        s = self.special(e, self)
        if s is not None:
            return s
        c = _num(e)
        if c is not None:
            return lambda i, j: c
        if isinstance(e, ast.Name):
            if e.id in self.env:
                return self.env[e.id]
            raise Untranslatable(f"name {e.id}")
        if isinstance(e, ast.UnaryOp) and isinstance(e.op, ast.USub):
            a = self.expr(e.operand)
            return lambda i, j: f"(- {a(i, j)})"
        if isinstance(e, ast.BinOp):
            a, b = self.expr(e.left), self.expr(e.right)
            op = {ast.Add: "+", ast.Sub: "-", ast.Mult: "*", ast.Div: "/"}.get(type(e.op))
            if op is None:
                raise Untranslatable("operator " + type(e.op).__name__)
            return lambda i, j: f"({a(i, j)} {op} {b(i, j)})"
        if isinstance(e, ast.Call):
            nm = _callname(e)
            kws = {k.arg: k.value for k in e.keywords}
            if nm == "clip":
                args = list(e.args)
                lo = kws.get("a_min", args[1] if len(args) > 1 else None)
                hi = kws.get("a_max", args[2] if len(args) > 2 else None)
                if lo is None or not (hi is None or (isinstance(hi, ast.Constant) and hi.value is None)):
                    raise Untranslatable("clip form")
                x, l = self.expr(args[0]), self.expr(lo)
                return lambda i, j: f"(fmax Rops {l(i, j)} {x(i, j)})"
            if nm == "where" and len(e.args) == 3:
                c = e.args[0]
                if not (isinstance(c, ast.Compare) and len(c.ops) == 1 and isinstance(c.ops[0], (ast.Lt, ast.Gt, ast.LtE, ast.GtE))):
                    raise Untranslatable("where condition")
                l, r_ = self.expr(c.left), self.expr(c.comparators[0])
                if isinstance(c.ops[0], (ast.Gt, ast.GtE)):
                    l, r_ = r_, l
                dec = "Rlt_dec" if isinstance(c.ops[0], (ast.Lt, ast.Gt)) else "Rle_dec"
                a, b = self.expr(e.args[1]), self.expr(e.args[2])
                return lambda i, j: f"(if {dec} {l(i, j)} {r_(i, j)} then {a(i, j)} else {b(i, j)})"
            if nm == "copy" and len(e.args) == 1:
                return self.expr(e.args[0])
        raise Untranslatable(ast.dump(e)[:90])

    def run(self, stmts, stop):
        """symbolic execution of straight-line code; `stop(stmt, self)` returns a result to end"""
        for s in stmts:
            r_ = stop(s, self)
            if r_ is not None:
                return r_
            if isinstance(s, ast.Assign) and len(s.targets) == 1 and isinstance(s.targets[0], ast.Name):
                self.env[s.targets[0].id] = self.expr(s.value)
                v = s.value
                is_view = isinstance(v, ast.Name) or (isinstance(v, ast.Subscript) and any(
                    isinstance(x, ast.Slice) for x in (v.slice.elts if isinstance(v.slice, ast.Tuple) else [v.slice])))
                (self.views.add if is_view else self.views.discard)(s.targets[0].id)
            elif isinstance(s, ast.AugAssign) and isinstance(s.target, ast.Name):
                if s.target.id in self.views or s.target.id not in self.env or s.target.id in self.inputs:
                    raise Untranslatable(f"in-place update of {s.target.id}, a view of (or) an input array: it would write into the caller's data")
                old = self.expr(ast.Name(id=s.target.id, ctx=ast.Load()))
                new = self.expr(s.value)
                op = {ast.Add: "+", ast.Sub: "-", ast.Mult: "*", ast.Div: "/"}.get(type(s.op))
                if op is None:
                    raise Untranslatable("augmented operator")
                self.env[s.target.id] = (lambda o_, n_, op_: (lambda i, j: f"({o_(i, j)} {op_} {n_(i, j)})"))(old, new, op)
            elif isinstance(s, ast.If):
                t = _is_none_test(s.test)
                if t is not None and t[0] in self.given:
                    take = (not self.given[t[0]]) if t[1] else self.given[t[0]]
                elif isinstance(s.test, ast.Name) and s.test.id in self.given:
                    take = self.given[s.test.id]
                else:
                    raise Untranslatable("if " + ast.dump(s.test)[:70])
                r_ = self.run(s.body if take else s.orelse, stop)
                if r_ is not None:
                    return r_
            elif isinstance(s, ast.Expr) and isinstance(s.value, ast.Constant):
                continue
            else:
                raise Untranslatable("statement " + ast.dump(s)[:80])
        return None


# ---------------------------------------------------------------------------------------------- matrix-level translation
class Mat:
    """('M', term, rows, cols) | ('S', term) | ('B', term); rows / cols are Gallina nat terms"""
    def __init__(self, env, solve_atom):
        self.env = dict(env)
        self.solve_atom = solve_atom

    def expr(self, e):
        c = _num(e)
        if c is not None:
            return ("S", c)
        if isinstance(e, ast.Name):
            if e.id in self.env:
                return self.env[e.id]
            raise Untranslatable(f"name {e.id}")
        if isinstance(e, ast.Subscript) and isinstance(e.value, ast.Call) and _callname(e.value) == "shape" and len(e.value.args) == 1 and _num(e.slice) in ("0", "1"):
            a = self.expr(e.value.args[0])     # tl.shape(A)[k]: a natural number
            if a[0] != "M":
                raise Untranslatable("shape of a non-matrix")
            return ("N", a[2 + int(_num(e.slice))])
        if isinstance(e, ast.UnaryOp) and isinstance(e.op, ast.USub):
            a = self.expr(e.operand)
            return ("M", f"(mmap (fopp Rops) {a[1]})", a[2], a[3]) if a[0] == "M" else ("S", f"(fopp Rops {a[1]})")
        if isinstance(e, ast.BinOp):
            a, b = self.expr(e.left), self.expr(e.right)
            f = {ast.Add: "fadd", ast.Sub: "fsub", ast.Mult: "fmul", ast.Div: "fdiv"}.get(type(e.op))
            if f is None:
                raise Untranslatable("operator")
            if b[0] == "N":
                b = ("S", f"(nat2F Rops {b[1]})")
            if a[0] == "N":
                a = ("S", f"(nat2F Rops {a[1]})")
            if a[0] == "M" and b[0] == "M":
                return ("M", f"(mmap2 ({f} Rops) {a[1]} {b[1]})", a[2], a[3])
            if a[0] == "M" and b[0] == "S":
                return ("M", f"(mmap (fun x => {f} Rops x {b[1]}) {a[1]})", a[2], a[3])
            if a[0] == "S" and b[0] == "M":
                return ("M", f"(mmap (fun x => {f} Rops {a[1]} x) {b[1]})", b[2], b[3])
            return ("S", f"({f} Rops {a[1]} {b[1]})")
        if isinstance(e, ast.Compare) and len(e.ops) == 1 and isinstance(e.ops[0], (ast.Lt, ast.Gt)):
            a, b = self.expr(e.left), self.expr(e.comparators[0])
            if a[0] != "S" or b[0] != "S":
                raise Untranslatable("comparison of non-scalars")
            if isinstance(e.ops[0], ast.Gt):
                a, b = b, a
            return ("B", f"(fltb Rops {a[1]} {b[1]})")
        if isinstance(e, ast.Call):
            nm = _callname(e)
            kws = {k.arg: k.value for k in e.keywords}
            args = [self.expr(a) for a in e.args] if nm != "clip" else [self.expr(e.args[0])]
            if nm == "sum" and len(args) == 1 and args[0][0] == "M":
                return ("S", f"(msum Rops {args[0][1]})")
            if nm == "trace" and len(args) == 1 and args[0][0] == "M":
                return ("S", f"(mtrace Rops {args[0][1]})")
            if nm == "eye" and len(args) == 1 and args[0][0] == "N":
                return ("M", f"(meye Rops {args[0][1]})", args[0][1], args[0][1])
            if nm == "abs" and len(args) == 1 and args[0][0] == "M":
                return ("M", f"(mmap (fabs Rops) {args[0][1]})", args[0][2], args[0][3])
            if nm == "dot" and len(args) == 2 and args[0][0] == args[1][0] == "M":
                return ("M", f"(matmul Rops {args[1][3]} {args[0][1]} {args[1][1]})", args[0][2], args[1][3])
            if nm == "transpose" and len(args) == 1 and args[0][0] == "M":
                return ("M", f"(mtranspose Rops {args[0][3]} {args[0][1]})", args[0][3], args[0][2])
            if nm == "copy" and len(args) == 1:
                return args[0]
            if nm == "solve" and len(args) == 2 and args[0][0] == args[1][0] == "M":
                return ("M", self.solve_atom(args[0][1], args[1][1]), args[0][3], args[1][3])
            if nm == "clip":
                rest = list(e.args[1:])
                lo = kws.get("a_min", rest[0] if rest else None)
                hi = kws.get("a_max", rest[1] if len(rest) > 1 else None)
                if lo is None or not (hi is None or (isinstance(hi, ast.Constant) and hi.value is None)):
                    raise Untranslatable("clip form")
                l = self.expr(lo)
                if args[0][0] != "M" or l[0] != "S":
                    raise Untranslatable("clip operands")
                return ("M", f"(mmap (fmax Rops {l[1]}) {args[0][1]})", args[0][2], args[0][3])
        raise Untranslatable(ast.dump(e)[:90])

    def run(self, stmts):
        for s in stmts:
            if isinstance(s, ast.Assign) and len(s.targets) == 1 and isinstance(s.targets[0], ast.Name):
                self.env[s.targets[0].id] = self.expr(s.value)
            elif isinstance(s, ast.If) and not s.orelse:
                c = self.expr(s.test)
                if c[0] != "B":
                    raise Untranslatable("if test")
                inner = Mat(self.env, self.solve_atom)
                inner.run(s.body)
                for k, v in inner.env.items():
                    old = self.env.get(k)
                    if v is old:
                        continue
                    if old is None or old[0] != v[0]:
                        raise Untranslatable(f"branch defines {k}")
                    self.env[k] = (v[0], f"(if {c[1]} then {v[1]} else {old[1]})") + tuple(v[2:])
            elif isinstance(s, ast.Expr) and isinstance(s.value, ast.Constant):
                continue
            else:
                raise Untranslatable("statement " + ast.dump(s)[:80])


# ---------------------------------------------------------------------------------------------- locating the code
def _func(tree, name):
    fn = next((n for n in tree.body if isinstance(n, ast.FunctionDef) and n.name == name), None)
    if fn is None:
        raise Untranslatable(f"function {name} not found")
    return fn


def _for_over(stmts, var):
    lp = [s for s in stmts if isinstance(s, ast.For) and isinstance(s.target, ast.Name) and s.target.id == var]
    if len(lp) != 1:
        raise Untranslatable(f"expected one `for {var} in ...` loop, found {len(lp)}")
    return lp[0]


def _sub(e, base, idx):
    """e is base[idx0, idx1] with idx entries 'k' (the name k) or ':'"""
    if not (isinstance(e, ast.Subscript) and isinstance(e.value, ast.Name) and e.value.id == base):
        return False
    sl = e.slice
    elts = sl.elts if isinstance(sl, ast.Tuple) else [sl]
    if len(elts) != len(idx):
        return False
    for x, want in zip(elts, idx):
        if want == ":":
            if not (isinstance(x, ast.Slice) and x.lower is None and x.upper is None and x.step is None):
                return False
        elif not (isinstance(x, ast.Name) and x.id == want):
            return False
    return True


PRELUDE = """From Coq Require Import List Arith Bool Reals Lra Lia Psatz.
From TLV Require Import Base.Ops Base.PyList Base.Tensor Base.RSum Model.Nnls Model.NnlsAdmm Proofs.NnlsProofs Proofs.NnlsProofsFista.
Import ListNotations.
Open Scope R_scope.
"""


def tie_hals_row(tree):
    fn = _func(tree, "hals_nnls")
    outer = _for_over(fn.body, "iteration")
    inner = _for_over(outer.body, "k")
    guard = [s for s in inner.body if isinstance(s, ast.If)]
    if len(guard) != 1 or not _sub(guard[0].test, "UtU", ["k", "k"]):
        raise Untranslatable("`if UtU[k, k]:` guard of the row update not found")
    body = guard[0].body

    def special(e, tr):
        if _sub(e, "UtM", ["k", ":"]):
            return lambda i, j: f"(Mget UtM k {j})"
        if _sub(e, "V", ["k", ":"]):
            return lambda i, j: f"(Mget V k {j})"
        if _sub(e, "UtU", ["k", "k"]):
            return lambda i, j: "(Mget UtU k k)"
        if isinstance(e, ast.Call) and _callname(e) == "dot" and len(e.args) == 2 and _sub(e.args[0], "UtU", ["k", ":"]) \
                and isinstance(e.args[1], ast.Name) and e.args[1].id == "V":
            return lambda i, j: f"(nth {j} (vecmat Rops n (mrow UtU k) V) 0)"
        return None

    def stop(s, tr):
        # V = tl.index_update(V, tl.index[k, :], <value>)
        if isinstance(s, ast.Assign) and isinstance(s.value, ast.Call) and _callname(s.value) == "index_update":
            a = s.value.args
            if len(a) == 3 and isinstance(a[0], ast.Name) and a[0].id == "V" and isinstance(a[1], ast.Subscript) and \
                    isinstance(a[1].slice, ast.Tuple) and len(a[1].slice.elts) == 2 and isinstance(a[1].slice.elts[0], ast.Name) and a[1].slice.elts[0].id == "k":
                return tr.expr(a[2])
            raise Untranslatable("index_update form")
        if isinstance(s, ast.AugAssign) and isinstance(s.target, ast.Name) and s.target.id == "rec_error":
            return False     # the error accumulation is not part of this tie
        return None

    goals = []
    for sp_given in (True, False):
        for rd_given in (True, False):
            tr = Entry({"sparsity_coefficient": lambda i, j: "sp", "ridge_coefficient": lambda i, j: "rd", "epsilon": lambda i, j: "eps"},
                       {"sparsity_coefficient": sp_given, "ridge_coefficient": rd_given}, special)

            def stop2(s, tr_):
                r_ = stop(s, tr_)
                return None if r_ is False else r_
            # skip the statement accumulating rec_error
            stmts = [s for s in body if not (isinstance(s, ast.AugAssign) and isinstance(s.target, ast.Name) and s.target.id == "rec_error")]
            val = tr.run(stmts, stop2)
            if val is None:
                raise Untranslatable("no index_update of row k found in the row update")
            o = f"(mkH {'(Some sp)' if sp_given else 'None'} {'(Some rd)' if rd_given else 'None'} nz eps meps)"
            goals.append(f"Goal forall (UtM UtU V : mat) (n k j : nat) (sp rd eps meps : R) (nz : bool), (j < n)%nat ->\n"
                         f"  nth j (hals_newrow Rops UtM UtU n {o} V k) 0 = {val('k', 'j')}.\n"
                         "Proof.\n  intros. unfold hals_newrow. rewrite nth_map_seq by assumption. cbn [h_sp h_ridge h_eps]. unfold two.\n"
                         "  cbn [f0 f1 fadd fsub fmul fdiv Rops].\n"
                         # round 8: the row update may be written clip(q, a_min=eps) (= fmax eps q) or where(q < eps, eps, q): both are decided
                         "  first [ apply (f_equal (fmax Rops eps)); match goal with |- ?a / ?b = ?c / ?d => replace c with a by ring; replace d with b by ring; reflexivity end\n"
                         "        | match goal with |- fmax Rops eps (?a / ?b) = (if _ (?c / ?d) eps then eps else _) => replace c with a by ring; replace d with b by ring end;\n"
                         "          unfold fmax; cbn [fleb Rops]; unfold Rleb;\n"
                         "          repeat match goal with |- context [Rlt_dec ?u ?v] => destruct (Rlt_dec u v) | |- context [Rle_dec ?u ?v] => destruct (Rle_dec u v) end; lra ].\nQed.\n")
    return "\n".join(goals)


def tie_hals_stop(tree):
    fn = _func(tree, "hals_nnls")
    outer = _for_over(fn.body, "iteration")
    first_i = brk_i = None
    cond = None
    for idx, s in enumerate(outer.body):
        if isinstance(s, ast.If) and not s.orelse:
            t = s.test
            if isinstance(t, ast.Compare) and isinstance(t.left, ast.Name) and t.left.id == "iteration" and isinstance(t.ops[0], ast.Eq) and _num(t.comparators[0]) == "0":
                if len(s.body) == 1 and isinstance(s.body[0], ast.Assign) and isinstance(s.body[0].targets[0], ast.Name) and s.body[0].targets[0].id == "rec_error0" \
                        and isinstance(s.body[0].value, ast.Name) and s.body[0].value.id == "rec_error":
                    first_i = idx
            elif len(s.body) == 1 and isinstance(s.body[0], ast.Break) and not (isinstance(t, ast.Compare) and isinstance(t.ops[0], (ast.Is, ast.IsNot))):
                if brk_i is not None:
                    raise Untranslatable("more than one stopping test")
                brk_i, cond = idx, t
    if first_i is None or brk_i is None or not first_i < brk_i:
        raise Untranslatable("`if iteration == 0: rec_error0 = rec_error` followed by `if <test>: break` not found")
    m = Mat({"rec_error": ("S", "e"), "rec_error0": ("S", "e0"), "tol": ("S", "tol")}, None)
    c = m.expr(cond)
    if c[0] != "B":
        raise Untranslatable("stopping test is not a comparison")
    return ("Goal forall (UtM UtU : mat) (n : nat) (o : @hopts R) (tol : R) (f : nat) (first : bool) (err0 : R) (V : mat),\n"
            "  hals_loop Rops UtM UtU n o tol (S f) first err0 V =\n"
            "  let st := hals_pass_e Rops UtM UtU n o V in let e := snd st in let e0 := if first then e else err0 in\n"
            f"  if {c[1]} then fst st else hals_loop Rops UtM UtU n o tol f false e0 (fst st).\n"
            "Proof. intros. cbn [hals_loop]. reflexivity. Qed.\n")


def tie_hals_callback(tree):
    """hals_nnls: `if exact: n_iter_max = 50000; tol = 1e-16` before the loop; inside, AFTER the row loop and BEFORE the reference / stopping
    rule: `if callback is not None: retVal = callback(V, rec_error); if retVal is True: ... break`  (= one unfolding of hals_loop_cb)"""
    fn = _func(tree, "hals_nnls")
    outer = _for_over(fn.body, "iteration")
    ex = [s for s in fn.body if isinstance(s, ast.If) and isinstance(s.test, ast.Name) and s.test.id == "exact"]
    if len(ex) != 1 or ex[0].orelse or fn.body.index(ex[0]) > fn.body.index(outer):
        raise Untranslatable("`if exact:` once, before the iteration loop")
    vals = {s.targets[0].id: s.value.value for s in ex[0].body
            if isinstance(s, ast.Assign) and isinstance(s.targets[0], ast.Name) and isinstance(s.value, ast.Constant)}
    if vals != {"n_iter_max": 50000, "tol": 1e-16} or len(ex[0].body) != 2:
        raise Untranslatable(f"`if exact:` does not set exactly n_iter_max = 50000, tol = 1e-16 (found {vals})")
    rows = [i for i, s in enumerate(outer.body) if isinstance(s, ast.For) and isinstance(s.target, ast.Name) and s.target.id == "k"]
    cbs = [i for i, s in enumerate(outer.body) if isinstance(s, ast.If) and _is_none_test(s.test) == ("callback", False)]
    ref = [i for i, s in enumerate(outer.body) if isinstance(s, ast.If) and isinstance(s.test, ast.Compare) and isinstance(s.test.left, ast.Name)
           and s.test.left.id == "iteration" and isinstance(s.test.ops[0], ast.Eq)]
    brk = [i for i, s in enumerate(outer.body) if isinstance(s, ast.If) and len(s.body) == 1 and isinstance(s.body[0], ast.Break)]
    if not (len(rows) == 1 and len(cbs) == 1 and len(ref) == 1 and len(brk) == 1 and rows[0] < cbs[0] < ref[0] < brk[0]):
        raise Untranslatable("order: row loop, callback block, `if iteration == 0`, stopping test")
    cb = outer.body[cbs[0]]
    if cb.orelse or len(cb.body) != 2:
        raise Untranslatable("callback block is not `retVal = callback(V, rec_error); if retVal is True: ...`")
    a, t = cb.body
    ok = isinstance(a, ast.Assign) and isinstance(a.targets[0], ast.Name) and isinstance(a.value, ast.Call) and isinstance(a.value.func, ast.Name) \
        and a.value.func.id == "callback" and [getattr(x, "id", None) for x in a.value.args] == ["V", "rec_error"] and not a.value.keywords
    rv = a.targets[0].id if ok else None
    ok = ok and isinstance(t, ast.If) and not t.orelse and isinstance(t.test, ast.Compare) and isinstance(t.test.left, ast.Name) and t.test.left.id == rv \
        and isinstance(t.test.ops[0], ast.Is) and isinstance(t.test.comparators[0], ast.Constant) and t.test.comparators[0].value is True \
        and isinstance(t.body[-1], ast.Break) and all(isinstance(x, ast.Expr) for x in t.body[:-1])
    if not ok:
        raise Untranslatable("callback block is not `retVal = callback(V, rec_error); if retVal is True: ... break`")
    m = Mat({"rec_error": ("S", "(snd st)"), "rec_error0": ("S", "e0"), "tol": ("S", "tol")}, None)
    c = m.expr(outer.body[brk[0]].test)
    if c[0] != "B":
        raise Untranslatable("stopping test is not a comparison")
    return ("Goal forall (UtM UtU : mat) (n : nat) (o : @hopts R) (cb : mat -> R -> bool) (tol : R) (f : nat) (first : bool) (err0 : R) (V : mat),\n"
            "  hals_loop_cb Rops UtM UtU n o cb tol (S f) first err0 V =\n"
            "  let st := hals_pass_e Rops UtM UtU n o V in\n"
            "  if cb (fst st) (snd st) then fst st else\n"
            "  let e0 := if first then snd st else err0 in\n"
            f"  if {c[1]} then fst st else hals_loop_cb Rops UtM UtU n o cb tol f false e0 (fst st).\n"
            "Proof. intros. cbn [hals_loop_cb]. reflexivity. Qed.\n")


def tie_hals_cold(tree):
    fn = _func(tree, "hals_nnls")
    blk = [s for s in fn.body if isinstance(s, ast.If) and _is_none_test(s.test) == ("V", True)]
    if len(blk) != 1 or blk[0].orelse:
        raise Untranslatable("`if V is None:` block not found")
    m = Mat({"UtU": ("M", "UtU", "(length UtM)", "(length UtM)"), "UtM": ("M", "UtM", "(length UtM)", "n")}, lambda a, b: "sol")
    m.run(blk[0].body)
    v = m.env.get("V")
    if v is None or v[0] != "M":
        raise Untranslatable("the block does not define V")
    return ("Goal forall (UtM UtU sol : mat) (n : nat), hals_init Rops UtM UtU n sol = " + v[1] + ".\n"
            "Proof. intros. unfold hals_init. cbn [f0 Rops]. reflexivity. Qed.\n")


def _fista_body(tree):
    fn = _func(tree, "fista")
    lp = _for_over(fn.body, "iteration")
    return fn, lp


def tie_fista_step(tree):
    fn, lp = _fista_body(tree)

    def special(e, tr):
        if isinstance(e, ast.Call) and _callname(e) == "dot" and len(e.args) == 2 and isinstance(e.args[0], ast.Name) and e.args[0].id == "UtU":
            b = tr.expr(e.args[1])
            return lambda i, j: f"(rsum r (fun l => Gf UtU {i} l * {b('l', j)}))"
        return None

    tr = Entry({"UtM": lambda i, j: f"(Mget UtM {i} {j})", "x_update": lambda i, j: f"(Mget V {i} {j})", "sparsity_coef": lambda i, j: "sp",
                "ridge_coef": lambda i, j: "rd", "lr": lambda i, j: "lr", "epsilon": lambda i, j: "eps"}, {"non_negative": True}, special)
    stmts = []
    for s in lp.body:
        # `if isinstance(UtU, list): ... else: ...` -> the else branch (a matrix UtU)
        if isinstance(s, ast.If) and isinstance(s.test, ast.Call) and _callname(s.test) == "isinstance":
            stmts += s.orelse
            continue
        if isinstance(s, ast.Assign) and isinstance(s.targets[0], ast.Name) and s.targets[0].id == "momentum":
            break
        stmts.append(s)
    tr.run(stmts, lambda s, t: None)
    if "x_new" not in tr.env:
        raise Untranslatable("x_new not defined before the momentum update")
    term = tr.env["x_new"]("i", "j")
    return ("Goal forall (UtM UtU V : mat) (r n : nat) (sp rd lr eps : R) (i j : nat), wfm r r UtU -> wfm r n UtM -> wfm r n V -> (i < r)%nat -> (j < n)%nat ->\n"
            f"  Mget (fista_new Rops UtM UtU n true sp rd lr eps V) i j = {term}.\n"
            "Proof.\n  intros. rewrite (fista_new_entry UtM UtU r n sp rd lr eps) by assumption. cbv zeta. unfold qp_grad, bf, colf, fmax. cbn [fleb Rops]. unfold Rleb.\n"
            # round 8: the projection may be written with where(x < eps, eps, x) or with clip(x, a_min=eps) (= fmax eps x): both decide
            "  repeat match goal with |- context [Rlt_dec ?a ?b] => destruct (Rlt_dec a b) | |- context [Rle_dec ?a ?b] => destruct (Rle_dec a b) end; lra.\nQed.\n")


def tie_fista_loop(tree):
    fn, lp = _fista_body(tree)
    body = lp.body
    names = {}
    for idx, s in enumerate(body):
        if isinstance(s, ast.Assign) and isinstance(s.targets[0], ast.Name):
            names.setdefault(s.targets[0].id, []).append(idx)
    for need in ("x_update", "norm", "x", "momentum"):
        if need not in names:
            raise Untranslatable(f"assignment of {need} not found in the loop")
    i_mom, i_upd, i_norm, i_x = names["momentum"][0], names["x_update"][-1], names["norm"][0], names["x"][-1]
    if not (i_mom < i_upd < i_x and i_norm < i_x):
        raise Untranslatable("order of momentum / x_update / norm / x = copy(x_new)")
    # entry level: the extrapolated point
    tr = Entry({"x_new": lambda i, j: f"(Mget xn {i} {j})", "x": lambda i, j: f"(Mget x {i} {j})",
                "momentum_old": lambda i, j: "mo", "momentum": lambda i, j: "m"}, {}, lambda e, t: None)
    upd = tr.expr(body[i_upd].value)("i", "j")
    # matrix level: the norm and the copy
    m = Mat({"x": ("M", "x", "r", "n"), "x_new": ("M", "xn", "r", "n")}, None)
    nrm = m.expr(body[i_norm].value)
    xc = m.expr(body[i_x].value)
    if nrm[0] != "S" or xc != ("M", "xn", "r", "n"):
        raise Untranslatable("norm is not a scalar or x is not set to a copy of x_new")
    # the stopping rule
    first_i = brk_i = cond = None
    for idx, s in enumerate(body):
        if isinstance(s, ast.If) and not s.orelse:
            t = s.test
            if isinstance(t, ast.Compare) and isinstance(t.left, ast.Name) and t.left.id == "iteration" and isinstance(t.ops[0], ast.Eq) and _num(t.comparators[0]) == "0":
                if len(s.body) == 1 and isinstance(s.body[0], ast.Assign) and s.body[0].targets[0].id == "norm_0" and isinstance(s.body[0].value, ast.Name) and s.body[0].value.id == "norm":
                    first_i = idx
            elif len(s.body) == 1 and isinstance(s.body[0], ast.Break):
                if brk_i is not None:
                    raise Untranslatable("more than one stopping test")
                brk_i, cond = idx, t
    if first_i is None or brk_i is None or not (i_norm < first_i < brk_i):
        raise Untranslatable("`if iteration == 0: norm_0 = norm` followed by `if <test>: break` not found")
    c = Mat({"norm": ("S", "nrm"), "norm_0": ("S", "norm0'"), "tol": ("S", "tol")}, None).expr(cond)
    if c[0] != "B":
        raise Untranslatable("stopping test is not a comparison")
    # round 8: sum(abs(x - x_new)) and sum(abs(x_new - x)) are the same norm (auxiliary lemma stated and proved inside the generated file)
    return ("Lemma tie_abs_swap r n (a b : mat) : wfm r n a -> wfm r n b ->\n"
            "  msum Rops (mmap (fabs Rops) (mmap2 (fsub Rops) a b)) = msum Rops (mmap (fabs Rops) (mmap2 (fsub Rops) b a)).\n"
            "Proof.\n"
            "  intros Wa Wb. f_equal. apply (wfm_ext r n); [apply wfm_mmap, wfm_mmap2; assumption | apply wfm_mmap, wfm_mmap2; assumption|].\n"
            "  intros i j Hi Hj. rewrite !(mget_mmap r n) by (try apply wfm_mmap2; assumption). rewrite !(mget_mmap2 r n) by assumption.\n"
            "  unfold fabs. cbn [fleb f0 fsub fopp Rops]. unfold Rleb.\n"
            "  repeat match goal with |- context [Rle_dec ?u ?v] => destruct (Rle_dec u v) end; lra.\n"
            "Qed.\n"
            "Goal forall (UtM UtU x xu : mat) (r n : nat) (nonneg : bool) (sp rd lr tol eps mo m : R) (rest : list R) (first : bool) (norm0 : R),\n"
            "  wfm r r UtU -> wfm r n UtM -> wfm r n x -> wfm r n xu ->\n"
            "  let xn := fista_new Rops UtM UtU n nonneg sp rd lr eps xu in\n"
            f"  let nrm := {nrm[1]} in\n"
            "  let norm0' := if first then nrm else norm0 in\n"
            "  exists xu' : mat,\n"
            "    fista_loop Rops UtM UtU n nonneg sp rd lr tol eps (((mo - 1) / m) :: rest) first norm0 x xu =\n"
            f"      (if {c[1]} then xn else fista_loop Rops UtM UtU n nonneg sp rd lr tol eps rest false norm0' xn xu') /\\\n"
            f"    forall i j, (i < r)%nat -> (j < n)%nat -> Mget xu' i j = {upd}.\n"
            "Proof.\n  intros. assert (Wn0 : wfm r n xn) by (apply (fista_new_wfm UtM UtU r n sp rd lr eps); assumption).\n"
            "  eexists. split; [cbn [fista_loop]; cbv zeta; first [reflexivity | unfold norm0', nrm; rewrite (tie_abs_swap r n xn x) by assumption; reflexivity]|].\n"
            "  intros i j Hi Hj. assert (Wn : wfm r n xn) by (apply (fista_new_wfm UtM UtU r n sp rd lr eps); assumption).\n"
            "  assert (Wd : wfm r n (mmap2 (fsub Rops) xn x)) by (apply wfm_mmap2; assumption).\n"
            "  fold xn. rewrite (mget_mmap2 r n) by assumption. rewrite (mget_mmap2 r n) by assumption. cbn [fadd fsub fmul Rops]. ring.\nQed.\n")


def tie_admm_none(tree):
    fn = _func(tree, "admm")
    lp = _for_over(fn.body, "iteration")
    blk = [s for s in ast.walk(lp) if isinstance(s, ast.If) and _is_none_test(s.test) == ("n_const", True)]
    if len(blk) != 1:
        raise Untranslatable("`if n_const is None:` not found in the loop")
    m = Mat({"UtU": ("M", "UtU", "r", "r"), "UtM": ("M", "UtM", "m", "r")}, lambda a, b: f"(solve {a} {b})")
    m.run([s for s in blk[0].body if isinstance(s, ast.Assign)])
    v = m.env.get("x")
    if v is None or v[0] != "M":
        raise Untranslatable("the branch does not define x")
    return ("Goal forall (solve : mat -> mat -> mat) (UtM UtU x dual : mat) (m r it : nat),\n"
            f"  fst (fst (admm_none Rops solve UtM UtU x dual m r (S it))) = {v[1]}.\nProof. intros. reflexivity. Qed.\n")


def tie_aset_step(tree):
    """the interpolation step of active_set_nnls's inner loop (the lines repaired by dadc3ff): ratio, the move x + alpha (s - x), and
    the coordinates attaining alpha put exactly on the bound"""
    fn = _func(tree, "active_set_nnls")
    outer = _for_over(fn.body, "iteration")
    guard = [s for s in outer.body if isinstance(s, ast.If) and any(isinstance(x, ast.For) for x in s.body)]
    if len(guard) != 1:
        raise Untranslatable("`if tl.min(support_vec[passive_set]) <= 0:` with the inner loop not found")
    inner = next(x for x in guard[0].body if isinstance(x, ast.For))
    body = inner.body

    def special(e, tr):
        if isinstance(e, ast.Subscript) and isinstance(e.value, ast.Name) and isinstance(e.slice, ast.Name) and e.slice.id == "blocking":
            return tr.expr(e.value)          # X[blocking]: the same entry, on a blocking coordinate
        if isinstance(e, ast.Call) and _callname(e) == "min" and len(e.args) == 1 and isinstance(e.args[0], ast.Name) and e.args[0].id == "ratio":
            return lambda i, j: "alpha"
        return None

    tr = Entry({"x_vec": lambda i, j: "a", "support_vec": lambda i, j: "b"}, {}, special)
    res = {}

    def stop(s, tr_):
        if isinstance(s, ast.Assign) and isinstance(s.targets[0], ast.Name) and s.targets[0].id == "blocking":
            v = s.value
            ok = isinstance(v, ast.BinOp) and isinstance(v.op, ast.BitAnd) and isinstance(v.left, ast.Name) and v.left.id == "passive_set" and \
                isinstance(v.right, ast.Compare) and isinstance(v.right.left, ast.Name) and v.right.left.id == "support_vec" and \
                isinstance(v.right.ops[0], ast.LtE) and _num(v.right.comparators[0]) == "0"
            if not ok:
                raise Untranslatable("blocking is not `passive_set & (support_vec <= 0)`")
            tr_.env["blocking"] = lambda i, j: "blocking"
            res["blocking"] = True
            return None
        if isinstance(s, ast.Assign) and isinstance(s.value, ast.Call) and _callname(s.value) == "index_update":
            a = s.value.args
            if not (len(a) == 3 and isinstance(a[0], ast.Name) and a[0].id == "x_vec" and isinstance(a[1], ast.Subscript) and
                    isinstance(a[1].slice, ast.Name) and a[1].slice.id == "blocking"):
                raise Untranslatable("index_update form")
            return (tr_.env["x_vec"], tr_.expr(a[2]), tr_.env.get("ratio"))
        return None

    # `blocking = ...` is consumed by stop (returns None after recording); run() would then try to translate it: filter it out afterwards
    class _E(Entry):
        def run(self, stmts, stop_):
            for s in stmts:
                r_ = stop_(s, self)
                if r_ is not None:
                    return r_
                if isinstance(s, ast.Assign) and isinstance(s.targets[0], ast.Name) and s.targets[0].id == "blocking":
                    continue
                r2 = Entry.run(self, [s], lambda *_: None)
            return None
    tr.__class__ = _E
    out = tr.run(body, stop)
    if out is None or not res.get("blocking") or out[2] is None:
        raise Untranslatable("blocking / ratio / index_update of x_vec[blocking] not found in the inner loop")
    moved, onbound, ratio = out
    return ("Goal forall a b : R, ratio Rops a b = " + ratio("i", "j") + ".\nProof. intros. reflexivity. Qed.\n"
            "Goal forall a b alpha : R, b <= 0 ->\n"
            f"  nth 0 (as_step Rops (fun v => v) alpha [true] [a] [b]) 0 = {onbound('i', 'j')}.\n"
            "Proof.\n  intros. cbn [as_step map3 nth]. unfold ratio. cbn [fleb fdiv fsub fadd fmul f0 Rops]. unfold Rleb.\n"
            "  destruct (Rle_dec b 0); [|lra]. cbn [andb].\n"
            "  repeat match goal with |- context [Rle_dec ?u ?v] => destruct (Rle_dec u v) end; try lra; try ring.\nQed.\n"
            "Goal forall (a b alpha : R) (p : bool), p = false \\/ 0 < b ->\n"
            f"  nth 0 (as_step Rops (fun v => v) alpha [p] [a] [b]) 0 = {moved('i', 'j')}.\n"
            "Proof.\n  intros a b alpha p [-> | H]; cbn [as_step map3 nth andb fadd fmul fsub Rops]; [ring|]. cbn [fleb f0 Rops]. unfold Rleb.\n"
            "  destruct (Rle_dec b 0); [lra|]. rewrite andb_false_r. cbn [andb]. ring.\nQed.\n")


def tie_hals_err_nz(tree):
    """rec_error += tl.norm(V - newV) ** 2 (V the WHOLE matrix: NumPy broadcasts the new row) and the nonzero_rows safety procedure /
    ValueError"""
    fn = _func(tree, "hals_nnls")
    outer = _for_over(fn.body, "iteration")
    inner = _for_over(outer.body, "k")
    guard = [s for s in inner.body if isinstance(s, ast.If)]
    if len(guard) != 1 or not _sub(guard[0].test, "UtU", ["k", "k"]):
        raise Untranslatable("`if UtU[k, k]:` guard not found")
    body, orelse = guard[0].body, guard[0].orelse
    upd = [s for s in body if isinstance(s, ast.Assign) and isinstance(s.value, ast.Call) and _callname(s.value) == "index_update"]
    if len(upd) != 1 or not isinstance(upd[0].value.args[2], ast.Name):
        raise Untranslatable("index_update(V, index[k, :], <name>) not found")
    newrow = upd[0].value.args[2].id
    errs = [s for s in body if isinstance(s, ast.AugAssign) and isinstance(s.target, ast.Name) and s.target.id == "rec_error"]
    if len(errs) != 1 or not isinstance(errs[0].op, ast.Add) or body.index(errs[0]) > body.index(upd[0]):
        raise Untranslatable("`rec_error += ...` before the index_update not found")
    v = errs[0].value
    if not (isinstance(v, ast.BinOp) and isinstance(v.op, ast.Pow) and _num(v.right) == "2" and isinstance(v.left, ast.Call) and _callname(v.left) == "norm"
            and len(v.left.args) == 1 and isinstance(v.left.args[0], ast.BinOp) and isinstance(v.left.args[0].op, ast.Sub)
            and isinstance(v.left.args[0].right, ast.Name) and v.left.args[0].right.id == newrow):
        raise Untranslatable("rec_error increment is not tl.norm(<V> - <new row>) ** 2")
    lhs = v.left.args[0].left
    if isinstance(lhs, ast.Name) and lhs.id == "V":
        err = "msum Rops (map (fun row => map2 (fun a b => sq Rops (fsub Rops a b)) row nr) V)"
    elif _sub(lhs, "V", ["k", ":"]):
        err = "vsum Rops (map2 (fun a b => sq Rops (fsub Rops a b)) (mrow V k) nr)"
    else:
        raise Untranslatable("left operand of the error difference")
    # the safety procedure after the update
    post = body[body.index(upd[0]) + 1:]
    if len(post) != 1 or not isinstance(post[0], ast.If) or post[0].orelse:
        raise Untranslatable("one `if nonzero_rows and ...:` after the update expected")
    t = post[0].test
    ok = isinstance(t, ast.BoolOp) and isinstance(t.op, ast.And) and len(t.values) == 2 and isinstance(t.values[0], ast.Name) and t.values[0].id == "nonzero_rows" \
        and isinstance(t.values[1], ast.Call) and _callname(t.values[1]) == "all" and isinstance(t.values[1].args[0], ast.Compare) \
        and _sub(t.values[1].args[0].left, "V", ["k", ":"]) and isinstance(t.values[1].args[0].ops[0], ast.Eq) and _num(t.values[1].args[0].comparators[0]) == "0"
    if not ok:
        raise Untranslatable("test of the safety procedure is not `nonzero_rows and tl.all(V[k, :] == 0)`")
    a = post[0].body
    if not (len(a) == 1 and isinstance(a[0], ast.Assign) and _sub(a[0].targets[0], "V", ["k", ":"])):
        raise Untranslatable("safety procedure does not assign V[k, :]")
    val = a[0].value
    if not (isinstance(val, ast.BinOp) and isinstance(val.op, ast.Mult)):
        raise Untranslatable("safety value is not a product")
    def fac(e):
        if isinstance(e, ast.Call) and _callname(e) == "eps":
            return "meps"
        if isinstance(e, ast.Call) and _callname(e) == "max" and len(e.args) == 1 and isinstance(e.args[0], ast.Name) and e.args[0].id == "V":
            return "(mmax Rops V')"
        raise Untranslatable("factor of the safety value")
    safety = f"fmul Rops {fac(val.left)} {fac(val.right)}"
    # elif nonzero_rows: raise ValueError
    if not (len(orelse) == 1 and isinstance(orelse[0], ast.If) and isinstance(orelse[0].test, ast.Name) and orelse[0].test.id == "nonzero_rows"
            and len(orelse[0].body) == 1 and isinstance(orelse[0].body[0], ast.Raise) and not orelse[0].orelse):
        raise Untranslatable("`elif nonzero_rows: raise ValueError(...)` not found")
    return ("Goal forall (UtM UtU V : mat) (n k : nat) (o : @hopts R), is0 Rops (mget Rops UtU k k) = false ->\n"
            "  let nr := hals_newrow Rops UtM UtU n o V k in\n"
            f"  hals_err Rops UtM UtU n o V k = {err}.\n"
            "Proof. intros UtM UtU V n k o H nr. unfold hals_err. rewrite H. reflexivity. Qed.\n"
            "Goal forall (UtM UtU V : mat) (n k : nat) (sp rd : option R) (eps meps : R), is0 Rops (mget Rops UtU k k) = false ->\n"
            "  let o := mkH sp rd true eps meps in let nr := hals_newrow Rops UtM UtU n o V k in let V' := set_nth k nr V in\n"
            f"  hals_step Rops UtM UtU n o V k = if forallb (is0 Rops) nr then set_nth k (map (fun _ => {safety}) nr) V' else V'.\n"
            "Proof. intros UtM UtU V n k sp rd eps meps H o nr V'. unfold hals_step. rewrite H. cbn [h_nz h_meps andb]. reflexivity. Qed.\n"
            "Goal forall (UtM UtU : mat) (iters : nat) (sp rd : option R) (eps meps : R) (nz : bool),\n"
            "  hals_rejects Rops UtM UtU iters (mkH sp rd nz eps meps) = (nz && zero_diag Rops UtM UtU && negb (Nat.eqb iters 0)).\n"
            "Proof. intros. reflexivity. Qed.\n")


def tie_fista_entry(tree):
    """the argument handling of fista: None -> 0 for sparsity_coef / ridge_coef, x None -> zeros of UtM's shape, the default step"""
    fn = _func(tree, "fista")
    pre = []
    for s in fn.body:
        if isinstance(s, ast.For):
            break
        pre.append(s)
    vals = {}
    for s in pre:
        if isinstance(s, ast.If) and not s.orelse:
            t = _is_none_test(s.test)
            if t is not None and t[1] and len(s.body) == 1 and isinstance(s.body[0], ast.Assign) and isinstance(s.body[0].targets[0], ast.Name) and s.body[0].targets[0].id == t[0]:
                vals[t[0]] = s.body[0].value
    for need in ("sparsity_coef", "ridge_coef", "x", "lr"):
        if need not in vals:
            raise Untranslatable(f"`if {need} is None: {need} = ...` not found")
    sp0, rd0 = _num(vals["sparsity_coef"]), _num(vals["ridge_coef"])
    if sp0 is None or rd0 is None:
        raise Untranslatable("default of sparsity_coef / ridge_coef is not a number")
    xz = vals["x"]
    if not (isinstance(xz, ast.Call) and _callname(xz) == "zeros" and isinstance(xz.args[0], ast.Call) and _callname(xz.args[0]) == "shape"
            and isinstance(xz.args[0].args[0], ast.Name) and xz.args[0].args[0].id == "UtM"):
        raise Untranslatable("default start is not tl.zeros(tl.shape(UtM), ...)")

    def special(e, tr):
        # tl.truncated_svd(UtU)[1][0]: the leading singular value (recorded data sigma)
        if isinstance(e, ast.Subscript) and _num(e.slice) == "0" and isinstance(e.value, ast.Subscript) and _num(e.value.slice) == "1" \
                and isinstance(e.value.value, ast.Call) and _callname(e.value.value) == "truncated_svd" and isinstance(e.value.value.args[0], ast.Name) \
                and e.value.value.args[0].id == "UtU":
            return lambda i, j: "sigma"
        return None
    tr = Entry({"ridge_coef": lambda i, j: "rd"}, {}, special)
    lr = tr.expr(vals["lr"])("i", "j")
    order = [pre.index(s) for s in pre if isinstance(s, ast.If) and _is_none_test(s.test) and _is_none_test(s.test)[0] in ("ridge_coef", "lr")]
    names = [_is_none_test(pre[k].test)[0] for k in order]
    if names.index("ridge_coef") > names.index("lr"):
        raise Untranslatable("ridge_coef is defaulted after the step is computed from it")
    return ("From TLV Require Import Model.NnlsEntry.\n"
            f"Goal forall sigma rd : R, fista_default_lr Rops sigma rd = {lr}.\n"
            "Proof. intros. unfold fista_default_lr, two. cbn [f1 fadd fmul fdiv Rops]. reflexivity. Qed.\n"
            "Goal forall (UtM UtU : mat) (n : nat) (nonneg : bool) (sigma tol eps : R) (betas : list R),\n"
            "  fista_call Rops UtM UtU n nonneg None None None sigma tol eps None betas =\n"
            f"  Ok (fista Rops UtM UtU n nonneg {sp0} {rd0} (fista_default_lr Rops sigma {rd0}) tol eps (zeros_like Rops UtM) betas).\n"
            "Proof. intros. reflexivity. Qed.\n"
            "Goal forall (UtM UtU x0 : mat) (n : nat) (nonneg : bool) (sp rd lr sigma tol eps : R) (betas : list R),\n"
            "  fista_call Rops UtM UtU n nonneg (Some sp) (Some rd) (Some lr) sigma tol eps (Some x0) betas = Ok (fista Rops UtM UtU n nonneg sp rd lr tol eps x0 betas).\n"
            "Proof. intros. reflexivity. Qed.\n")


def tie_admm_split(tree):
    """x_split of the n_const=None model (admm_none) is tl.solve applied to the SAME two matrices as in the loop of the whole-function model;
    their entries are tied to the source by admm_loop_body_stop (entrywise, up to ring equalities: a matrix-level `reflexivity` tie tripped on
    harmless rewrites such as UtM + rho * x + rho * dual_var).  Here: the source still computes rho and x_split once each."""
    fn = _func(tree, "admm")
    rho = [s for s in fn.body if isinstance(s, ast.Assign) and isinstance(s.targets[0], ast.Name) and s.targets[0].id == "rho"]
    lp = _for_over(fn.body, "iteration")
    xs = [s for s in ast.walk(lp) if isinstance(s, ast.Assign) and isinstance(s.targets[0], ast.Name) and s.targets[0].id == "x_split"]
    if len(rho) != 1 or len(xs) != 1 or not (isinstance(xs[0].value, ast.Call) and _callname(xs[0].value) == "solve"):
        raise Untranslatable("rho / x_split = tl.solve(...) assignments")
    return ("From TLV Require Import Model.NnlsAdmm Proofs.NnlsProofsAdmmLoop.\n"
            "Goal forall (solve : mat -> mat -> mat) (UtM UtU x dual : mat) (m r it : nat),\n"
            "  snd (fst (admm_none Rops solve UtM UtU x dual m r (S it))) = Some (solve (admm_lhs Rops UtU r) (admm_rhs UtM UtU r x dual)).\n"
            "Proof. intros. reflexivity. Qed.\n")


def tie_aset_tests(tree):
    """active_set_nnls: when the index with the largest gradient enters the passive set, and the termination test"""
    fn = _func(tree, "active_set_nnls")
    outer = _for_over(fn.body, "iteration")
    first = outer.body[0]
    if not isinstance(first, ast.If) or first.orelse:
        raise Untranslatable("index selection `if iteration > 0 or tl.all(x_vec == 0):` not first in the loop")
    t = first.test
    ok = isinstance(t, ast.BoolOp) and isinstance(t.op, ast.Or) and len(t.values) == 2 \
        and isinstance(t.values[0], ast.Compare) and isinstance(t.values[0].left, ast.Name) and t.values[0].left.id == "iteration" \
        and isinstance(t.values[0].ops[0], ast.Gt) and _num(t.values[0].comparators[0]) == "0" \
        and isinstance(t.values[1], ast.Call) and _callname(t.values[1]) == "all" and isinstance(t.values[1].args[0], ast.Compare) \
        and isinstance(t.values[1].args[0].left, ast.Name) and t.values[1].args[0].left.id == "x_vec" \
        and isinstance(t.values[1].args[0].ops[0], ast.Eq) and _num(t.values[1].args[0].comparators[0]) == "0"
    if not ok:
        raise Untranslatable("index selection test")
    b = first.body
    ok = len(b) == 3 and isinstance(b[0], ast.Assign) and b[0].targets[0].id == "indice" and isinstance(b[0].value, ast.Call) and _callname(b[0].value) == "argmax" \
        and isinstance(b[0].value.args[0], ast.Name) and b[0].value.args[0].id == "x_gradient"
    def upd(s, name, val):
        return isinstance(s, ast.Assign) and s.targets[0].id == name and isinstance(s.value, ast.Call) and _callname(s.value) == "index_update" \
            and isinstance(s.value.args[0], ast.Name) and s.value.args[0].id == name and isinstance(s.value.args[2], ast.Constant) and s.value.args[2].value is val \
            and isinstance(s.value.args[1], ast.Subscript) and isinstance(s.value.args[1].slice, ast.Name) and s.value.args[1].slice.id == "indice"
    if not (ok and upd(b[1], "passive_set", True) and upd(b[2], "active_set", False)):
        raise Untranslatable("index selection body (argmax of the gradient; passive True, active False)")
    last = outer.body[-1]
    ok = isinstance(last, ast.If) and len(last.body) == 1 and isinstance(last.body[0], ast.Break) and isinstance(last.test, ast.BoolOp) and isinstance(last.test.op, ast.Or) \
        and len(last.test.values) == 2
    if not ok:
        raise Untranslatable("termination test is not the last statement `if ... or ...: break`")
    t1, t2 = last.test.values
    ok1 = isinstance(t1, ast.Compare) and isinstance(t1.left, ast.Call) and _callname(t1.left) == "any" and isinstance(t1.left.args[0], ast.Name) \
        and t1.left.args[0].id == "active_set" and isinstance(t1.ops[0], ast.NotEq) and isinstance(t1.comparators[0], ast.Constant) and t1.comparators[0].value is True
    ok2 = isinstance(t2, ast.Compare) and isinstance(t2.left, ast.Call) and _callname(t2.left) == "max" and isinstance(t2.left.args[0], ast.Subscript) \
        and isinstance(t2.left.args[0].value, ast.Name) and t2.left.args[0].value.id == "x_gradient" and isinstance(t2.left.args[0].slice, ast.Name) \
        and t2.left.args[0].slice.id == "active_set" and isinstance(t2.ops[0], ast.LtE) and isinstance(t2.comparators[0], ast.Name) and t2.comparators[0].id == "tol"
    if not (ok1 and ok2):
        raise Untranslatable("termination test is not `tl.any(active_set) != True or tl.max(x_gradient[active_set]) <= tol`")
    # x_vec = clip(support_vec, 0) and the gradient before the test
    pre = outer.body[-3:-1]
    okc = isinstance(pre[0], ast.Assign) and pre[0].targets[0].id == "x_vec" and isinstance(pre[0].value, ast.Call) and _callname(pre[0].value) == "clip"
    okg = isinstance(pre[1], ast.Assign) and pre[1].targets[0].id == "x_gradient"
    if not (okc and okg):
        raise Untranslatable("x_vec = clip(support_vec, 0); x_gradient = ... before the termination test")
    gm = Mat({}, None)
    return ("(* `max(l) <= t` with NumPy's empty-selection case excluded by the first disjunct *)\n"
            "Definition maxle (l : list R) (t : R) : bool := match vmin' Rops (map (fopp Rops) l) with Some nm => fleb Rops (fopp Rops nm) t | None => true end.\n"
            "Goal forall (tol : R) (active : list bool) (g : list R), as_done Rops tol active g = (negb (anyb active) || maxle (select active g) tol).\n"
            "Proof. intros. reflexivity. Qed.\n"
            "Goal forall (solve : mat -> list R -> option (list R)) (rnd : R -> R) (Utm : list R) (UtU : mat) (tol : R) (f : nat) (iter0 : bool) (x g : list R) (p a : list bool),\n"
            "  as_loop Rops solve rnd Utm UtU tol (S f) iter0 x g p a =\n"
            "  match as_body Rops solve rnd Utm UtU iter0 x g p a with None => None | Some (s2, p2, a2) =>\n"
            "    let x3 := map (fmax Rops 0) s2 in let g3 := gradient Rops Utm UtU x3 in\n"
            "    if as_done Rops tol a2 g3 then Some (x3, true) else as_loop Rops solve rnd Utm UtU tol f false x3 g3 p2 a2 end.\n"
            "Proof. intros. reflexivity. Qed.\n"
            "(* the index selection: executed when `iteration > 0 or all(x == 0)`; the index is argmax of the whole gradient *)\n"
            "Goal forall (solve : mat -> list R -> option (list R)) (rnd : R -> R) (Utm : list R) (UtU : mat) (iter0 : bool) (x g : list R) (p a : list bool),\n"
            "  let add := negb iter0 || forallb (is0 Rops) x in\n"
            "  let p1 := if add then set_nth (argmax Rops g) true p else p in let a1 := if add then set_nth (argmax Rops g) false a else a in\n"
            "  solve_scatter Rops solve Utm UtU p1 <> None -> forall s1, solve_scatter Rops solve Utm UtU p1 = Some s1 ->\n"
            "  as_body Rops solve rnd Utm UtU iter0 x g p a =\n"
            "  match vmin' Rops (select p1 s1) with None => None | Some mn =>\n"
            "    if fleb Rops mn 0 then match inner Rops solve rnd Utm UtU (length p1) x s1 p1 with Some (x2, s2, p2) => Some (s2, p2, negmask p2) | None => None end\n"
            "    else Some (s1, p1, a1) end.\n"
            "Proof. intros solve rnd Utm UtU iter0 x g p a add p1 a1 _ s1 H. unfold as_body. fold add. fold p1. fold a1. rewrite H. reflexivity. Qed.\n")


def tie_fista_momentum(tree):
    """fista: `momentum_old = 1.0` before the loop, `momentum = (1 + sqrt(1 + 4 * momentum_old**2)) / 2` and `momentum_old = momentum` (after
    the extrapolation) inside: the recurrence the model computes (Model/NnlsMomentum.v momentum_next / fista_betas); sqrt is R's sqrt"""
    fn, lp = _fista_body(tree)
    init = [s for s in fn.body if isinstance(s, ast.Assign) and isinstance(s.targets[0], ast.Name) and s.targets[0].id == "momentum_old"]
    if len(init) != 1 or _num(init[0].value) != "1" or fn.body.index(init[0]) > fn.body.index(lp):
        raise Untranslatable("`momentum_old = 1.0` once, before the loop")
    mom = [s for s in lp.body if isinstance(s, ast.Assign) and isinstance(s.targets[0], ast.Name) and s.targets[0].id == "momentum"]
    old = [s for s in lp.body if isinstance(s, ast.Assign) and isinstance(s.targets[0], ast.Name) and s.targets[0].id == "momentum_old"]
    upd = [s for s in lp.body if isinstance(s, ast.Assign) and isinstance(s.targets[0], ast.Name) and s.targets[0].id == "x_update"]
    if len(mom) != 1 or len(old) != 1 or len(upd) != 1 or not (isinstance(old[0].value, ast.Name) and old[0].value.id == "momentum"):
        raise Untranslatable("`momentum = ...`, `x_update = ...`, `momentum_old = momentum` once each in the loop")
    if not lp.body.index(mom[0]) < lp.body.index(upd[0]) < lp.body.index(old[0]):
        raise Untranslatable("order momentum / x_update / momentum_old = momentum")
    sq = []

    def tr(e):
        c = _num(e)
        if c is not None:
            return c
        if isinstance(e, ast.Name) and e.id == "momentum_old":
            return "mo"
        if isinstance(e, ast.BinOp) and isinstance(e.op, ast.Pow) and _num(e.right) == "2":
            a = tr(e.left); return f"({a} * {a})"
        if isinstance(e, ast.BinOp):
            op = {ast.Add: "+", ast.Sub: "-", ast.Mult: "*", ast.Div: "/"}.get(type(e.op))
            if op is None:
                raise Untranslatable("operator in the momentum formula")
            return f"({tr(e.left)} {op} {tr(e.right)})"
        if isinstance(e, ast.Call) and ((isinstance(e.func, ast.Name) and e.func.id == "sqrt") or _callname(e) == "sqrt") and len(e.args) == 1 and not e.keywords:
            a = tr(e.args[0]); sq.append(a); return f"(sqrt {a})"
        raise Untranslatable("momentum formula: " + ast.dump(e)[:80])
    t = tr(mom[0].value)
    if len(sq) != 1:
        raise Untranslatable("momentum formula without exactly one sqrt")
    return ("From TLV Require Import Model.NnlsMomentum.\n"
            f"Goal forall mo : R, {t} = momentum_next Rops sqrt mo.\n"
            "Proof. intros. unfold momentum_next, four, two. cbn [fadd fmul fdiv f1 Rops].\n"
            f"  replace {sq[0]} with (1 + (1 + 1 + (1 + 1)) * (mo * mo)) by ring. field. Qed.\n"
            "(* momentum_old = 1.0; one coefficient (momentum_old - 1) / momentum per iteration; momentum_old = momentum *)\n"
            "Goal forall K : nat, fista_betas Rops sqrt (S K) = (1 - 1) / momentum_next Rops sqrt 1 :: momentum_betas Rops sqrt (momentum_next Rops sqrt 1) K.\n"
            "Proof. intros. reflexivity. Qed.\n")


def tie_admm_order(tree):
    """admm: `if order is None: order = 0` before the loop (the lines added by /repo a5b9e5b) = the model reads order None as Some 0"""
    fn = _func(tree, "admm")
    lp = _for_over(fn.body, "iteration")
    ifs = [s for s in fn.body if isinstance(s, ast.If) and _is_none_test(s.test) == ("order", True)]
    if len(ifs) != 1 or ifs[0].orelse or fn.body.index(ifs[0]) > fn.body.index(lp):
        raise Untranslatable("`if order is None:` once, before the loop")
    body = [s for s in ifs[0].body if not (isinstance(s, ast.Expr) and isinstance(s.value, ast.Constant))]
    if not (len(body) == 1 and isinstance(body[0], ast.Assign) and isinstance(body[0].targets[0], ast.Name) and body[0].targets[0].id == "order" and _num(body[0].value) == "0"):
        raise Untranslatable("`if order is None:` does not set order = 0")
    if any(isinstance(n, ast.Assign) and any(isinstance(t, ast.Name) and t.id == "order" for t in n.targets) for n in ast.walk(lp)):
        raise Untranslatable("order is re-assigned inside the loop")
    return ("From TLV Require Import Model.NnlsAdmm.\n"
            "Goal forall (solve : mat -> mat -> mat) (n_const : option nat) (k : @constr R) (UtM UtU x dual : mat) (m r n : nat) (tol : R),\n"
            "  admm Rops solve n_const None k UtM UtU x dual m r n tol = admm Rops solve n_const (Some 0%nat) k UtM UtU x dual m r n tol.\n"
            "Proof. intros. reflexivity. Qed.\n"
            "Goal forall (n_const order : option nat) (k : @constr R) (T : mat),\n"
            "  prox_call Rops n_const order k T = match n_const with None => Ok T | Some nc =>\n"
            "    if Nat.ltb (match order with Some o => o | None => 0%nat end) nc then Ok (apply_constr Rops k T) else Err end.\n"
            "Proof. intros. reflexivity. Qed.\n")


def tie_admm_zero(tree):
    """admm: x_split is bound before the loop (the line added by /repo fe4edf7) and the function ends with `return x, x_split, dual_var`:
    with n_iter_max = 0 the model returns (x, <that value>, dual_var)"""
    fn = _func(tree, "admm")
    lp = _for_over(fn.body, "iteration")
    pre = [s for s in fn.body[:fn.body.index(lp)] if isinstance(s, ast.Assign) and len(s.targets) == 1 and isinstance(s.targets[0], ast.Name)
           and s.targets[0].id in ("x_split", "x", "dual_var")]
    if [s.targets[0].id for s in pre] != ["x_split"]:
        raise Untranslatable("before the loop: exactly one assignment to x_split and none to x / dual_var")
    m = Mat({"x": ("M", "x", "m", "r"), "dual_var": ("M", "dual", "m", "r"), "UtM": ("M", "UtM", "m", "r"), "UtU": ("M", "UtU", "r", "r")}, None)
    v = m.expr(pre[0].value)
    if v[0] != "M":
        raise Untranslatable("x_split before the loop is not a matrix expression")
    return ("From TLV Require Import Model.NnlsAdmm.\n"
            "Goal forall (solve : mat -> mat -> mat) (n_const order : option nat) (k : @constr R) (UtM UtU x dual : mat) (m r : nat) (tol : R),\n"
            f"  admm Rops solve n_const order k UtM UtU x dual m r 0 tol = Ok (x, {v[1]}, dual).\n"
            "Proof. intros. reflexivity. Qed.\n")


def tie_admm_loop(tree):
    """admm, n_const not None: the loop body and the stopping rule, ENTRYWISE.  The loop body is executed symbolically (Entry: temporaries,
    re-association and other ring-equal rewrites pass); tl.solve's answer and proximal_operator's answer are atoms (matrices xs, xn of the
    right shape); coqc proves that the entries of: the two arguments of tl.solve, the argument of proximal_operator, the new dual variable,
    and the four matrices inside the two norm tests are the entries of the model's terms (Proofs/NnlsProofsAdmmLoop.v admm_body_struct,
    admm_stop_struct and the *_entry lemmas).  Structure matched as a pattern: `for iteration in range(n_iter_max)`, the early return of
    the n_const=None branch, `if <norm test> and <norm test>: break` as the last statement, `return x, x_split, dual_var` after the loop."""
    fn = _func(tree, "admm")
    rho = [s for s in fn.body if isinstance(s, ast.Assign) and isinstance(s.targets[0], ast.Name) and s.targets[0].id == "rho"]
    lp = _for_over(fn.body, "iteration")
    ok = isinstance(lp.iter, ast.Call) and isinstance(lp.iter.func, ast.Name) and lp.iter.func.id == "range" and len(lp.iter.args) == 1 \
        and isinstance(lp.iter.args[0], ast.Name) and lp.iter.args[0].id == "n_iter_max" and not lp.orelse
    if not ok or len(rho) != 1 or fn.body.index(rho[0]) > fn.body.index(lp):
        raise Untranslatable("`rho = ...` once, before `for iteration in range(n_iter_max):`")
    def is_ret(s_):
        return isinstance(s_, ast.Return) and isinstance(s_.value, ast.Tuple) and [getattr(e, "id", None) for e in s_.value.elts] == ["x", "x_split", "dual_var"]
    if fn.body[-1] is lp or fn.body[fn.body.index(lp) + 1] is not fn.body[-1] or not is_ret(fn.body[-1]):
        raise Untranslatable("`return x, x_split, dual_var` directly after the loop")
    rec = {}
    DIM = {"x": ("m", "r"), "dual_var": ("m", "r"), "UtM": ("m", "r"), "UtU": ("r", "r"), "x_old": ("m", "r")}

    def special(e, E):
        if isinstance(e, ast.Subscript) and isinstance(e.value, ast.Call) and _callname(e.value) == "shape" and len(e.value.args) == 1 \
                and isinstance(e.value.args[0], ast.Name) and e.value.args[0].id in DIM and _num(e.slice) in ("0", "1"):
            d = DIM[e.value.args[0].id][int(_num(e.slice))]
            return lambda i, j: f"(nat2F Rops {d})"
        if not isinstance(e, ast.Call):
            return None
        nm = _callname(e)
        if nm == "transpose" and len(e.args) == 1:
            f = E.expr(e.args[0]); return lambda i, j: f(j, i)
        if nm == "eye":
            return lambda i, j: f"(if Nat.eqb {i} {j} then 1 else 0)"
        if nm == "trace" and len(e.args) == 1 and isinstance(e.args[0], ast.Name) and e.args[0].id == "UtU":
            return lambda i, j: "(mtrace Rops UtU)"
        if nm == "solve" and len(e.args) == 2:
            if "solve" in rec:
                raise Untranslatable("more than one tl.solve in the loop body")
            rec["solve"] = (E.expr(e.args[0]), E.expr(e.args[1]))
            return lambda i, j: f"(Mget xs {i} {j})"
        if isinstance(e.func, ast.Name) and e.func.id == "proximal_operator":
            kws = {k.arg: k.value for k in e.keywords}
            if len(e.args) != 1 or any(not (isinstance(v, ast.Name) and v.id == k) for k, v in kws.items()) \
                    or not {"n_const", "order", "non_negative", "l1_reg", "l2_square_reg"} <= set(kws) or "prox" in rec:
                raise Untranslatable("proximal_operator(one positional argument, every keyword passed through unchanged), once")
            rec["prox"] = E.expr(e.args[0])
            return lambda i, j: f"(Mget xn {i} {j})"
        return None

    E = Entry({k: (lambda nm_: (lambda i, j: f"(Mget {nm_} {i} {j})"))({"dual_var": "dual"}.get(k, k)) for k in ("x", "dual_var", "UtM", "UtU")},
              {"n_const": True}, special)
    E.run([rho[0]], lambda s_, E_: None)
    body = list(lp.body)
    last = body[-1]
    if not (isinstance(last, ast.If) and len(last.body) == 1 and isinstance(last.body[0], ast.Break) and not last.orelse
            and isinstance(last.test, ast.BoolOp) and isinstance(last.test.op, ast.And) and len(last.test.values) == 2):
        raise Untranslatable("`if ... and ...: break` as the last statement of the loop")
    none_ifs = [s_ for s_ in body[:-1] if isinstance(s_, ast.If)]
    if len(none_ifs) != 1 or _is_none_test(none_ifs[0].test) != ("n_const", True) or none_ifs[0].orelse or not is_ret(none_ifs[0].body[-1]):
        raise Untranslatable("`if n_const is None: ...; return x, x_split, dual_var` (the only other `if` of the loop)")
    E.run(body[:-1], lambda s_, E_: None)        # the n_const=None branch is not taken (given: n_const is not None)
    if "solve" not in rec or "prox" not in rec:
        raise Untranslatable("tl.solve / proximal_operator not found in the loop body")
    if E.env["x_split"]("i", "c") != "(Mget xs i c)" or E.env["x"]("c", "i") != "(Mget xn c i)":
        raise Untranslatable("x_split is not the answer of tl.solve / x is not the answer of proximal_operator at the end of the body")

    def norm_test(c):
        ok_ = isinstance(c, ast.Compare) and len(c.ops) == 1 and isinstance(c.ops[0], ast.Lt) and isinstance(c.left, ast.Call) and _callname(c.left) == "norm" \
            and len(c.left.args) == 1 and not c.left.keywords and isinstance(c.comparators[0], ast.BinOp) and isinstance(c.comparators[0].op, ast.Mult) \
            and isinstance(c.comparators[0].left, ast.Name) and c.comparators[0].left.id == "tol" and isinstance(c.comparators[0].right, ast.Call) \
            and _callname(c.comparators[0].right) == "norm" and len(c.comparators[0].right.args) == 1 and not c.comparators[0].right.keywords
        if not ok_:
            raise Untranslatable("stopping test is not `tl.norm(a) < tol * tl.norm(b)`")
        return E.expr(c.left.args[0]), E.expr(c.comparators[0].right.args[0])
    (a1, b1), (a2, b2) = norm_test(last.test.values[0]), norm_test(last.test.values[1])
    A, B = rec["solve"]
    dn = E.env["dual_var"]
    hyp = "forall (UtM UtU x dual xs xn : mat) (m r c i k : nat), wfm r r UtU -> wfm m r UtM -> wfm m r x -> wfm m r dual -> wfm r m xs -> wfm m r xn ->\n  (c < m)%nat -> (i < r)%nat -> (k < r)%nat ->\n  "
    tac = "unfold admm_rho; cbn [fdiv fmul fadd fsub Rops]; try (destruct (Nat.eqb _ _)); ring"
    return ("From TLV Require Import Proofs.NnlsProofsAdmmLoop.\n"
            "(* the two arguments of tl.solve *)\n"
            f"Goal {hyp}Mget (admm_lhs Rops UtU r) i k = {A('i', 'k')}.\nProof. intros. rewrite admm_lhs_entry by assumption. {tac}. Qed.\n"
            f"Goal {hyp}Mget (admm_rhs UtM UtU r x dual) i c = {B('i', 'c')}.\nProof. intros. rewrite (admm_rhs_entry UtM UtU m r) by assumption. {tac}. Qed.\n"
            "(* the argument of proximal_operator, the new dual variable *)\n"
            f"Goal {hyp}Mget (msub Rops (mtranspose Rops m xs) dual) c i = {rec['prox']('c', 'i')}.\nProof. intros. rewrite (admm_proxarg_entry m r) by assumption. {tac}. Qed.\n"
            f"Goal {hyp}Mget (msub Rops (madd Rops dual xn) (mtranspose Rops m xs)) c i = {dn('c', 'i')}.\nProof. intros. rewrite (admm_dual_entry m r) by assumption. {tac}. Qed.\n"
            "(* the stopping rule: norm(x - x_split^T) < tol norm(x) and norm(x - x_old) < tol norm(dual_var), on the new state *)\n"
            f"Goal {hyp}Mget (msub Rops xn (mtranspose Rops m xs)) c i = {a1('c', 'i')} /\\ Mget xn c i = {b1('c', 'i')} /\\\n"
            f"  Mget (msub Rops xn x) c i = {a2('c', 'i')} /\\ Mget (msub Rops (madd Rops dual xn) (mtranspose Rops m xs)) c i = {b2('c', 'i')}.\n"
            f"Proof. intros. rewrite (admm_dual_entry m r), (admm_dres_entry m r xs xn), (msub_entry m r xn x) by assumption. repeat split; ({tac}). Qed.\n"
            "(* the model's body / rule / loop are built from exactly these matrices *)\n"
            "Goal forall (solve : mat -> mat -> mat) (prox : mat -> mat) (UtM UtU x dual : mat) (m r : nat),\n"
            "  let xs := solve (admm_lhs Rops UtU r) (admm_rhs UtM UtU r x dual) in let x' := prox (msub Rops (mtranspose Rops m xs) dual) in\n"
            "  admm_body Rops solve prox UtM UtU m r x dual = (x', xs, msub Rops (madd Rops dual x') (mtranspose Rops m xs)).\nProof. intros. reflexivity. Qed.\n"
            "Goal forall (m : nat) (tol : R) (x_old x xs dual : mat),\n"
            "  admm_stop Rops m tol x_old x xs dual = (norm_lt Rops tol (msub Rops x (mtranspose Rops m xs)) x && norm_lt Rops tol (msub Rops x x_old) dual).\nProof. intros. reflexivity. Qed.\n"
            "Goal forall (solve : mat -> mat -> mat) (prox : mat -> mat) (UtM UtU : mat) (m r : nat) (tol : R) (f : nat) (x : mat) (xs : option mat) (dual : mat),\n"
            "  admm_loop Rops solve prox UtM UtU m r tol (S f) x xs dual =\n"
            "  let '(x', xs', d') := admm_body Rops solve prox UtM UtU m r x dual in\n"
            "  if admm_stop Rops m tol x x' xs' d' then (x', Some xs', d') else admm_loop Rops solve prox UtM UtU m r tol f x' (Some xs') d'.\n"
            "Proof. intros. reflexivity. Qed.\n")


def ties(nnls_src, admm_src):
    """-> list of (name, goal text or None, reason)"""
    out = []
    t1, t2 = ast.parse(nnls_src), ast.parse(admm_src)
    for name, f, tree in (("hals_row_update", tie_hals_row, t1), ("hals_stop_rule", tie_hals_stop, t1), ("hals_cold_start", tie_hals_cold, t1),
                          ("fista_step", tie_fista_step, t1), ("fista_loop_step", tie_fista_loop, t1), ("aset_step", tie_aset_step, t1),
                          ("admm_none", tie_admm_none, t2), ("hals_error_nonzero_rows", tie_hals_err_nz, t1), ("fista_entry", tie_fista_entry, t1),
                          ("admm_x_split", tie_admm_split, t2), ("aset_selection_termination", tie_aset_tests, t1),
                          ("admm_loop_body_stop", tie_admm_loop, t2), ("fista_momentum", tie_fista_momentum, t1), ("hals_callback_exact", tie_hals_callback, t1),
                          ("admm_order_default", tie_admm_order, t2), ("admm_zero_iterations", tie_admm_zero, t2)):
        try:
            out.append((name, f(tree), None))
        except (Untranslatable, KeyError, IndexError, AttributeError, TypeError) as e:
            out.append((name, None, f"{type(e).__name__}: {e}"))
    return out


def run_ast_tie(chk):
    """translate the current source, prove the generated goals with coqc (one file; on failure each tie separately to name
    the broken ones).  Fail closed: an untranslatable construct or a goal that does not prove is a broken tie; a coqc
    killed from outside / timed out is counted as skipped, never a verdict."""
    import os, shutil, subprocess, warnings
    from harness import common as C
    res = {"proved": [], "skipped": []}
    chk.cov["ast_tie"] = res
    chk.checker_cmds.append("coqc on goals generated from the Python ast of tensorly/solvers/nnls.py and admm.py (arithmetic of the solvers = Model/Nnls.v)")
    try:
        with warnings.catch_warnings():
            warnings.simplefilter("ignore")
            items = ties(open(os.path.join(C.REPO, "tensorly", "solvers", "nnls.py")).read(),
                         open(os.path.join(C.REPO, "tensorly", "solvers", "admm.py")).read())
    except (SyntaxError, OSError) as e:
        chk.broken.append({"what": "ast tie: tensorly/solvers/nnls.py / admm.py cannot be read or parsed", "detail": str(e)})
        return res
    d = os.path.join(C.BUILD, "cases", "C13", f"ast_{os.getpid()}")
    shutil.rmtree(d, ignore_errors=True); os.makedirs(d, exist_ok=True)

    def coqc(name, text):
        fn = os.path.join(d, f"Tie_{name}.v")
        open(fn, "w").write(PRELUDE + text)
        r_ = subprocess.run(["timeout", "600", "coqc", "-q", "-w", "none", "-R", os.path.join(C.COQ, "theories"), "TLV", fn],
                            capture_output=True, text=True, cwd=d)
        return r_.returncode, (r_.stdout + r_.stderr)[-1200:], fn

    good = [(n_, t_) for n_, t_, _ in items if t_ is not None]
    for n_, t_, why in items:
        if t_ is None:
            chk.broken.append({"what": f"ast tie: {n_}: the source can no longer be translated (model and code may have diverged)", "detail": why})
    if good:
        rc, out, _ = coqc("all", "\n".join(t_ for _, t_ in good))
        if rc == 0:
            res["proved"] = [n_ for n_, _ in good]
        elif rc in (124, 137, -9, -15):
            res["skipped"] = [n_ for n_, _ in good]
            chk.hist("skipped", "ast tie (coqc timeout)")
        else:
            for n_, t_ in good:
                rc1, out1, fn1 = coqc(n_, t_)
                if rc1 == 0:
                    res["proved"].append(n_)
                elif rc1 in (124, 137, -9, -15):
                    res["skipped"].append(n_)
                else:
                    chk.broken.append({"what": f"ast tie: {n_}: the arithmetic of the current source differs from Model/Nnls.v (generated goal does not prove)",
                                       "detail": {"goal_file": open(fn1).read()[-1500:], "coqc": out1}})
    if not any(str(b.get("what", "")).startswith("ast tie") for b in chk.broken):
        shutil.rmtree(d, ignore_errors=True)
    return res
