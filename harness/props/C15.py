"""C15 -- library calls never modify caller-owned inputs.

Coq side (Model/Effects.v, Proofs/EffectsProofs*.v): a mini heap with buffer / cell identity, an effect language
for aliasing skeletons and the frame theorem  safe prog = true -> no object of the caller's heap changes.
Correspondence = the mutation footprint: every entry-point configuration of the table below is called on every
argument kind (fresh arrays, transposed views, slices of larger arrays, strided views; tuple / list / wrapper
containers), with a deep snapshot of everything reachable from the arguments taken before and compared after the
call (also when the call raises).  The caller's heap as seen by the snapshot (buffers with identity, views as
offsets, lists / tuples / objects as cells) is handed to Coq together with the observed set of changed objects;
Coq (Corr/C15.v) runs the skeleton of the entry point on that heap and compares footprints, and re-derives the
region reachable from the documented in-place parameters.  Python predicate: changed objects are a subset of
that region (empty when nothing is documented as in place).

Round 2: (a) the table covers the whole public surface (every public function / class of the non-backend modules is named
in at least one configuration; option lists such as ranks, modes, fixed modes, coefficient lists are passed as ARGUMENTS so
that they are snapshotted), orders 2-4, both dtypes already in the quick tier; (b) parafac / non_negative_parafac_hals /
tucker with user initialisations are tied to the ORDER-GENERIC skeleton families of Model/Effects.v (parameters N, fixed
modes, list lengths computed from the call), whose safety is proved for all parameter values; (c) mutator methods
CPTensor.normalize() / TuckerTensor.normalize() are documented in-place receivers; (d) process_regularization_weights
(found in round 2 to assign into the caller's coefficient lists, repaired by fix 58815dd) is tied to skeleton sk_prw;
(e) seeded random option combinations of the anchored decompositions with user initialisations ("fuzz:<seed>").

Round 5: (a) the public surface of the anchored packages is MEASURED on every run (trace hook: which public callables does the
table execute; evidence field public_surface) and the table was completed accordingly (einsum-backend functions, to_unfolding
methods, Parafac2Tensor methods, TensorTrain_OI, get_params / set_params / score); (b) class-based API: fit + a second
fit_transform on the same estimator for every decomposition class, estimators as RECEIVER arguments (skeleton
Model.Effects.sk_estimator_fit: exactly the receiver changes), fitted estimators as protected arguments of predict / transform /
score; (c) exception paths: every configuration once more with an exception injected at a random internal function call
(variant "kind!k"); Corr.C15.agree compares a call that raised with the interruption points `run sk n` of the skeleton;
(d) tucker_mode_dot(copy=False) / index_update skeletons; (e) 48 more functions in the static correspondence; (f) compact case
literals (binary numerals, buffers by length) and the Coq build / Print Assumptions pass in a worker thread.

Round 8: (a) Corr.C15.ycmd_of: the kinds KInitCpN / KParafacN / KHalsN / KTryEntropy / KTryTtCross / KXNnTuckerHalsActiveSet are also evaluated
under the structured-exception semantics of Model/EffectsR8.v (try statements of any nesting, handlers that raise); (b) kinds
KNnTuckerHalsN / KNnTuckerHalsClassFit (nn_tucker_hals_kind): non_negative_tucker_hals with the fista core update, every order;
(c) the three documented in-place exceptions of the property are audited per run (EXCEPTION_CLASSES / RECEIVER_CLASSES)."""
import contextlib, copy, io, random, sys, time, zlib
import numpy as np
from harness import common as C

HEADER = """From Coq Require Import List ZArith Bool. Import ListNotations.
From TLV Require Import Model.Effects Corr.C15."""
HEADER_CASES = HEADER + "\nOpen Scope Z_scope.\n"      # Corr.C15.failing returns the failing identifiers as a list Z

# ============================================================================ snapshot machinery
SCALARS = (int, float, bool, str, complex, type(None), np.generic)
ATTR_ORDER = ["init", "sparsity_coefficients", "fixed_modes", "mask", "weights", "core", "factors", "projections", "shape", "rank"]
# (estimator objects list the user options they hold first: Model.Effects.sk_estimator_fit reads them as attributes 0..nattr-1)
BUF_CAP = 24      # model buffers are truncated to this many elements (contents are synthetic; only identity and offsets matter)


def is_scalar(x):
    return isinstance(x, SCALARS)


def is_wrapper(x):
    return hasattr(x, "__dict__") and type(x).__module__.startswith("tensorly") and not callable(x)


def wrapper_attrs(o):
    d = vars(o)
    return [k for k in ATTR_ORDER if k in d] + sorted(k for k in d if k not in ATTR_ORDER)


def owner_of(a):
    o = a
    while isinstance(o.base, np.ndarray):
        o = o.base
    return o


def arr_meta(a):
    return (a.shape, a.strides, a.dtype.str, a.__array_interface__["data"][0], bool(a.flags.writeable))


def arr_equal(a, b):
    """value equality of two arrays: dtype, shape, entries (NaN equal to NaN)"""
    if not (isinstance(a, np.ndarray) and isinstance(b, np.ndarray)):
        return False
    if a.dtype != b.dtype or a.shape != b.shape:
        return False
    if np.ascontiguousarray(a).tobytes() == np.ascontiguousarray(b).tobytes():
        return True
    try:
        return bool(np.array_equal(a, b, equal_nan=a.dtype.kind in "fc"))
    except Exception:
        return False


def deep_copy_value(x, depth=0):
    """an independent deep copy used to decide whether a REPLACED entry still has the old value"""
    if depth > 8:
        return ("opaque", id(x))
    if isinstance(x, np.ndarray):
        return ("arr", x.copy())
    if isinstance(x, (list, tuple)):
        return (type(x).__name__, [deep_copy_value(i, depth + 1) for i in x])
    if isinstance(x, dict):
        return ("dict", [(repr(k), deep_copy_value(v, depth + 1)) for k, v in sorted(x.items(), key=lambda kv: repr(kv[0]))])
    if is_wrapper(x):
        return ("obj", type(x).__name__, [(k, deep_copy_value(getattr(x, k), depth + 1)) for k in wrapper_attrs(x)])
    if isinstance(x, (float, np.floating)):
        return ("f", type(x).__name__, "nan" if x != x else float(x).hex())
    if is_scalar(x):
        return ("s", type(x).__name__, repr(x))
    return ("opaque", id(x))


def deep_equal(v, w):
    if v[0] != w[0]:
        return False
    if v[0] == "arr":
        return arr_equal(v[1], w[1])
    if v[0] in ("list", "tuple"):
        return len(v[1]) == len(w[1]) and all(deep_equal(a, b) for a, b in zip(v[1], w[1]))
    if v[0] == "dict":
        return len(v[1]) == len(w[1]) and all(a[0] == b[0] and deep_equal(a[1], b[1]) for a, b in zip(v[1], w[1]))
    if v[0] == "obj":
        return v[1] == w[1] and len(v[2]) == len(w[2]) and all(a[0] == b[0] and deep_equal(a[1], b[1]) for a, b in zip(v[2], w[2]))
    return v == w


def view_offsets(x, own):
    """element offsets (into the owner's allocation) of the entries the view x sees, in x's logical order"""
    isz = own.itemsize
    if x.size == 0 or isz == 0:
        return []
    start = x.__array_interface__["data"][0] - own.__array_interface__["data"][0]
    idx = np.full(x.shape, start // isz, dtype=np.int64)
    for ax, (n, st) in enumerate(zip(x.shape, x.strides)):
        shp = [1] * x.ndim
        shp[ax] = n
        idx = idx + (np.arange(n, dtype=np.int64) * (st // isz)).reshape(shp)
    return [int(o) for o in idx.ravel()[:BUF_CAP] if 0 <= o < BUF_CAP]


class Heap:
    """everything reachable from the arguments, numbered; snapshot before, comparison after"""

    def __init__(self, args):
        self.objs = []       # dict(kind, py, path, items(list of refs) | None)
        self.memo = {}
        self.views = []      # (oid, path, ndarray object, meta)
        self.arg_refs = [self.walk(a, f"arg{i}", top=True) for i, a in enumerate(args)]
        self.before = [self.snap(o) for o in self.objs]

    def new(self, key, kind, py, path):
        oid = len(self.objs)
        self.objs.append(dict(kind=kind, py=py, path=path, items=None))
        if key is not None:
            self.memo[key] = oid
        return oid

    def container_items(self, x):
        if isinstance(x, (list, tuple)):
            return [(f"[{i}]", v) for i, v in enumerate(x)]
        if isinstance(x, dict):
            return [(f"[{k!r}]", v) for k, v in sorted(x.items(), key=lambda kv: repr(kv[0]))]
        return [(f".{k}", getattr(x, k)) for k in wrapper_attrs(x)]

    def walk(self, x, path, top=False):
        if x is None:
            return None
        if isinstance(x, np.ndarray):
            if x.dtype.kind == "O":
                return None
            own = owner_of(x)
            key = ("buf", id(own))
            if key not in self.memo:
                self.new(key, "buf", own, path if own is x else path + ".base")
            oid = self.memo[key]
            if not any(v[2] is x for v in self.views):
                self.views.append((oid, path, x, arr_meta(x)))
            return (oid, view_offsets(x, own))
        if is_scalar(x) or (isinstance(x, tuple) and all(is_scalar(i) for i in x)):
            if top:
                return None       # immutable value passed directly: nothing the callee could change
            oid = self.new(None, "val", x, path)
            return (oid, [0])
        if isinstance(x, (list, tuple, dict)) or is_wrapper(x):
            key = ("cell", id(x))
            if key in self.memo:
                return (self.memo[key], [])
            oid = self.new(key, "cell", x, path)
            self.objs[oid]["items"] = [self.walk(v, path + suffix) for suffix, v in self.container_items(x)]
            return (oid, [])
        return None

    def snap(self, o):
        x = o["py"]
        if o["kind"] == "buf":
            return (x.dtype.str, x.shape, x.strides, x.tobytes())
        if o["kind"] == "val":
            return deep_copy_value(x)
        items = self.container_items(x)
        return ([k for k, _ in items], [v for _, v in items], [deep_copy_value(v) for _, v in items])

    def changed(self):
        """-> sorted list of (oid, path, what) of objects that differ from the snapshot"""
        out = []
        for oid, (o, b) in enumerate(zip(self.objs, self.before)):
            x = o["py"]
            if o["kind"] == "buf":
                cur = (x.dtype.str, x.shape, x.strides, x.tobytes())
                if cur != b:
                    what = "bytes" if cur[:3] == b[:3] else "dtype/shape/strides"
                    out.append((oid, o["path"], what))
            elif o["kind"] == "val":
                if not deep_equal(deep_copy_value(x), b):
                    out.append((oid, o["path"], "value"))
            else:
                items = self.container_items(x)
                keys = [k for k, _ in items]
                if keys != b[0]:
                    out.append((oid, o["path"], f"entries {b[0]} -> {keys}"))
                    continue
                for (k, v), old, oldval in zip(items, b[1], b[2]):
                    if v is old:
                        continue
                    if not deep_equal(deep_copy_value(v), oldval):
                        out.append((oid, o["path"], f"entry {k} replaced"))
                        break
        seen = {c[0] for c in out}
        for oid, path, a, meta in self.views:
            if arr_meta(a) != meta and oid not in seen:
                out.append((oid, path, "array object attributes (shape/strides/dtype/data/writeable)"))
                seen.add(oid)
        return sorted(out)

    def region(self, arg_indices):
        """objects reachable from the given arguments"""
        todo = [self.arg_refs[i][0] for i in arg_indices if i < len(self.arg_refs) and self.arg_refs[i] is not None]
        seen = set()
        while todo:
            o = todo.pop()
            if o in seen:
                continue
            seen.add(o)
            for r in self.objs[o]["items"] or []:
                if r is not None:
                    todo.append(r[0])
        return seen

    # ---- Gallina literals
    def ref_lit(self, r):       # compact constructors of Corr/C15.v: binary Z numerals (unary nat numerals dominate the shard cost)
        return "RNull" if r is None else f"(R {r[0]}%Z {C.z_list(r[1])})"

    def heap_lit(self):
        out = []
        for oid, o in enumerate(self.objs):
            if o["kind"] == "buf":
                n = min(int(o["py"].size), BUF_CAP)
                out.append(f"SB {n}%Z")        # synthetic contents (i mod 7) + 3: Corr.C15.synth
            elif o["kind"] == "val":
                out.append(f"OBuf {C.z_list([zlib.crc32(repr(o['py']).encode()) % 1000 + 3])}")
            else:
                its = o["items"]
                out.append("OCell " + ("[" + "; ".join(self.ref_lit(r) for r in its) + "]" if its else "(@nil ref)"))
        return "[" + "; ".join(out) + "]" if out else "(@nil obj)"


# ============================================================================ argument kinds
def _variant_array(a, variant):
    if variant in ("fresh", "readonly") or a.dtype.kind == "O":
        return a.copy()           # "readonly": the writeable flag is cleared by run_config once the in-place region is known
    if variant == "transposed":
        if a.ndim >= 2:
            return np.ascontiguousarray(a.T).T          # F-ordered view of a C-ordered owner
        if a.ndim == 1:
            return np.ascontiguousarray(a[::-1])[::-1]  # negative-stride view
        return a.copy()
    if variant == "column":        # round 7: a column slice big[..., 1] of an array with one more (trailing) axis: every element 3 items apart
        if a.ndim == 0:
            return a.copy()
        big = np.full(tuple(a.shape) + (3,), 7, dtype=a.dtype)
        view = big[..., 1]
        view[...] = a
        return view
    if variant in ("sliced", "strided"):
        if a.ndim == 0:
            return a.copy()
        step = 2 if variant == "strided" else 1
        big = np.full(tuple(step * d + 2 for d in a.shape), 7, dtype=a.dtype)   # sentinel border
        view = big[tuple(slice(1, 1 + step * d, step) for d in a.shape)]
        view[...] = a
        return view
    raise KeyError(variant)


WRITE_LOG = []       # write attempts on protected lists recorded by RecList (kind "readonly")


class RecList(list):
    """a list that records every mutator call (the byte snapshot cannot see a write of identical values)"""
    def _rec(self, what):
        WRITE_LOG.append(what)
    def __setitem__(self, *a): self._rec("__setitem__"); return list.__setitem__(self, *a)
    def __delitem__(self, *a): self._rec("__delitem__"); return list.__delitem__(self, *a)
    def __iadd__(self, o): self._rec("__iadd__"); return list.__iadd__(self, o)
    def __imul__(self, o): self._rec("__imul__"); return list.__imul__(self, o)
    def append(self, *a): self._rec("append"); return list.append(self, *a)
    def extend(self, *a): self._rec("extend"); return list.extend(self, *a)
    def insert(self, *a): self._rec("insert"); return list.insert(self, *a)
    def pop(self, *a): self._rec("pop"); return list.pop(self, *a)
    def remove(self, *a): self._rec("remove"); return list.remove(self, *a)
    def clear(self): self._rec("clear"); return list.clear(self)
    def sort(self, *a, **k): self._rec("sort"); return list.sort(self, *a, **k)
    def reverse(self): self._rec("reverse"); return list.reverse(self)


def transform(x, variant, memo=None):
    """rebuild the argument with every array replaced by its `variant` (aliasing between arguments preserved)"""
    memo = {} if memo is None else memo
    if id(x) in memo:
        return memo[id(x)]
    if isinstance(x, np.ndarray):
        r = _variant_array(x, variant)
    elif isinstance(x, list):
        r = [transform(i, variant, memo) for i in x]
        if variant == "readonly":
            r = RecList(r)
    elif isinstance(x, tuple):
        r = tuple(transform(i, variant, memo) for i in x)
    elif isinstance(x, dict):
        r = {k: transform(v, variant, memo) for k, v in x.items()}
    elif is_wrapper(x):
        r = copy.copy(x)
        for k, v in list(vars(r).items()):
            r.__dict__[k] = transform(v, variant, memo)
    else:
        r = x
    memo[id(x)] = r
    return r


# ============================================================================ the entry-point table
def _einsum(fn):
    def run(*a):
        from tensorly import tenalg
        tenalg.set_backend("einsum")
        try:
            return fn(*a)
        finally:
            tenalg.set_backend("core")
    return run


class _Raise:
    """callback that raises on its k-th call"""
    def __init__(self, k):
        self.k, self.n = k, 0

    def __call__(self, *a, **kw):
        self.n += 1
        if self.n >= self.k:
            raise RuntimeError("callback asked to stop")
        return False


def entry_points(dtype=np.float64, seed=0):
    """name -> builder() -> dict(fn, args, inplace=set of argument positions documented as updated in place,
    skel=(constructor of Corr.C15.skel, [argument position or None per skeleton parameter]) or None)"""
    import tensorly as tl
    from tensorly import tenalg
    from tensorly import random as tlr
    from tensorly.decomposition import (parafac, randomised_parafac, non_negative_parafac, non_negative_parafac_hals,
                                        constrained_parafac, tucker, partial_tucker, non_negative_tucker,
                                        non_negative_tucker_hals, parafac2, tensor_train, tensor_train_matrix, tensor_ring,
                                        tensor_ring_als, tensor_ring_als_sampled, robust_pca, parafac_power_iteration,
                                        symmetric_parafac_power_iteration, sample_khatri_rao, CP, Tucker, CP_NN_HALS)
    from tensorly.decomposition._cmtf_als import coupled_matrix_tensor_3d_factorization
    from tensorly.decomposition._cp import initialize_cp
    from tensorly.decomposition._tucker import initialize_tucker
    from tensorly.contrib.decomposition import tensor_train_cross
    from tensorly.tenalg import proximal as P
    from tensorly.solvers.nnls import hals_nnls, fista, active_set_nnls
    from tensorly.solvers.admm import admm
    from tensorly.regression import CPRegressor, TuckerRegressor
    from tensorly.regression.cp_plsr import CP_PLSR
    from tensorly.cp_tensor import (CPTensor, cp_normalize, cp_flip_sign, cp_permute_factors, cp_to_tensor, cp_to_unfolded,
                                    cp_to_vec, cp_mode_dot, cp_norm, cp_lstsq_grad)
    from tensorly.tucker_tensor import (TuckerTensor, tucker_to_tensor, tucker_to_unfolded, tucker_to_vec, tucker_mode_dot,
                                        tucker_normalize)
    from tensorly.tt_tensor import TTTensor, tt_to_tensor, tt_to_unfolded, tt_to_vec, pad_tt_rank
    from tensorly.tr_tensor import tr_to_tensor, tr_to_unfolded, tr_to_vec
    from tensorly.tt_matrix import tt_matrix_to_tensor, tt_matrix_to_matrix, tt_matrix_to_vec
    from tensorly.parafac2_tensor import (Parafac2Tensor, parafac2_to_slices, parafac2_to_slice, parafac2_to_tensor,
                                          parafac2_to_unfolded, parafac2_to_vec, parafac2_normalise, apply_parafac2_projections)
    from tensorly.metrics import congruence_coefficient, correlation_index, leverage_score_dist
    from tensorly.metrics.regression import MSE, RMSE, R2_score, correlation
    from tensorly.metrics.entropy import vonneumann_entropy, cp_vonneumann_entropy
    from tensorly.preprocessing import svd_compress_tensor_slices, svd_decompress_parafac2_tensor

    R = 2
    sd = 1

    def D():
        """fresh data for one configuration"""
        rs = np.random.RandomState(seed)
        d = type("D", (), {})()
        d.rs = rs
        d.X = rs.rand(4, 3, 5).astype(dtype)
        d.w = np.array([2.0, 0.5], dtype=dtype)
        d.w1 = np.ones(R, dtype=dtype)
        d.fs = [(rs.rand(s, R) + 0.1).astype(dtype) for s in d.X.shape]
        d.fsn = [(rs.rand(s, R) - 0.7).astype(dtype) for s in d.X.shape]        # mostly negative columns
        d.core = (rs.rand(2, 2, 2) + 0.1).astype(dtype)
        d.tf = [(rs.rand(s, 2) + 0.1).astype(dtype) for s in d.X.shape]
        d.slices = [rs.rand(4 + i, 5).astype(dtype) for i in range(3)]
        d.M = rs.rand(6, 4).astype(dtype)
        d.UtU = (d.M.T @ d.M).astype(dtype)
        d.UtM = (d.M.T @ rs.rand(6, 3)).astype(dtype)
        d.y = rs.rand(4).astype(dtype)
        d.Y2 = rs.rand(4, 2).astype(dtype)
        d.mask = (rs.rand(*d.X.shape) > 0.2).astype(dtype)
        d.mat = rs.rand(2, 3).astype(dtype)       # (J, i_1) for mode-1 products
        d.vec = rs.rand(3).astype(dtype)
        return d

    E = {}

    def reg(name, build):
        E[name] = build

    def simple(name, fn, argf, inplace=(), skel=None, ep=None):
        def build():
            d = D()
            return dict(fn=fn, args=tuple(argf(d)), inplace=set(inplace), skel=skel, ep=ep)
        reg(name, build)

    cpt = lambda d, w=None, fs=None: CPTensor(((d.w if w is None else w).copy(), [f.copy() for f in (d.fs if fs is None else fs)]))

    # ---------------------------------------------------------------- CP
    simple("parafac_svd", lambda X: parafac(X, R, n_iter_max=3), lambda d: (d.X,))
    simple("parafac_random", lambda X: parafac(X, R, n_iter_max=3, init="random", random_state=sd), lambda d: (d.X,))
    simple("parafac_norm_ls", lambda X: parafac(X, R, n_iter_max=9, normalize_factors=True, linesearch=True, init="random", random_state=sd), lambda d: (d.X,))
    simple("parafac_orth_l2", lambda X: parafac(X, R, n_iter_max=3, orthogonalise=True, l2_reg=0.1, init="random", random_state=sd), lambda d: (d.X,))
    simple("parafac_mask", lambda X, m: parafac(X, R, n_iter_max=3, mask=m, init="random", random_state=sd), lambda d: (d.X, d.mask))
    simple("parafac_mask_svd", lambda X, m: parafac(X, R, n_iter_max=3, mask=m, init="svd", svd_mask_repeats=2), lambda d: (d.X, d.mask))
    simple("parafac_mask_notol", lambda X, m: parafac(X, R, n_iter_max=3, mask=m, tol=0, init="random", random_state=sd), lambda d: (d.X, d.mask))
    simple("parafac_sparsity", lambda X: parafac(X, R, n_iter_max=3, sparsity=0.1, init="random", random_state=sd), lambda d: (d.X,))
    def _optnat(x):
        return "None" if x is None else f"(Some {int(x)}%nat)"

    def pk_name(args):          # parafac(tensor, init, fixed_modes, mask): order-generic skeleton of Model/Effects.v
        N = args[0].ndim
        fixed = list(args[2]) if args[2] is not None else []
        rm = fixed.index(N - 1) if (N - 1 in fixed and fixed != list(range(N))) else None
        eff = [m for i, m in enumerate(fixed) if i != rm]
        modes = [] if fixed == list(range(N)) else [m for m in range(N) if m not in eff]
        return f"(KParafacN {N}%nat 2%nat {len(fixed)}%nat {_optnat(rm)} {C.nat_list(modes)})"

    def hk_name(args):          # non_negative_parafac_hals(tensor, init, sparsity_coefficients, fixed_modes)
        N = args[0].ndim
        sclen = len(args[2]) if isinstance(args[2], (list, tuple)) else 0
        fixed = list(args[3]) if args[3] is not None else []
        modes = [m for m in range(N) if m not in fixed]
        return f"(KHalsN {N}%nat 2%nat {sclen}%nat {len(fixed)}%nat {C.nat_list(fixed)} {C.nat_list(modes)})"

    def tk_name(args):          # tucker(tensor, init, mask)
        N = args[0].ndim
        return f"(KTuckerN {N}%nat 2%nat {C.nat_list(range(N))})"

    def prw_name(args):         # process_regularization_weights(ridge, sparsity): which entries the code assigns
        r, sp = list(args[0]), list(args[1])
        nr = [i for i, v in enumerate(r) if v is None]
        ns = [i for i, v in enumerate(sp) if v is None]
        r = [0 if v is None else v for v in r]
        sp = [0 if v is None else v for v in sp]
        dg = [i for i in range(len(r)) if any(sp) and abs(sp[i]) + abs(r[i]) == 0]
        mx = sp.index(max(sp)) if sp else 0
        return f"(KPrw {len(r)}%nat {C.nat_list(nr)} {C.nat_list(ns)} {C.nat_list(dg)} {mx}%nat)"

    def nk(normalize, sweeps=2):       # non_negative_tucker(tensor, init): order-generic skeleton of Model/EffectsR7.v
        def nk_name(args):
            N = args[0].ndim
            return f"(KNnTuckerN {N}%nat {sweeps}%nat {C.boolc(normalize)} {C.nat_list(range(N))})"
        return (nk_name, [0, 1])

    def thk(normalize, sweeps=2, cls=False):   # round 8: non_negative_tucker_hals(tensor, init, sparsity_coefficients, fixed_modes), fista core update:
        def thk_name(args):                    # order-generic skeleton of Model/EffectsR8.v (Props C15_nn_tucker_hals_any_order_frame)
            if cls:
                est, X = args[0], args[1]
                args = (X, est.init, est.sparsity_coefficients, est.fixed_modes)
            return nn_tucker_hals_kind(args, sweeps, normalize, cls)
        return (thk_name, [0, 1] if cls else [0, 1, 2, 3])

    def mono_name(dec):                # monotonicity_prox(tensor, decreasing): 1-D or 2-D input, rows x columns
        def name(args):
            a = args[0]
            rows, cols = (a.shape[0], 1) if a.ndim == 1 else a.shape[:2]
            return f"(KMonoProx {C.boolc(dec)} {C.boolc(a.ndim == 1)} {int(rows)}%nat {int(cols)}%nat)"
        return (name, [0])

    def unimodal_name(args):
        a = args[0]
        rows, cols = (a.shape[0], 1) if a.ndim == 1 else a.shape[:2]
        return f"(KUnimodalProx {C.boolc(a.ndim == 1)} {int(rows)}%nat {int(cols)}%nat)"
    PROX_SKEL = {"mono": mono_name(False), "mono_dec": mono_name(True), "unimodal": (unimodal_name, [0]), "unimodal_op": (unimodal_name, [0])}

    PK = (pk_name, [0, 1, 2, 3])
    simple("parafac_init_tuple", lambda X, i, fm, m: parafac(X, R, n_iter_max=2, init=i, fixed_modes=fm, mask=m), lambda d: (d.X, (d.w, d.fs), None, None), skel=PK)
    simple("parafac_init_tuple_unitw", lambda X, i, fm, m: parafac(X, R, n_iter_max=2, init=i, fixed_modes=fm, mask=m), lambda d: (d.X, (d.w1, d.fs), None, None), skel=PK)
    simple("parafac_init_tuple_tuple", lambda X, i, fm, m: parafac(X, R, n_iter_max=2, init=i, fixed_modes=fm, mask=m), lambda d: (d.X, (d.w, tuple(d.fs)), None, None), skel=PK)
    simple("parafac_init_list", lambda X, i, fm, m: parafac(X, R, n_iter_max=2, init=i, fixed_modes=fm, mask=m), lambda d: (d.X, [d.w, d.fs], None, None), skel=PK)
    simple("parafac_init_cptensor", lambda X, i, fm, m: parafac(X, R, n_iter_max=2, init=i, fixed_modes=fm, mask=m), lambda d: (d.X, cpt(d), None, None), skel=PK)
    simple("parafac_init_none_weights", lambda X, i, fm, m: parafac(X, R, n_iter_max=2, init=i, fixed_modes=fm, mask=m), lambda d: (d.X, (None, d.fs), None, None), skel=PK)
    simple("parafac_init_fixed", lambda X, i, fm, m: parafac(X, R, n_iter_max=2, init=i, fixed_modes=fm, mask=m), lambda d: (d.X, (d.w, d.fs), [0, 2], None), skel=PK)
    simple("parafac_init_fixed_tuple", lambda X, i, fm, m: parafac(X, R, n_iter_max=2, init=i, fixed_modes=fm, mask=m), lambda d: (d.X, (d.w, d.fs), (1, 2), None), skel=PK)
    simple("parafac_init_fixed_all", lambda X, i, fm, m: parafac(X, R, n_iter_max=2, init=i, fixed_modes=fm, mask=m), lambda d: (d.X, (d.w, d.fs), [0, 1, 2], None), skel=PK)
    simple("parafac_init_fixed_mask", lambda X, i, fm, m: parafac(X, R, n_iter_max=3, init=i, fixed_modes=fm, mask=m), lambda d: (d.X, cpt(d), [0, 2], d.mask), skel=PK)
    simple("parafac_init_mask_normalize", lambda X, i, m: parafac(X, R, n_iter_max=3, init=i, mask=m, normalize_factors=True), lambda d: (d.X, (d.w, d.fs), d.mask))
    simple("parafac_init_linesearch", lambda X, i: parafac(X, R, n_iter_max=9, init=i, linesearch=True, tol=1e-12), lambda d: (d.X, (d.w, d.fs)))
    simple("parafac_init_callback", lambda X, i: parafac(X, R, n_iter_max=2, init=i, callback=lambda cp, e: False), lambda d: (d.X, (d.w, d.fs)))
    simple("parafac_init_sparsity", lambda X, i: parafac(X, R, n_iter_max=2, init=i, sparsity=3), lambda d: (d.X, (d.w, d.fs)))
    simple("parafac_init_orth", lambda X, i: parafac(X, R, n_iter_max=2, init=i, orthogonalise=True), lambda d: (d.X, (d.w, d.fs)))
    simple("parafac_init_fail_cvg", lambda X, i, fm, m: parafac(X, R, n_iter_max=4, init=i, fixed_modes=fm, mask=m, cvg_criterion="bogus"), lambda d: (d.X, (d.w, d.fs), [0, 2], d.mask), skel=PK)
    simple("parafac_init_fail_callback", lambda X, i: parafac(X, R, n_iter_max=4, init=i, callback=_Raise(2)), lambda d: (d.X, (d.w, d.fs)))
    simple("parafac_init_fail_rank", lambda X, i: parafac(X, 3, n_iter_max=2, init=i), lambda d: (d.X, (d.w, d.fs)))
    simple("CP_class_init", lambda X, i, fm: CP(R, n_iter_max=2, init=i, fixed_modes=fm).fit_transform(X), lambda d: (d.X, (d.w, d.fs), [0, 2]))
    simple("initialize_cp_user", lambda X, i: initialize_cp(X, R, init=i), lambda d: (d.X, (d.w, d.fs)), skel=("KInitCp", [0, 1]))
    simple("initialize_cp_user_cptensor", lambda X, i: initialize_cp(X, R, init=i, normalize_factors=True), lambda d: (d.X, cpt(d)), skel=("KInitCp", [0, 1]))
    simple("initialize_cp_svd_nonneg", lambda X: initialize_cp(X, R, init="svd", non_negative=True), lambda d: (d.X,))
    simple("initialize_cp_svd_mask", lambda X, m: initialize_cp(X, 5, init="svd", mask=m, random_state=sd), lambda d: (d.X, d.mask))
    simple("randomised_parafac", lambda X: randomised_parafac(X, R, n_samples=8, n_iter_max=3, random_state=sd), lambda d: (d.X,))
    simple("randomised_parafac_init", lambda X, i: randomised_parafac(X, R, n_samples=8, n_iter_max=3, init=i, random_state=sd), lambda d: (d.X, (d.w, d.fs)))
    simple("nn_parafac", lambda X: non_negative_parafac(X, R, n_iter_max=3, init="random", random_state=sd), lambda d: (d.X,))
    simple("nn_parafac_svd_mask", lambda X, m: non_negative_parafac(X, R, n_iter_max=3, mask=m), lambda d: (d.X, d.mask))
    simple("nn_parafac_init", lambda X, i: non_negative_parafac(X, R, n_iter_max=2, init=i), lambda d: (d.X, (d.w, d.fs)))
    simple("nn_parafac_init_cptensor_fixed_mask", lambda X, i, fm, m: non_negative_parafac(X, R, n_iter_max=3, init=i, fixed_modes=fm, mask=m, normalize_factors=True), lambda d: (d.X, cpt(d), [0, 2], d.mask))
    simple("nn_parafac_init_fail_cvg", lambda X, i, fm: non_negative_parafac(X, R, n_iter_max=4, init=i, fixed_modes=fm, cvg_criterion="bogus"), lambda d: (d.X, (d.w, d.fs), [1, 2]))
    HK = (hk_name, [0, 1, 2, 3])
    simple("nn_parafac_hals", lambda X: non_negative_parafac_hals(X, R, n_iter_max=3, init="random", random_state=sd), lambda d: (d.X,))
    simple("nn_parafac_hals_init", lambda X, i, sc, fm: non_negative_parafac_hals(X, R, n_iter_max=2, init=i, sparsity_coefficients=sc, fixed_modes=fm), lambda d: (d.X, (d.w, d.fs), None, None), skel=HK)
    simple("nn_parafac_hals_init_unitw", lambda X, i, sc, fm: non_negative_parafac_hals(X, R, n_iter_max=2, init=i, sparsity_coefficients=sc, fixed_modes=fm), lambda d: (d.X, (d.w1, d.fs), None, None), skel=HK)
    simple("nn_parafac_hals_init_cptensor", lambda X, i, sc, fm: non_negative_parafac_hals(X, R, n_iter_max=2, init=i, sparsity_coefficients=sc, fixed_modes=fm), lambda d: (d.X, cpt(d, d.w1), None, None), skel=HK)
    simple("nn_parafac_hals_init_sparsity_fixed", lambda X, i, sc, fm: non_negative_parafac_hals(X, R, n_iter_max=2, init=i, sparsity_coefficients=sc, fixed_modes=fm), lambda d: (d.X, (d.w1, d.fs), [0.1, 0.1, 0.1], [0]), skel=HK)
    simple("nn_parafac_hals_sparsity_fixed", lambda X, sc, fm: non_negative_parafac_hals(X, R, n_iter_max=2, sparsity_coefficients=sc, fixed_modes=fm), lambda d: (d.X, [0.1, 0.1, 0.1], [0]))
    simple("nn_parafac_hals_init_exact_nnmodes", lambda X, i: non_negative_parafac_hals(X, R, n_iter_max=1, init=i, exact=True, nn_modes=[2], normalize_factors=True), lambda d: (d.X, (d.w1, d.fs)))
    simple("nn_parafac_hals_init_fail_cvg", lambda X, i, sc, fm: non_negative_parafac_hals(X, R, n_iter_max=4, init=i, sparsity_coefficients=sc, fixed_modes=fm, cvg_criterion="bogus"), lambda d: (d.X, (d.w1, d.fs), [0.1, 0.1, 0.1], [0]), skel=HK)
    simple("CP_NN_HALS_class_init", lambda X, i, sc, fm: CP_NN_HALS(R, n_iter_max=2, init=i, sparsity_coefficients=sc, fixed_modes=fm).fit_transform(X), lambda d: (d.X, (d.w1, d.fs), [0.1, 0.1, 0.1], [0]))
    for cname, kw in [("nonneg", dict(non_negative=True)), ("l1", dict(l1_reg=0.1)), ("l2", dict(l2_reg=0.1)), ("l2sq", dict(l2_square_reg=0.1)),
                      ("unimodal", dict(unimodality=True)), ("normalize", dict(normalize=True)), ("simplex", dict(simplex=1.0)),
                      ("normsparse", dict(normalized_sparsity=2)), ("softsparse", dict(soft_sparsity=1.0)), ("smooth", dict(smoothness=0.1)),
                      ("monotone", dict(monotonicity=True)), ("hardsparse", dict(hard_sparsity=3))]:
        simple("constrained_" + cname, lambda X, kw=kw: constrained_parafac(X, R, n_iter_max=3, init="random", random_state=sd, **kw), lambda d: (d.X,))
    simple("constrained_init", lambda X, i: constrained_parafac(X, R, n_iter_max=2, init=i, non_negative=True), lambda d: (d.X, (d.w, d.fs)))
    simple("constrained_init_cptensor_fixed", lambda X, i, fm: constrained_parafac(X, R, n_iter_max=2, init=i, fixed_modes=fm, l1_reg=0.1), lambda d: (d.X, cpt(d), [0, 2]))
    simple("constrained_dict_options", lambda X, nn, l1: constrained_parafac(X, R, n_iter_max=2, init="random", random_state=sd, non_negative=nn, l1_reg=l1), lambda d: (d.X, {0: True}, {1: 0.1}))
    simple("constrained_list_options", lambda X, l1: constrained_parafac(X, R, n_iter_max=2, init="random", random_state=sd, l1_reg=l1), lambda d: (d.X, [0.1, 0.2, 0.3]))
    simple("constrained_fail_two", lambda X, i: constrained_parafac(X, R, n_iter_max=2, init=i, non_negative=True, l1_reg=0.1), lambda d: (d.X, (d.w, d.fs)))
    simple("power_iteration", lambda X: parafac_power_iteration(X, R, n_repeat=2, n_iteration=2), lambda d: (d.X,))
    simple("symmetric_power_iteration", lambda X: symmetric_parafac_power_iteration(X, R, n_repeat=2, n_iteration=2), lambda d: (d.rs.rand(3, 3, 3).astype(dtype),))
    simple("cmtf", lambda X, Mx: coupled_matrix_tensor_3d_factorization(X, Mx, R, n_iter_max=3), lambda d: (d.X, d.rs.rand(4, 3).astype(dtype)))
    # ---------------------------------------------------------------- Tucker
    TK = (tk_name, [0, 1, 2])
    simple("tucker", lambda X: tucker(X, [2, 2, 2], n_iter_max=3), lambda d: (d.X,))
    simple("tucker_random", lambda X: tucker(X, [2, 2, 2], n_iter_max=3, init="random", random_state=sd), lambda d: (d.X,))
    simple("tucker_mask", lambda X, m: tucker(X, [2, 2, 2], n_iter_max=3, mask=m), lambda d: (d.X, d.mask))
    simple("tucker_init", lambda X, i, m: tucker(X, [2, 2, 2], n_iter_max=2, init=i, mask=m), lambda d: (d.X, (d.core, d.tf), None), skel=TK)
    simple("tucker_init_list_tuple", lambda X, i, m: tucker(X, [2, 2, 2], n_iter_max=2, init=i, mask=m), lambda d: (d.X, [d.core, tuple(d.tf)], None), skel=TK)
    simple("tucker_init_mask", lambda X, i, m: tucker(X, [2, 2, 2], n_iter_max=3, init=i, mask=m, tol=0), lambda d: (d.X, (d.core, d.tf), d.mask), skel=TK)
    simple("tucker_init_obj_mask", lambda X, i, m: tucker(X, [2, 2, 2], n_iter_max=3, init=i, mask=m, tol=0), lambda d: (d.X, TuckerTensor((d.core, d.tf)), d.mask), skel=TK)
    simple("tucker_init_fixed", lambda X, i, ff: tucker(X, [2, 2, 2], n_iter_max=2, init=i, fixed_factors=ff), lambda d: (d.X, (d.core, d.tf), [1]))
    simple("tucker_init_fail_mask", lambda X, i, m: tucker(X, [2, 2, 2], n_iter_max=2, init=i, mask=m), lambda d: (d.X, (d.core, d.tf), d.mask[:3]), skel=TK)
    simple("partial_tucker_init", lambda X, i, mo: partial_tucker(X, [2, 2], modes=mo, n_iter_max=2, init=i), lambda d: (d.X, (d.rs.rand(2, 3, 2).astype(dtype), [d.tf[0], d.tf[2]]), [0, 2]))
    simple("Tucker_class_init", lambda X, i: Tucker([2, 2, 2], n_iter_max=2, init=i).fit_transform(X), lambda d: (d.X, (d.core, d.tf)))
    simple("initialize_tucker_user", lambda X, i: initialize_tucker(X, [2, 2, 2], [0, 1, 2], None, init=i), lambda d: (d.X, (d.core, d.tf)), skel=("KInitTucker", [0, 1]))
    simple("initialize_tucker_user_nonneg", lambda X, i: initialize_tucker(X, [2, 2, 2], [0, 1, 2], None, init=i, non_negative=True), lambda d: (d.X, (-d.core, [-f for f in d.tf])), skel=("(KInitTuckerNnN 3%nat)", [0, 1]))
    simple("nn_tucker", lambda X: non_negative_tucker(X, [2, 2, 2], n_iter_max=3, init="random", random_state=sd), lambda d: (d.X,))
    simple("nn_tucker_init", lambda X, i: non_negative_tucker(X, [2, 2, 2], n_iter_max=2, init=i, normalize_factors=True), lambda d: (d.X, (d.core, d.tf)), skel=nk(True))
    # round 7: the in-place multiplicative updates of non_negative_tucker work on what initialize_tucker(non_negative=True) returns:
    # inits WITHOUT negative entries (tl.abs must still copy), mixed ones (only some arrays have a negative entry), one sweep, every container kind
    simple("nn_tucker_init_list_1sweep", lambda X, i: non_negative_tucker(X, [2, 2, 2], n_iter_max=1, init=i, tol=0), lambda d: (d.X, [d.core, tuple(d.tf)]), skel=nk(False, 1))
    simple("nn_tucker_init_mixed_sign", lambda X, i: non_negative_tucker(X, [2, 2, 2], n_iter_max=2, init=i, tol=0), lambda d: (d.X, (d.core, [d.tf[0], -d.tf[1], d.tf[2]])), skel=nk(False))
    simple("nn_tucker_init_mixed_sign_core", lambda X, i: non_negative_tucker(X, [2, 2, 2], n_iter_max=2, init=i, tol=0), lambda d: (d.X, TuckerTensor((-d.core, d.tf))), skel=nk(False))
    simple("nn_tucker_init_zero_entries", lambda X, i: non_negative_tucker(X, [2, 2, 2], n_iter_max=2, init=i, tol=0, normalize_factors=True), lambda d: (d.X, (d.core * (d.core > 0.5), [f * (f > 0.3) + 0.01 * (f <= 0.3) for f in d.tf])), skel=nk(True))
    simple("nn_tucker_hals", lambda X: non_negative_tucker_hals(X, [2, 2, 2], n_iter_max=3, init="random", random_state=sd), lambda d: (d.X,))
    simple("nn_tucker_hals_as", lambda X: non_negative_tucker_hals(X, [2, 2, 2], n_iter_max=2, init="random", random_state=sd, algorithm="active_set"), lambda d: (d.X,))
    simple("nn_tucker_hals_init", lambda X, i, sc, fm: non_negative_tucker_hals(X, [2, 2, 2], n_iter_max=2, init=i, sparsity_coefficients=sc, fixed_modes=fm), lambda d: (d.X, (d.core, d.tf), [0.1, 0.1, 0.1], [0]), skel=thk(False))
    # round 8: the order-generic skeleton on more shapes of the options: the last mode asked to be fixed (removed from the COPY of the list), tuple
    # containers, normalisation, a by-reference-prone init without negative entries (hals_nnls must get a copy of the transposed factor)
    simple("nn_tucker_hals_init_fixed_last", lambda X, i, sc, fm: non_negative_tucker_hals(X, [2, 2, 2], n_iter_max=2, init=i, sparsity_coefficients=sc, fixed_modes=fm, tol=0),
           lambda d: (d.X, (d.core, d.tf), (0.1, None, 0.1), [1, 2]), skel=thk(False))
    simple("nn_tucker_hals_init_norm_1sweep", lambda X, i, sc, fm: non_negative_tucker_hals(X, [2, 2, 2], n_iter_max=1, init=i, sparsity_coefficients=sc, fixed_modes=fm, normalize_factors=True, tol=0),
           lambda d: (d.X, [d.core, tuple(d.tf)], None, None), skel=thk(True, 1))
    simple("nn_tucker_hals_init_mixed_sign", lambda X, i, sc, fm: non_negative_tucker_hals(X, [2, 2, 2], n_iter_max=2, init=i, sparsity_coefficients=sc, fixed_modes=fm, tol=0),
           lambda d: (d.X, TuckerTensor((d.core, [d.tf[0], -d.tf[1], d.tf[2]])), [None, 0.2, None], (0,)), skel=thk(False))
    # round 7: the callee active_set_nnls catches the failure of its solve (a try statement inside a callee: Model.EffectsR7.xcmd)
    simple("nn_tucker_hals_init_as_plain", lambda X, i, sc, fm: non_negative_tucker_hals(X, [2, 2, 2], n_iter_max=2, init=i, sparsity_coefficients=sc, fixed_modes=fm, algorithm="active_set", tol=0),
           lambda d: (d.X, (d.core, d.tf), [0.1, 0.1, 0.1], [0]), skel=("KXNnTuckerHalsActiveSet", [0, 1, 2, 3]))
    simple("nn_tucker_hals_init_as_singular", lambda X, i, sc, fm: non_negative_tucker_hals(X, [2, 2, 2], n_iter_max=2, init=i, sparsity_coefficients=sc, fixed_modes=fm, algorithm="active_set", tol=0),
           lambda d: (np.ones((4, 3, 5), dtype=dtype), (np.ones((2, 2, 2), dtype=dtype), [np.ones((s_, 2), dtype=dtype) for s_ in (4, 3, 5)]), [0.1, 0.1, 0.1], [0]), skel=("KXNnTuckerHalsActiveSet", [0, 1, 2, 3]))
    simple("nn_tucker_hals_init_as", lambda X, i: non_negative_tucker_hals(X, [2, 2, 2], n_iter_max=2, init=i, algorithm="active_set", normalize_factors=True), lambda d: (d.X, (d.core, d.tf)))
    # ---------------------------------------------------------------- other decompositions
    simple("parafac2", lambda sl: parafac2(sl, R, n_iter_max=3, random_state=sd), lambda d: (d.slices,))
    simple("parafac2_tuple_slices", lambda sl: parafac2(sl, R, n_iter_max=3, random_state=sd, normalize_factors=True), lambda d: (tuple(d.slices),))
    simple("parafac2_nn", lambda sl, nn: parafac2(sl, R, n_iter_max=3, random_state=sd, nn_modes=nn), lambda d: (d.slices, [0, 2]))
    simple("parafac2_svd", lambda sl: parafac2(sl, R, n_iter_max=3, init="svd"), lambda d: (d.slices,))
    simple("parafac2_tensor_input", lambda X: parafac2(X, R, n_iter_max=3, random_state=sd), lambda d: (d.X,))

    def p2t(d, w=None):
        rs = d.rs
        A = (rs.rand(3, R) + 0.1).astype(dtype); B = rs.rand(R, R).astype(dtype); Cm = rs.rand(5, R).astype(dtype)
        projs = [np.linalg.qr(rs.rand(4 + i, R))[0].astype(dtype) for i in range(3)]
        return ((d.w if w is None else w), [A, B, Cm], projs)
    simple("parafac2_init", lambda sl, i: parafac2(sl, R, n_iter_max=3, init=i), lambda d: (d.slices, p2t(d, d.w1)))
    simple("parafac2_init_obj_nn", lambda sl, i: parafac2(sl, R, n_iter_max=3, init=i, nn_modes=[0]), lambda d: (d.slices, Parafac2Tensor(p2t(d, d.w1))))
    simple("parafac2_fail_columns", lambda sl: parafac2(sl, R, n_iter_max=3, random_state=sd), lambda d: ([d.slices[0], d.slices[1][:, :4], d.slices[2]],))
    simple("tensor_train", lambda X: tensor_train(X, [1, 2, 2, 1]), lambda d: (d.X,))
    simple("tensor_train_matrix", lambda X: tensor_train_matrix(X, [1, 2, 1]), lambda d: (d.rs.rand(2, 3, 2, 3).astype(dtype),))
    simple("tensor_ring", lambda X: tensor_ring(X, [2, 2, 2, 2]), lambda d: (d.X,))
    simple("tensor_ring_als", lambda X: tensor_ring_als(X, [2, 2, 2, 2], n_iter_max=3, random_state=sd), lambda d: (d.X,))
    simple("tensor_ring_als_sampled", lambda X: tensor_ring_als_sampled(X, [2, 2, 2, 2], n_samples=10, n_iter_max=3, random_state=sd), lambda d: (d.X,))
    simple("tt_cross", lambda X: tensor_train_cross(X, [1, 2, 2, 1], random_state=sd), lambda d: (d.X,))
    simple("robust_pca", lambda X: robust_pca(X, n_iter_max=3, verbose=0), lambda d: (d.X,))
    simple("robust_pca_mask", lambda X, m: robust_pca(X, mask=m, n_iter_max=3, verbose=0), lambda d: (d.X, d.mask))
    simple("robust_pca_fail_mask", lambda X, m: robust_pca(X, mask=m, n_iter_max=3, verbose=0), lambda d: (d.X, d.mask[:3]))
    # ---------------------------------------------------------------- proximal operators
    for pname, call in [("nonneg", lambda v: P.proximal_operator(v, non_negative=True)), ("soft", lambda v: P.soft_thresholding(v, 0.1)),
                        ("l1", lambda v: P.proximal_operator(v, l1_reg=0.1)),
                        ("l2", lambda v: P.l2_prox(v, 0.1)), ("l2sq", lambda v: P.l2_square_prox(v, 0.1)), ("smooth", lambda v: P.smoothness_prox(v, 0.1)),
                        ("simplex", lambda v: P.simplex_prox(v, 1.0)), ("softsparse", lambda v: P.soft_sparsity_prox(v, 1.0)),
                        ("mono", lambda v: P.monotonicity_prox(v)), ("mono_dec", lambda v: P.monotonicity_prox(v, decreasing=True)),
                        ("unimodal", lambda v: P.unimodality_prox(v)), ("hard", lambda v: P.hard_thresholding(v, 3)),
                        ("normsparse", lambda v: P.normalized_sparsity_prox(v, 3)), ("normalize", lambda v: P.proximal_operator(v, normalize=True)),
                        ("unimodal_op", lambda v: P.proximal_operator(v, unimodality=True)), ("hard_op", lambda v: P.proximal_operator(v, hard_sparsity=3)),
                        ("svt", lambda v: P.svd_thresholding(v, 0.1)), ("procrustes", lambda v: P.procrustes(v))]:
        simple("prox_" + pname, call, lambda d: (d.rs.rand(4, 3).astype(dtype) - 0.3,), skel=PROX_SKEL.get(pname))
        # round 7: 1-D inputs (the operators reshape a vector to one column: a VIEW of the caller's vector) and single-column
        # matrices; neither is monotone / unimodal / feasible, so every operator has to move entries
        simple("prox_" + pname + "_vec", call, lambda d: (np.array([0.9, -0.4, 0.7, -0.2, 0.5, 0.1], dtype=dtype) + (d.rs.rand(6) * 0.05).astype(dtype),), skel=PROX_SKEL.get(pname))
        simple("prox_" + pname + "_col", call, lambda d: ((np.array([0.9, -0.4, 0.7, -0.2, 0.5, 0.1], dtype=dtype) + (d.rs.rand(6) * 0.05).astype(dtype)).reshape(6, 1),), skel=PROX_SKEL.get(pname))
    # ---------------------------------------------------------------- NNLS solvers / ADMM
    Vw = lambda d: (d.rs.rand(4, 3) * 5 + 1).astype(dtype)          # far from the solution: the start matrix must move
    HN = ("KHalsNnls", [0, 1, 2])
    simple("hals_nnls_cold", lambda a, b: hals_nnls(a, b), lambda d: (d.UtM, d.UtU))
    simple("hals_nnls_sparse", lambda a, b: hals_nnls(a, b, sparsity_coefficient=0.1, ridge_coefficient=0.1), lambda d: (d.UtM, d.UtU))
    simple("hals_nnls_warm", lambda a, b, V: hals_nnls(a, b, V, n_iter_max=5), lambda d: (d.UtM, d.UtU, Vw(d)), inplace=[2], skel=HN)
    simple("hals_nnls_warm_exact", lambda a, b, V: hals_nnls(a, b, V, n_iter_max=5, exact=False, nonzero_rows=True, epsilon=1e-3, sparsity_coefficient=0.05), lambda d: (d.UtM, d.UtU, Vw(d)), inplace=[2], skel=HN)
    simple("hals_nnls_warm_callback_fail", lambda a, b, V: hals_nnls(a, b, V, n_iter_max=5, callback=_Raise(2)), lambda d: (d.UtM, d.UtU, Vw(d)), inplace=[2], skel=HN)
    simple("hals_nnls_warm_aliased_UtM", lambda a, b, V: hals_nnls(a, b, V, n_iter_max=2), lambda d: (lambda u: (u, d.UtU, u))(d.UtM + 1), inplace=[2], skel=HN)
    simple("fista", lambda a, b: fista(a, b), lambda d: (d.UtM, d.UtU))
    simple("fista_warm", lambda a, b, x: fista(a, b, x, n_iter_max=5, sparsity_coef=0.1, ridge_coef=0.1), lambda d: (d.UtM, d.UtU, Vw(d)))
    simple("fista_warm_lr_unconstrained", lambda a, b, x: fista(a, b, x, n_iter_max=5, non_negative=False, lr=0.01), lambda d: (d.UtM, d.UtU, Vw(d)))
    simple("fista_list_UtU", lambda a, b, x: fista(a, b, x, n_iter_max=3, lr=0.01), lambda d: (d.rs.rand(4, 3).astype(dtype), [np.eye(4, dtype=dtype), np.eye(3, dtype=dtype)], d.rs.rand(4, 3).astype(dtype)))
    AK = ("KActiveSet", [0, 1, 2])
    # warm start with positive entries whose first passive-set solve has a non-positive entry: the step-length branch runs
    asU = lambda d: (np.eye(4) + 0.1 * d.UtU / np.abs(d.UtU).max()).astype(dtype)
    asb = lambda d: np.array([1.0, -1.0, 0.5, -0.25], dtype=dtype)
    asx = lambda d: np.array([0.5, 0.5, 0.5, 0.25], dtype=dtype)
    simple("active_set_cold", lambda a, b, x: active_set_nnls(a, b, x), lambda d: (d.UtM[:, 0], d.UtU, None), skel=AK)
    simple("active_set_warm", lambda a, b, x: active_set_nnls(a, b, x), lambda d: (asb(d), asU(d), asx(d)), skel=AK)
    simple("active_set_warm_column", lambda a, b, x: active_set_nnls(a, b, x), lambda d: (asb(d), asU(d), asx(d).reshape(4, 1)), skel=AK)
    simple("active_set_warm_zero", lambda a, b, x: active_set_nnls(a, b, x), lambda d: (asb(d), asU(d), np.zeros(4, dtype=dtype)), skel=AK)
    simple("active_set_warm_partial", lambda a, b, x: active_set_nnls(a, b, x, n_iter_max=3), lambda d: (asb(d), asU(d), np.array([0.0, 2.0, 0.0, 1.0], dtype=dtype)), skel=AK)
    simple("active_set_warm_singular", lambda a, b, x: active_set_nnls(a, b, x, n_iter_max=3), lambda d: (asb(d), np.ones((4, 4), dtype=dtype), asx(d)), skel=AK)
    simple("admm_nonneg", lambda a, b, x, dv: admm(a.T, b, x, dv, n_const=1, order=0, non_negative=True), lambda d: (d.UtM, d.UtU, d.rs.rand(3, 4).astype(dtype), np.zeros((3, 4), dtype=dtype)))
    simple("admm_l1", lambda a, b, x, dv: admm(a.T, b, x, dv, n_const=1, order=0, l1_reg=0.1), lambda d: (d.UtM, d.UtU, d.rs.rand(3, 4).astype(dtype), d.rs.rand(3, 4).astype(dtype)))
    simple("admm_unconstrained", lambda a, b, x, dv: admm(a.T, b, x, dv), lambda d: (d.UtM, d.UtU, d.rs.rand(3, 4).astype(dtype), np.zeros((3, 4), dtype=dtype)))
    # ---------------------------------------------------------------- regression
    simple("cp_regressor", lambda X, y: CPRegressor(2, random_state=sd, verbose=0, n_iter_max=3).fit(X, y).predict(X), lambda d: (d.X, d.y))
    simple("tucker_regressor", lambda X, y: TuckerRegressor([2, 2], random_state=sd, verbose=0, n_iter_max=3).fit(X, y).predict(X), lambda d: (d.X, d.y))
    PL = ("KPlsrFit", [0, 1])
    simple("cp_plsr_fit", lambda X, Y: CP_PLSR(2, random_state=sd).fit(X, Y), lambda d: (d.X, d.Y2), skel=PL)
    simple("cp_plsr_fit_vector_y", lambda X, Y: CP_PLSR(2, random_state=sd).fit(X, Y), lambda d: (d.X, d.y), skel=PL)
    simple("cp_plsr_fit_matrix_X", lambda X, Y: CP_PLSR(2, random_state=sd).fit(X, Y), lambda d: (d.M[:4], d.Y2), skel=PL)
    simple("cp_plsr_fit_predict_transform", lambda X, Y: (lambda m: (m.predict(X), m.transform(X, Y), m.fit_transform(X, Y)))(CP_PLSR(2, random_state=sd).fit(X, Y)), lambda d: (d.X, d.Y2))
    simple("cp_plsr_fail_rows", lambda X, Y: CP_PLSR(2, random_state=sd).fit(X, Y), lambda d: (d.X, d.Y2[:3]), skel=PL)
    # ---------------------------------------------------------------- SVD interface
    simple("svd_truncated", lambda M: tl.svd_interface(M, n_eigenvecs=2), lambda d: (d.M,))
    simple("svd_symeig", lambda M: tl.svd_interface(M, n_eigenvecs=2, method="symeig_svd"), lambda d: (d.M,))
    simple("svd_randomized", lambda M: tl.svd_interface(M, n_eigenvecs=2, method="randomized_svd", random_state=sd), lambda d: (d.M,))
    simple("svd_nonneg_mask", lambda M, m: tl.svd_interface(M, n_eigenvecs=2, non_negative=True, mask=m), lambda d: (d.M, (d.rs.rand(6, 4) > 0.2).astype(dtype)))
    simple("svd_flip", lambda M: tl.svd_interface(M, n_eigenvecs=3, flip_sign=True, u_based_flip_sign=False), lambda d: (-d.M,))
    # ---------------------------------------------------------------- factorised tensors
    simple("cp_normalize", lambda cp: cp_normalize(cp), lambda d: ((d.w, d.fs),))
    simple("cp_normalize_obj", lambda cp: cp_normalize(cp), lambda d: (cpt(d),))
    FK = ("KFlipSign", [0])
    simple("cp_flip_sign", lambda cp: cp_flip_sign(cp), lambda d: ((-d.w, d.fsn),), skel=FK)
    simple("cp_flip_sign_list", lambda cp: cp_flip_sign(cp), lambda d: ([-d.w, d.fsn],), skel=FK)
    simple("cp_flip_sign_obj", lambda cp: cp_flip_sign(cp), lambda d: (cpt(d, -d.w, d.fsn),), skel=FK)
    simple("cp_flip_sign_mode1_max", lambda cp: cp_flip_sign(cp, mode=1, func=tl.max), lambda d: (cpt(d, -d.w, d.fsn),))
    PMK = ("KPermute", [0, 1])
    perm = lambda d: cpt(d, d.w[::-1] * 3, [f[:, ::-1] * 2 for f in d.fs])
    simple("cp_permute_list", lambda ref, lst: cp_permute_factors(ref, lst), lambda d: (cpt(d), [perm(d)]), skel=PMK)
    simple("cp_permute_list2", lambda ref, lst: cp_permute_factors(ref, lst), lambda d: (cpt(d), [perm(d), cpt(d, d.w * 2)]))
    simple("cp_permute_single", lambda ref, t: cp_permute_factors(ref, t), lambda d: (cpt(d), perm(d)))
    simple("cp_to_tensor", lambda cp: cp_to_tensor(cp), lambda d: ((d.w, d.fs),))
    simple("cp_to_tensor_mask", lambda cp, m: cp_to_tensor(cp, mask=m), lambda d: ((d.w, d.fs), d.mask))
    simple("cp_to_tensor_obj_einsum", _einsum(lambda cp: cp_to_tensor(cp)), lambda d: (cpt(d),))
    simple("cp_to_unfolded_vec", lambda cp: (cp_to_unfolded(cp, 1), cp_to_vec(cp), cp_norm(cp)), lambda d: ((d.w, d.fs),))
    simple("cp_lstsq_grad_mask", lambda cp, X, m: cp_lstsq_grad(cp, X, return_loss=True, mask=m), lambda d: (cpt(d), d.X, d.mask))
    simple("cp_copy_method", lambda cp: cp.cp_copy(), lambda d: (cpt(d),))
    simple("cp_methods", lambda cp: (cp.to_tensor(), cp.to_vec(), cp.to_unfolded(0), cp.norm(), cp.cp_copy(), cp.mode_dot(np.ones((2, 3), dtype=dtype), 1, copy=True), cp.mode_dot(np.ones(3, dtype=dtype), 1)), lambda d: (cpt(d),))
    # CPTensor.normalize() / TuckerTensor.normalize() are mutator methods: their docstrings say "the tensor modifies itself" /
    # "Transforms the tucker_tensor ...", i.e. the receiver is a parameter documented as updated in place
    simple("cp_normalize_method", lambda cp: cp.normalize(), lambda d: (cpt(d),), inplace=[0], skel=("KCpNormalizeMethod", [0]))
    # CPTensor.normalize(inplace=...): the option was ignored until fix 9ada0b3 (found by this check in round 5).  inplace=False returns a
    # normalised copy - the receiver is PROTECTED (skeleton sk_cp_normalize_method_copy, Props C15_cp_normalize_method_inplace_false_frame);
    # inplace=True (and the default) is the documented mutator above
    simple("cp_normalize_method_inplace_false", lambda cp: cp.normalize(inplace=False), lambda d: (cpt(d),), skel=("KCpNormalizeMethodCopy", [0]))
    simple("cp_normalize_method_inplace_false_then_true", lambda cp: (cp.normalize(inplace=False), cp.normalize(inplace=True), cp.normalize(inplace=False)), lambda d: (cpt(d),), inplace=[0])
    simple("cp_normalize_method_inplace_true_explicit", lambda cp: cp.normalize(inplace=True), lambda d: (cpt(d),), inplace=[0], skel=("KCpNormalizeMethod", [0]))
    simple("cp_mode_dot_copy_matrix", lambda cp, Mx: cp_mode_dot(cp, Mx, 1, copy=True), lambda d: (cpt(d), d.mat))
    simple("cp_mode_dot_copy_matrix_tuple", lambda cp, Mx: cp_mode_dot(cp, Mx, 1, copy=True), lambda d: ((d.w, d.fs), d.mat))
    simple("cp_mode_dot_copy_vector", lambda cp, v: cp_mode_dot(cp, v, 1, copy=True), lambda d: (cpt(d), d.vec), skel=("KModeDotCopy", [0, 1]))
    simple("cp_mode_dot_copy_vector_tuple", lambda cp, v: cp_mode_dot(cp, v, 1, copy=True), lambda d: ((d.w, d.fs), d.vec), skel=("KModeDotCopy", [0, 1]))
    simple("cp_mode_dot_copy_vector_mode0", lambda cp, v: cp_mode_dot(cp, v, 0, copy=True), lambda d: (cpt(d), d.rs.rand(4).astype(dtype)))
    simple("cp_mode_dot_copy_vector_keepdim", lambda cp, v: cp_mode_dot(cp, v, 1, keep_dim=True, copy=True), lambda d: (cpt(d), d.vec))
    simple("cp_mode_dot_inplace_vector", lambda cp, v: cp_mode_dot(cp, v, 1, copy=False), lambda d: (cpt(d), d.vec), inplace=[0], skel=("KModeDotVecInplace", [0, 1]))
    simple("cp_mode_dot_inplace_vector_tuple", lambda cp, v: cp_mode_dot(cp, v, 1, copy=False), lambda d: ((d.w, d.fs), d.vec), inplace=[0], skel=("KModeDotVecInplace", [0, 1]))
    simple("cp_mode_dot_inplace_matrix", lambda cp, Mx: cp_mode_dot(cp, Mx, 1, copy=False), lambda d: (cpt(d), d.mat), inplace=[0], skel=("KModeDotMatInplace", [0, 1]))
    simple("cp_mode_dot_fail_shape", lambda cp, Mx: cp_mode_dot(cp, Mx, 0, copy=False), lambda d: (cpt(d), d.mat), inplace=[0])
    tkt = lambda d: TuckerTensor((d.core.copy(), [f.copy() for f in d.tf]))
    simple("tucker_to_tensor_etc", lambda t: (tucker_to_tensor(t), tucker_to_unfolded(t, 1), tucker_to_vec(t), tucker_to_tensor(t, skip_factor=1, transpose_factors=False)), lambda d: ((d.core, d.tf),))
    simple("tucker_normalize", lambda t: tucker_normalize(t), lambda d: ((d.core, d.tf),))
    simple("tucker_normalize_obj", lambda t: tucker_normalize(t), lambda d: (tkt(d),))
    simple("tucker_mode_dot_copy_matrix", lambda t, Mx: tucker_mode_dot(t, Mx, 1, copy=True), lambda d: (tkt(d), d.mat))
    simple("tucker_mode_dot_copy_matrix_tuple", lambda t, Mx: tucker_mode_dot(t, Mx, 1, copy=True), lambda d: ((d.core, d.tf), d.mat))
    simple("tucker_mode_dot_copy_vector", lambda t, v: tucker_mode_dot(t, v, 1, copy=True), lambda d: (tkt(d), d.vec))
    simple("tucker_mode_dot_copy_vector_keepdim", lambda t, v: tucker_mode_dot(t, v, 1, keep_dim=True, copy=True), lambda d: ((d.core, d.tf), d.vec))
    simple("tucker_mode_dot_inplace_matrix", lambda t, Mx: tucker_mode_dot(t, Mx, 1, copy=False), lambda d: (tkt(d), d.mat), inplace=[0])
    simple("tucker_mode_dot_inplace_vector", lambda t, v: tucker_mode_dot(t, v, 1, copy=False), lambda d: ((d.core, d.tf), d.vec), inplace=[0])
    simple("tucker_methods", lambda t: (t.to_tensor(), t.to_vec(), t.to_unfolded(0), t.tucker_copy(), t.mode_dot(np.ones((2, 3), dtype=dtype), 1, copy=True)), lambda d: (tkt(d),))
    simple("tucker_normalize_method", lambda t: t.normalize(), lambda d: (tkt(d),), inplace=[0], skel=("KTuckerNormalizeMethod", [0]))
    ttf = lambda d: [d.rs.rand(1, 3, 2).astype(dtype), d.rs.rand(2, 4, 2).astype(dtype), d.rs.rand(2, 2, 1).astype(dtype)]
    simple("tt_to_tensor_etc", lambda f: (tt_to_tensor(f), tt_to_unfolded(f, 1), tt_to_vec(f), pad_tt_rank(f, n_padding=1)), lambda d: (ttf(d),))
    simple("tt_obj", lambda f: (f.to_tensor(), f.to_vec(), f.to_unfolded(0)), lambda d: (TTTensor(ttf(d)),))
    trf = lambda d: [d.rs.rand(2, 3, 2).astype(dtype), d.rs.rand(2, 4, 2).astype(dtype), d.rs.rand(2, 2, 2).astype(dtype)]
    simple("tr_to_tensor_etc", lambda f: (tr_to_tensor(f), tr_to_unfolded(f, 1), tr_to_vec(f)), lambda d: (trf(d),))
    ttm = lambda d: [d.rs.rand(1, 2, 2, 2).astype(dtype), d.rs.rand(2, 3, 3, 1).astype(dtype)]
    ttm_of = lambda f: [np.ones((1, 2, 2, 2), dtype=dtype), np.ones((2, 3, 3, 1), dtype=dtype)]
    simple("tt_matrix_to_tensor_etc", lambda f: (tt_matrix_to_tensor(f), tt_matrix_to_matrix(f), tt_matrix_to_vec(f)), lambda d: (ttm(d),))
    P2 = ("KP2Slices", [0])
    simple("parafac2_to_slices_weights", lambda p: parafac2_to_slices(p), lambda d: (p2t(d),), skel=P2)
    simple("parafac2_to_slices_weights_obj", lambda p: parafac2_to_slices(p), lambda d: (Parafac2Tensor(p2t(d)),), skel=P2)
    simple("parafac2_to_slices_noweights", lambda p: parafac2_to_slices(p), lambda d: ((None,) + p2t(d)[1:],), skel=P2)
    simple("parafac2_to_slice_weights", lambda p: parafac2_to_slice(p, 1), lambda d: (p2t(d),))
    simple("parafac2_to_tensor_weights", lambda p: parafac2_to_tensor(p), lambda d: (p2t(d),))
    simple("parafac2_to_tensor_weights_obj", lambda p: (parafac2_to_tensor(p), parafac2_to_unfolded(p, 1), parafac2_to_vec(p)), lambda d: (Parafac2Tensor(p2t(d)),))
    simple("parafac2_normalise_weights", lambda p: parafac2_normalise(p), lambda d: (p2t(d),))
    simple("parafac2_normalise_obj", lambda p: parafac2_normalise(p), lambda d: (Parafac2Tensor(p2t(d)),))
    simple("apply_parafac2_projections", lambda p: apply_parafac2_projections(p), lambda d: (p2t(d),))
    simple("parafac2_from_cp", lambda cp, s: Parafac2Tensor.from_CPTensor(cp, parafac2_tensor_ok=s), lambda d: ((d.w, [f.copy() for f in d.fs]), False))
    # ---------------------------------------------------------------- tensor algebra
    simple("khatri_rao_mask_einsum", _einsum(lambda fs, m: tenalg.khatri_rao(fs, mask=m)), lambda d: (d.fs, d.mask), skel=("KKhatriRaoMask", [0, 1]))
    simple("khatri_rao_mask_einsum_twice", _einsum(lambda fs, m: (tenalg.khatri_rao(fs, mask=m), tenalg.khatri_rao(fs, mask=m))), lambda d: (d.fs, d.mask))
    simple("khatri_rao_weights_mask_einsum", _einsum(lambda fs, w, m: tenalg.khatri_rao(fs, weights=w, mask=m)), lambda d: (d.fs, d.w, d.mask))
    simple("khatri_rao_skip_einsum", _einsum(lambda fs, w: tenalg.khatri_rao(fs, weights=w, skip_matrix=1)), lambda d: (d.fs, d.w))
    simple("khatri_rao_core", lambda fs, w, m: tenalg.khatri_rao(fs, weights=w, mask=m), lambda d: (d.fs, d.w, d.mask.reshape(-1)))
    simple("khatri_rao_core_skip_reverse", lambda fs: tenalg.khatri_rao(fs, skip_matrix=0), lambda d: (tuple(d.fs),))
    simple("mttkrp", lambda X, cp: tenalg.unfolding_dot_khatri_rao(X, cp, 1), lambda d: (d.X, (d.w, d.fs)))
    simple("mttkrp_einsum", _einsum(lambda X, cp: tenalg.unfolding_dot_khatri_rao(X, cp, 1)), lambda d: (d.X, (d.w, d.fs)))
    simple("multi_mode_dot", lambda X, tf: tenalg.multi_mode_dot(X, tf, transpose=True), lambda d: (d.X, d.tf))
    simple("multi_mode_dot_modes_skip", lambda X, tf, mo: tenalg.multi_mode_dot(X, tf, modes=mo, skip=1, transpose=True), lambda d: (d.X, [d.tf[2], d.tf[0]], [2, 0]))
    simple("multi_mode_dot_einsum", _einsum(lambda X, tf: tenalg.multi_mode_dot(X, tf, transpose=True)), lambda d: (d.X, d.tf))
    simple("mode_dot_matrix_vector", lambda X, Mx, v: (tenalg.mode_dot(X, Mx, 1), tenalg.mode_dot(X, v, 1), tenalg.mode_dot(X, Mx.T, 1, transpose=True)), lambda d: (d.X, d.mat, d.vec))
    simple("kronecker_inner_outer", lambda fs, X: (tenalg.kronecker(fs), tenalg.kronecker(fs, skip_matrix=1, reverse=True), tenalg.inner(X, X), tenalg.outer([f[:, 0] for f in fs])), lambda d: (d.fs, d.X))
    simple("tensordot_batched", lambda X: (tenalg.tensordot(X, X, modes=[1], batched_modes=[0]), tenalg.batched_outer([X[:, :, 0], X[:, :, 1]])), lambda d: (d.X,))
    simple("higher_order_moment", lambda M: tenalg.higher_order_moment(M, 3), lambda d: (d.M,))
    simple("base_unfold_fold", lambda X: (tl.unfold(X, 1), tl.fold(tl.unfold(X, 1), 1, X.shape), tl.tensor_to_vec(X), tl.partial_unfold(X, 0, 1), tl.partial_tensor_to_vec(X, 1)), lambda d: (d.X,))
    simple("index_update", lambda X, v: tl.index_update(X, tl.index[:, 1, :], v), lambda d: (d.X, d.rs.rand(4, 5).astype(dtype) + 2), inplace=[0])
    simple("backend_copy_ops", lambda X: (tl.copy(X), tl.abs(X), tl.clip(X, 0.2, 0.8), tl.sort(X, axis=1), tl.flip(X, axis=0), tl.reshape(X, (-1,)), tl.transpose(X), tl.moveaxis(X, 0, -1), tl.cumsum(X, axis=0), tl.where(X > 0.5, X, 0 * X)), lambda d: (d.X,))
    simple("backend_linalg", lambda A, b: (tl.solve(A, b), tl.lstsq(A, b), tl.qr(A), tl.eigh(A), tl.norm(A, 2)), lambda d: (d.UtU + np.eye(4, dtype=dtype), d.UtM))
    # ---------------------------------------------------------------- random, sampling, metrics, preprocessing
    simple("random_cp", lambda: tlr.random_cp((3, 4, 2), 2, random_state=sd, dtype=dtype), lambda d: ())
    simple("random_shapes_as_lists", lambda s, r: (tlr.random_tucker(s, r, random_state=sd), tlr.random_tt(s, [1, 2, 2, 1], random_state=sd), tlr.random_tr(s, [2, 2, 2, 2], random_state=sd)), lambda d: ([3, 4, 2], [2, 2, 2]))
    simple("random_parafac2", lambda shapes: tlr.random_parafac2(shapes, 2, random_state=sd, dtype=dtype), lambda d: ([(4, 3), (5, 3)],))
    simple("validate_ranks", lambda s, r: (tl.validate_tucker_rank(s, r), tl.validate_tt_rank(s, [1, 2, 2, 1]), tl.validate_tr_rank(s, [2, 2, 2, 2]), tl.validate_cp_rank(s, 2), tl.validate_tucker_rank(s, 0.5, fixed_modes=[1])), lambda d: ([3, 4, 2], [2, 2, 2]))
    simple("sample_khatri_rao", lambda fs: sample_khatri_rao(fs, 5, random_state=sd), lambda d: (d.fs,))
    simple("sample_khatri_rao_skip_indices", lambda fs, il: sample_khatri_rao(fs, 2, skip_matrix=1, indices_list=il, return_sampled_rows=True), lambda d: (d.fs, [np.array([0, 1]), np.array([2, 3])]))
    simple("congruence", lambda a, b: congruence_coefficient(a, b), lambda d: (d.fs[0], d.fs[0][:, ::-1] * 2))
    simple("correlation_index", lambda a, b: (correlation_index(a, b), correlation_index(a, b, method="max_score"), correlation_index(a, b, method="min_score")), lambda d: (d.fs, [f[:, ::-1] * 2 for f in d.fs]))
    simple("leverage", lambda M: leverage_score_dist(M), lambda d: (d.M,))
    simple("regression_metrics", lambda a, b: (MSE(a, b), RMSE(a, b), R2_score(a, b), correlation(a, b)), lambda d: (d.y, d.y[::-1] + 0.1))
    simple("entropy", lambda M, cp: (vonneumann_entropy(M), cp_vonneumann_entropy(cp)), lambda d: (d.UtU / np.trace(d.UtU), CPTensor((d.w / d.w.sum(), [np.linalg.qr(d.rs.rand(4, R))[0].astype(dtype)] * 2))))
    simple("compress", lambda sl: svd_compress_tensor_slices(sl, max_rank=3), lambda d: (d.slices,))
    # round 7: degenerate shapes - slices with no more rows than the rank limit are passed through without an SVD (by reference, unwritten)
    simple("compress_short_slices", lambda sl: svd_compress_tensor_slices(sl), lambda d: ([d.rs.rand(3, 5).astype(dtype), d.rs.rand(5, 5).astype(dtype), d.rs.rand(7, 5).astype(dtype)],))
    simple("compress_short_slices_tuple_maxrank", lambda sl: svd_compress_tensor_slices(sl, max_rank=4), lambda d: ((d.rs.rand(2, 5).astype(dtype), d.rs.rand(4, 5).astype(dtype), d.rs.rand(6, 5).astype(dtype)),))
    simple("compress_threshold_tensor", lambda X: svd_compress_tensor_slices(X, compression_threshold=0.1), lambda d: (d.X,))
    simple("decompress", lambda p, lm: svd_decompress_parafac2_tensor(p, lm), lambda d: (lambda p: (p, [np.linalg.qr(d.rs.rand(6, p[2][i].shape[0]))[0].astype(dtype) for i in range(3)]))(p2t(d)))
    simple("decompress_none_obj", lambda p, lm: svd_decompress_parafac2_tensor(p, lm), lambda d: (lambda p: (Parafac2Tensor(p), [None, np.linalg.qr(d.rs.rand(6, p[2][1].shape[0]))[0].astype(dtype), None]))(p2t(d)))
    # ---------------------------------------------------------------- round 2: the rest of the public surface
    from tensorly.base import vec_to_tensor, partial_fold, partial_vec_to_tensor, matricize
    from tensorly.contrib.decomposition._tt_cross import maxvol
    from tensorly.contrib.decomposition.tt_TTOI import tensor_train_OI
    from tensorly.decomposition._constrained_cp import initialize_constrained_parafac, ConstrainedCP
    from tensorly.decomposition._cp import sparsify_tensor, error_calc, RandomizedCP
    from tensorly.decomposition._cp_power import CPPower
    from tensorly.decomposition._nn_cp import CP_NN
    from tensorly.decomposition._parafac2 import initialize_decomposition, Parafac2
    from tensorly.decomposition._symmetric_cp import SymmetricCP
    from tensorly.decomposition._tr_als import TensorRingALS, TensorRingALSSampled
    from tensorly.decomposition._tr_svd import TensorRing
    from tensorly.decomposition._tt import TensorTrain, TensorTrainMatrix
    from tensorly.decomposition._tucker import Tucker_NN, Tucker_NN_HALS
    from tensorly.metrics.entropy import tt_vonneumann_entropy
    from tensorly.metrics.regression import reflective_correlation_coefficient, covariance, variance, standard_deviation
    from tensorly.random.base import random_tensor, random_tt_matrix
    from tensorly.tenalg.core_tenalg.mttkrp import unfolding_dot_khatri_rao_memory
    from tensorly.tenalg.proximal import validate_constraints
    from tensorly.tenalg.svd import make_svd_non_negative, randomized_range_finder, svd_checks, truncated_svd
    from tensorly.tr_tensor import TRTensor
    from tensorly.tt_matrix import validate_tt_matrix_rank, tt_matrix_to_unfolded, TTMatrix
    from tensorly.solvers.penalizations import process_regularization_weights

    PRW = "tensorly.solvers.penalizations.process_regularization_weights"
    PW = (prw_name, [0, 1])
    simple("process_regularization_weights_none_entries", lambda r, sp: process_regularization_weights(r, sp, 3), lambda d: ([None, 0.5, None], [0.1, None, None]), skel=PW, ep=PRW)
    simple("process_regularization_weights_degenerate", lambda r, sp: process_regularization_weights(r, sp, 3), lambda d: ([0, 0, 0], [0.1, 0, 0.3]), skel=PW, ep=PRW)
    simple("process_regularization_weights_plain_lists", lambda r, sp: process_regularization_weights(r, sp, 4), lambda d: ([0, 0, 2, 0], [1, 2, 0, 4]), skel=PW, ep=PRW)
    simple("process_regularization_weights_scalars", lambda r, sp: process_regularization_weights(r, sp, 3), lambda d: (None, 0.1), ep=PRW)
    simple("process_regularization_weights_scalar_and_list", lambda r, sp: process_regularization_weights(r, sp, 3), lambda d: (0.5, [0.1, 0.2, 0.3]), ep=PRW)
    simple("base_fold_family", lambda v, M, P_: (vec_to_tensor(v, (3, 4, 5)), partial_fold(M, 0, (4, 3, 5), skip_begin=1), partial_vec_to_tensor(P_, (4, 3, 5)), matricize(tl.reshape(v, (3, 4, 5)), [0, 2], [1]), matricize(tl.reshape(v, (3, 4, 5)), [1])),
           lambda d: (d.rs.rand(60).astype(dtype), d.rs.rand(4, 3, 5).astype(dtype), d.rs.rand(4, 15).astype(dtype)))
    simple("maxvol", lambda A: maxvol(A), lambda d: (d.M,))
    simple("tensor_train_OI", lambda X, r: tensor_train_OI(X, r, n_iter=1), lambda d: (d.X, [1, 2, 2, 1]))
    simple("tensor_train_OI_trajectory", lambda X, r: tensor_train_OI(X, r, n_iter=1, trajectory=True), lambda d: (d.X, (1, 2, 2, 1)))
    simple("initialize_constrained_user", lambda X, i: initialize_constrained_parafac(X, R, init=i, non_negative=True), lambda d: (d.X, (d.w, d.fsn)))
    simple("initialize_constrained_user_cptensor_l1", lambda X, i: initialize_constrained_parafac(X, R, init=i, l1_reg=0.4), lambda d: (d.X, cpt(d)))
    simple("initialize_constrained_user_list_simplex", lambda X, i: initialize_constrained_parafac(X, R, init=i, simplex=1.0), lambda d: (d.X, [d.w, d.fs]))
    simple("ConstrainedCP_class_init", lambda X, i, fm: ConstrainedCP(R, n_iter_max=2, init=i, fixed_modes=fm, non_negative=True).fit_transform(X), lambda d: (d.X, (d.w, d.fs), [0, 2]))
    simple("constrained_init_unimodal_fixed_last", lambda X, i, fm: constrained_parafac(X, R, n_iter_max=2, init=i, fixed_modes=fm, unimodality=True), lambda d: (d.X, (d.w, d.fs), [1, 2]))
    simple("constrained_init_hardsparse_normalize", lambda X, i, hs: constrained_parafac(X, R, n_iter_max=2, init=i, hard_sparsity=hs), lambda d: (d.X, (d.w1, d.fs), [2, 2, 2]))
    simple("sparsify_tensor", lambda X: (sparsify_tensor(X, 7), sparsify_tensor(X, 10 ** 6)), lambda d: (d.X - 0.5,))
    simple("error_calc_mask", lambda X, w, fs, m: error_calc(X, tl.norm(X, 2), w, fs, 0, m), lambda d: (d.X, d.w, d.fs, d.mask))
    simple("error_calc_sparsity_mttkrp", lambda X, w, fs, mk: (error_calc(X, tl.norm(X, 2), w, fs, 5, None), error_calc(X, tl.norm(X, 2), w, fs, 0, None, mk)), lambda d: (d.X, d.w, d.fs, d.rs.rand(5, R).astype(dtype)))
    simple("RandomizedCP_class", lambda X: RandomizedCP(R, 8, n_iter_max=3, random_state=sd, verbose=0).fit_transform(X), lambda d: (d.X,))
    simple("CPPower_class", lambda X: CPPower(R, n_repeat=2, n_iteration=2).fit_transform(X), lambda d: (d.X,))
    simple("CP_NN_class_init_mask", lambda X, i, fm, m: CP_NN(R, n_iter_max=3, init=i, fixed_modes=fm, mask=m).fit_transform(X), lambda d: (d.X, (d.w, d.fs), [0], d.mask))
    simple("parafac2_initialize_decomposition", lambda sl, i: (initialize_decomposition(sl, R, init="svd"), initialize_decomposition(sl, R, init=i)), lambda d: (d.slices, p2t(d, d.w1)))
    simple("parafac2_initialize_decomposition_obj", lambda sl, i: initialize_decomposition(sl, R, init=i), lambda d: (tuple(d.slices), Parafac2Tensor(p2t(d, d.w1))))
    simple("Parafac2_class_init_linesearch", lambda sl, i: Parafac2(R, n_iter_max=9, init=i, linesearch=True, normalize_factors=True, nn_modes=[0, 2], tol=1e-13, return_errors=True).fit_transform(sl), lambda d: (d.slices, p2t(d, d.w1)))
    simple("parafac2_init_weights_list", lambda sl, i: parafac2(sl, R, n_iter_max=3, init=i, n_iter_parafac=2, return_errors=True), lambda d: (d.slices, list(p2t(d))))
    simple("SymmetricCP_class", lambda X: SymmetricCP(R, n_repeat=2, n_iteration=2).fit_transform(X), lambda d: (d.rs.rand(3, 3, 3).astype(dtype),))
    simple("TensorRing_classes", lambda X, r: (TensorRingALS(r, n_iter_max=2, random_state=sd).fit_transform(X), TensorRingALSSampled(r, 10, n_iter_max=2, random_state=sd).fit_transform(X), TensorRing(r).fit_transform(X), tensor_ring(X, [2, 1, 2, 2], mode=1)), lambda d: (d.X, [2, 2, 2, 2]))
    simple("TensorTrain_classes", lambda X, r, Y, r2: (TensorTrain(r).fit_transform(X), TensorTrainMatrix(r2).fit_transform(Y)), lambda d: (d.X, [1, 2, 2, 1], d.rs.rand(2, 3, 2, 3).astype(dtype), [1, 2, 1]))
    simple("Tucker_NN_classes_init", lambda X, i, sc, fm: (Tucker_NN([2, 2, 2], n_iter_max=2, init=i).fit_transform(X), Tucker_NN_HALS([2, 2, 2], n_iter_max=2, init=i, sparsity_coefficients=sc, fixed_modes=fm).fit_transform(X)), lambda d: (d.X, (d.core, d.tf), [0.1, None, 0.1], [1, 2]))
    simple("nn_tucker_init_obj_nonneg", lambda X, i: non_negative_tucker(X, [2, 2, 2], n_iter_max=3, init=i, tol=0), lambda d: (d.X, TuckerTensor((d.core, d.tf))), skel=nk(False, 3))
    simple("nn_tucker_hals_init_core_sparsity_fail", lambda X, i, sc: non_negative_tucker_hals(X, [2, 2, 2], n_iter_max=2, init=i, sparsity_coefficients=sc, core_sparsity_coefficient=0.1, algorithm="bogus"), lambda d: (d.X, (d.core, d.tf), [0.1, 0.2, 0.3]))
    simple("partial_tucker_init_mask", lambda X, i, mo, m: partial_tucker(X, [2, 2], modes=mo, n_iter_max=3, init=i, mask=m, tol=0), lambda d: (d.X, (d.rs.rand(2, 3, 2).astype(dtype), [d.tf[0], d.tf[2]]), [0, 2], d.mask))
    simple("tucker_fixed_factors_mask", lambda X, i, ff, m: tucker(X, [2, 2, 2], n_iter_max=2, init=i, fixed_factors=ff, mask=m), lambda d: (d.X, (d.core, d.tf), [2, 0], d.mask))
    simple("tt_entropy_and_regression_metrics", lambda T3, a, b: (tt_vonneumann_entropy(T3), reflective_correlation_coefficient(a, b), covariance(a, b), variance(a), standard_deviation(b, axis=0)),
           lambda d: (TTTensor([d.rs.rand(1, 3, 2).astype(dtype), d.rs.rand(2, 3, 1).astype(dtype)]), d.Y2, d.Y2[::-1] + 0.1))
    simple("random_tensor_tt_matrix", lambda s, s2: (random_tensor(s, random_state=sd), random_tt_matrix(s2, 2, random_state=sd), random_tt_matrix(s2, [1, 2, 1], full=True, random_state=sd)), lambda d: ([3, 4], [2, 3, 2, 3]))
    simple("mttkrp_memory", lambda X, cp: (unfolding_dot_khatri_rao_memory(X, cp, 0), unfolding_dot_khatri_rao_memory(X, cp, 2)), lambda d: (d.X, (d.w, d.fs)))
    simple("validate_constraints_options", lambda nn, l1, l2: validate_constraints(non_negative=nn, l1_reg=l1, l2_reg=l2, n_const=3), lambda d: ({0: True}, {1: 0.1, 2: 0.2}, None))
    simple("validate_constraints_fail_two", lambda nn, l1: validate_constraints(non_negative=nn, l1_reg=l1, n_const=3), lambda d: ({0: True}, {0: 0.1}))
    simple("svd_helpers", lambda M: (truncated_svd(M, 2), svd_checks(M, 9), randomized_range_finder(M, 2, random_state=sd), make_svd_non_negative(M, *truncated_svd(M, 2)), make_svd_non_negative(M, *truncated_svd(M, 2), nntype="nndsvda")), lambda d: (d.M,))
    simple("svd_make_nonneg_user_USV", lambda M, U, S, V: make_svd_non_negative(M, U, S, V), lambda d: (d.M,) + tuple(np.asarray(x, dtype=dtype) for x in np.linalg.svd(d.M.astype(np.float64), full_matrices=False)))
    simple("svd_interface_mask_repeats_flip", lambda M, m: tl.svd_interface(M, n_eigenvecs=2, mask=m, n_iter_mask_imputation=3, flip_sign=True), lambda d: (d.M - 0.5, (d.rs.rand(6, 4) > 0.3)))
    simple("tr_ttm_objects", lambda f, g: (TRTensor(f).to_tensor(), TRTensor(f).to_unfolded(1), TRTensor(f).to_vec(), TTMatrix(g).to_tensor(), TTMatrix(g).to_matrix(), TTMatrix(g).to_vec(), tt_matrix_to_unfolded(g, 1), validate_tt_matrix_rank((2, 3, 2, 3), "same")), lambda d: (trf(d), ttm(d)))
    simple("tt_obj_inplace_flag", lambda f: (TTTensor(f, inplace=True).to_tensor(), TTMatrix(ttm_of(f), inplace=True).to_matrix()), lambda d: (ttf(d),))
    # other orders: the sweeps / list surgery run over 2 and 4 modes
    simple("parafac_init_order2_fixed_mask", lambda X, i, fm, m: parafac(X, R, n_iter_max=3, init=i, fixed_modes=fm, mask=m), lambda d: (d.X[:, :, 0], (d.w, d.fs[:2]), [0], d.mask[:, :, 0]), skel=PK)
    o4 = lambda d: (d.rs.rand(3, 2, 4, 3).astype(dtype), (d.w, [(d.rs.rand(s, R) + 0.1).astype(dtype) for s in (3, 2, 4, 3)]))
    simple("parafac_init_order4_fixed_mask", lambda X, i, fm, m: parafac(X, R, n_iter_max=3, init=i, fixed_modes=fm, mask=m, tol=0), lambda d: o4(d) + ([1, 3], (d.rs.rand(3, 2, 4, 3) > 0.2).astype(dtype)), skel=PK)
    simple("nn_parafac_hals_init_order4", lambda X, i, sc, fm: non_negative_parafac_hals(X, R, n_iter_max=2, init=i, sparsity_coefficients=sc, fixed_modes=fm), lambda d: o4(d) + ([0.1, None, 0.1, 0.1], [1]), skel=HK)
    simple("nn_parafac_init_order4_normalize", lambda X, i, fm: non_negative_parafac(X, R, n_iter_max=2, init=i, fixed_modes=fm, normalize_factors=True), lambda d: o4(d) + ((0, 2),))
    simple("tucker_init_order2_mask", lambda X, i, m: tucker(X, [2, 2], n_iter_max=3, init=i, mask=m, tol=0), lambda d: (d.X[:, :, 0], (d.core[:, :, 0], d.tf[:2]), d.mask[:, :, 0]), skel=TK)
    simple("nn_tucker_hals_init_order4", lambda X, i: non_negative_tucker_hals(X, [2, 2, 2, 2], n_iter_max=2, init=i), lambda d: (o4(d)[0], ((d.rs.rand(2, 2, 2, 2) + 0.1).astype(dtype), [(d.rs.rand(s, 2) + 0.1).astype(dtype) for s in (3, 2, 4, 3)])))
    simple("cp_normalize_flip_permute_order4", lambda cp: (cp_normalize(cp), cp_flip_sign(cp, mode=2), cp_to_tensor(cp), cp_mode_dot(cp, np.ones(4, dtype=dtype), 2, copy=True)), lambda d: (o4(d)[1],))
    # more option sets of the anchored decompositions with user initialisations
    simple("parafac_init_mask_linesearch", lambda X, i, m: parafac(X, R, n_iter_max=12, init=i, mask=m, linesearch=True, tol=1e-14), lambda d: (d.X, (d.w, d.fs), d.mask))
    simple("parafac_init_mask_sparsity_errors", lambda X, i, m: parafac(X, R, n_iter_max=3, init=i, mask=m, sparsity=0.2, return_errors=True, tol=0), lambda d: (d.X, cpt(d), d.mask))
    simple("parafac_init_normalize_fixed_callback", lambda X, i, fm: parafac(X, R, n_iter_max=3, init=i, fixed_modes=fm, normalize_factors=True, callback=lambda cp, e: None), lambda d: (d.X, (d.w, d.fs), [0, 1]))
    simple("parafac_init_orth_l2_notol", lambda X, i: parafac(X, R, n_iter_max=3, init=i, orthogonalise=2, l2_reg=0.3, tol=0), lambda d: (d.X, [d.w, d.fs]))
    simple("randomised_parafac_init_cptensor_fail_samples", lambda X, i: randomised_parafac(X, R, n_samples=0, n_iter_max=2, init=i, random_state=sd), lambda d: (d.X, cpt(d)))
    simple("nn_parafac_hals_init_normalize_fail_cvg", lambda X, i, sc: non_negative_parafac_hals(X, R, n_iter_max=3, init=i, sparsity_coefficients=sc, normalize_factors=True, cvg_criterion="bogus"), lambda d: (d.X, (d.w, d.fs), (0.1, 0.1, 0.1)))
    simple("nn_parafac_hals_init_nnmodes_subset", lambda X, i, nn: non_negative_parafac_hals(X, R, n_iter_max=2, init=i, nn_modes=nn), lambda d: (d.X, cpt(d), {0, 2}))
    simple("active_set_warm_matrix_rowvec", lambda a, b, x: active_set_nnls(a, b, x), lambda d: (asb(d), asU(d), asx(d).reshape(1, 4)), skel=AK)
    simple("hals_nnls_warm_nonzero_rows_zero_start", lambda a, b, V: hals_nnls(a, b, V, n_iter_max=3, nonzero_rows=True, epsilon=1e-6), lambda d: (d.UtM, d.UtU, np.zeros((4, 3), dtype=dtype)), inplace=[2], skel=HN)
    simple("fista_warm_aliased_UtM", lambda a, b, x: fista(a, b, x, n_iter_max=4), lambda d: (lambda u: (u, d.UtU, u))(d.UtM + 1))
    simple("admm_warm_aliased_dual", lambda a, b, x, dv: admm(a.T, b, x, dv, n_const=1, order=0, non_negative=True, n_iter_max=4), lambda d: (lambda z: (d.UtM, d.UtU, z, z))(d.rs.rand(3, 4).astype(dtype)))
    simple("cp_regressor_fit_predict_twice", lambda X, y: (lambda m: (m.fit(X, y), m.predict(X), m.fit(X, y), m.get_params()))(CPRegressor(2, random_state=sd, verbose=0, n_iter_max=3, reg_W=0.5)), lambda d: (d.X, d.y))
    simple("tucker_regressor_fit_predict_twice", lambda X, y: (lambda m: (m.fit(X, y), m.predict(X), m.fit(X, y)))(TuckerRegressor([2, 2], random_state=sd, verbose=0, n_iter_max=3, reg_W=0.5)), lambda d: (d.X, d.y))
    simple("cp_plsr_transform_Y_then_predict", lambda X, Y, X2, Y2: (lambda m: (m.transform(X2, Y2), m.predict(X2), m.transform(X2), m.fit_transform(X, Y)))(CP_PLSR(2, random_state=sd).fit(X, Y)), lambda d: (d.X, d.Y2, d.X + 0.5, d.Y2 * 2))
    simple("robust_pca_mask_bool_regs", lambda X, m: robust_pca(X, mask=m, n_iter_max=4, reg_E=0.5, reg_J=0.5, verbose=0), lambda d: (d.X - 0.5, d.mask > 0))
    # option lists (ranks, modes) handed over as ARGUMENTS: validation / truncation / negative-index normalisation work on them
    simple("tensor_train_rank_list_truncated", lambda X, r: tensor_train(X, r), lambda d: (d.X, [1, 9, 9, 1]))
    simple("tensor_train_matrix_rank_list_truncated", lambda Y, r: tensor_train_matrix(Y, r), lambda d: (d.rs.rand(2, 3, 2, 3).astype(dtype), [1, 9, 1]))
    simple("tensor_ring_rank_list_truncated", lambda X, r: tensor_ring(X, r), lambda d: (d.X, [1, 4, 20, 1]))
    simple("tensor_ring_rank_list_mode1", lambda X, r: tensor_ring(X, r, mode=1), lambda d: (d.X, [2, 1, 2, 2]))
    simple("tt_cross_rank_list", lambda X, r: tensor_train_cross(X, r, random_state=sd), lambda d: (d.X, [1, 2, 2, 1]))
    simple("tucker_rank_list_modes_list", lambda X, r, mo: (tucker(X, r, n_iter_max=2), partial_tucker(X, r[:2], modes=mo, n_iter_max=2)), lambda d: (d.X, [9, 2, 2], [2, 0]))
    simple("tensordot_negative_modes_lists", lambda X, m, b: (tenalg.tensordot(X, X, modes=m, batched_modes=b), tenalg.tensordot(X, X, modes=m)), lambda d: (d.X, [-2], [-3]))
    simple("tensordot_negative_modes_lists_einsum", _einsum(lambda X, m, b: tenalg.tensordot(X, X, modes=m, batched_modes=b)), lambda d: (d.X, [-2], [-3]))
    simple("validate_rank_lists", lambda s, r1, r2, r3, fm: (tl.validate_tt_rank(s, r1), tl.validate_tt_rank(s, r1, allow_overparametrization=False), tl.validate_tr_rank(s, r2), tl.validate_tucker_rank(s, r3), tl.validate_tucker_rank(s, 0.7, fixed_modes=fm)),
           lambda d: ([4, 3, 5], [1, 9, 9, 1], [2, 9, 9, 2], [9, 9, 9], [2, 0]))
    simple("unfolding_modes_lists", lambda X, rm, cm: (matricize(X, rm, cm), tl.partial_unfold(X, 1, skip_begin=1)), lambda d: (d.X, [2, 0], [1]))
    # ---------------------------------------------------------------- round 5: what the surface audit found missing, the class-based API
    # (fit / fit_transform / transform / predict / score / get_params / set_params of every estimator and decomposition class; the
    # estimator as a RECEIVER argument holding the user's options), call sequences, the remaining documented in-place parameters
    from tensorly.contrib.decomposition.tt_TTOI import TensorTrain_OI
    simple("einsum_kronecker_inner_outer_mode_dot", _einsum(lambda fs, X, Mx, v: (tenalg.kronecker(fs), tenalg.kronecker(fs, reverse=True), tenalg.kronecker(fs, skip_matrix=1, reverse=True), tenalg.inner(X, X), tenalg.inner(X, tl.transpose(X)[:, :, :2], n_modes=1),
                                                                                  tenalg.outer([f[:, 0] for f in fs]), tenalg.batched_outer([X[:, :, 0], X[:, :, 1]]),
                                                                                  tenalg.mode_dot(X, Mx, 1), tenalg.mode_dot(X, v, 1), tenalg.mode_dot(X, Mx.T, 1, transpose=True))),
           lambda d: (d.fs, d.X, d.mat, d.vec))
    simple("kronecker_reverse_list_and_tuple", lambda fs, ft: (tenalg.kronecker(fs, reverse=True), tenalg.kronecker(ft, reverse=True), tenalg.khatri_rao(fs, reverse=True) if False else tenalg.khatri_rao(fs)), lambda d: (d.fs, tuple(d.fs)))
    simple("einsum_tt_matrix_to_tensor", _einsum(lambda g: (tt_matrix_to_tensor(g), tt_matrix_to_matrix(g), TTMatrix(g).to_tensor())), lambda d: (ttm(d),))
    simple("to_unfolding_methods", lambda f, g, h_: (TTTensor(f).to_unfolding(1), TRTensor(g).to_unfolding(1), TTMatrix(h_).to_unfolding(1)), lambda d: (ttf(d), trf(d), ttm(d)))
    simple("parafac2_obj_methods", lambda p: (p.to_tensor(), p.to_unfolded(1), p.to_vec()), lambda d: (Parafac2Tensor(p2t(d)),))
    simple("TensorTrain_OI_class", lambda X, r: (lambda m, m2: (m.fit_transform(X), m.fit(X), m2.fit_transform(X)))(TensorTrain_OI(r, 1, False, True), TensorTrain_OI(r, 2, True, False)), lambda d: (d.X, [1, 2, 2, 1]))
    simple("cp_plsr_params_score", lambda X, Y: (lambda m: (m.set_params(n_iter_max=50, tol=1e-9), m.fit(X, Y), m.score(X, Y), m.get_params(), m.predict(X), m.score(X, Y)))(CP_PLSR(2, random_state=sd)), lambda d: (d.X, d.Y2))
    simple("regressor_params_fit_predict_other", lambda X, y, X2: (lambda a, b: (a.set_params(reg_W=0.3), a.get_params(), a.fit(X, y), a.predict(X2), a.predict(X), b.set_params(reg_W=0.3), b.get_params(), b.fit(X, y), b.predict(X2)))(
        CPRegressor(2, random_state=sd, verbose=0, n_iter_max=3), TuckerRegressor([2, 2], random_state=sd, verbose=0, n_iter_max=3)), lambda d: (d.X, d.y, d.X * 2 - 1))
    simple("regressor_fail_rows", lambda X, y: (CPRegressor(2, random_state=sd, verbose=0, n_iter_max=3).fit(X, y)), lambda d: (d.X, d.Y2[:3, 0]))
    # DecompositionMixin.fit + a second fit_transform with the SAME estimator (the options it holds are reused): every class
    fitseq = lambda m, X: (m.fit(X), m.decomposition_, m.fit_transform(X), repr(m))
    simple("CP_fit_sequence", lambda X, i, fm, m: fitseq(CP(R, n_iter_max=2, init=i, fixed_modes=fm, mask=m), X), lambda d: (d.X, (d.w, d.fs), [0, 2], d.mask))
    simple("RandomizedCP_fit_sequence", lambda X, i: fitseq(RandomizedCP(R, 8, n_iter_max=2, init=i, random_state=sd, verbose=0), X), lambda d: (d.X, (d.w, d.fs)))
    simple("CPPower_SymmetricCP_fit_sequence", lambda X, S3: (fitseq(CPPower(R, n_repeat=2, n_iteration=2), X), fitseq(SymmetricCP(R, n_repeat=2, n_iteration=2), S3)), lambda d: (d.X, d.rs.rand(3, 3, 3).astype(dtype)))
    simple("CP_NN_fit_sequence", lambda X, i, fm, m: fitseq(CP_NN(R, n_iter_max=2, init=i, fixed_modes=fm, mask=m), X), lambda d: (d.X, cpt(d), [1], d.mask))
    simple("CP_NN_HALS_fit_sequence", lambda X, i, sc, fm: fitseq(CP_NN_HALS(R, n_iter_max=2, init=i, sparsity_coefficients=sc, fixed_modes=fm), X), lambda d: (d.X, (d.w1, d.fs), [0.1, None, 0.1], [0]))
    simple("ConstrainedCP_fit_sequence", lambda X, i, fm, l1: fitseq(ConstrainedCP(R, n_iter_max=2, init=i, fixed_modes=fm, l1_reg=l1), X), lambda d: (d.X, (d.w, d.fs), [0], [0.1, 0.2, 0.3]))
    simple("Parafac2_fit_sequence", lambda sl, i, nn: fitseq(Parafac2(R, n_iter_max=3, init=i, nn_modes=nn), sl), lambda d: (d.slices, p2t(d, d.w1), [0]))
    simple("Tucker_fit_sequence", lambda X, r, i, m: fitseq(Tucker(r, n_iter_max=2, init=i, mask=m), X), lambda d: (d.X, [2, 2, 2], (d.core, d.tf), d.mask))
    simple("Tucker_fixed_factors_fit_sequence", lambda X, r, i, ff: fitseq(Tucker(r, n_iter_max=2, init=i, fixed_factors=ff), X), lambda d: (d.X, [2, 2, 2], (d.core, d.tf), [1]))
    simple("Tucker_NN_fit_sequence", lambda X, r, i: fitseq(Tucker_NN(r, n_iter_max=2, init=i), X), lambda d: (d.X, [2, 2, 2], (d.core, d.tf)))
    simple("Tucker_NN_HALS_fit_sequence", lambda X, r, i, sc, fm: fitseq(Tucker_NN_HALS(r, n_iter_max=2, init=i, sparsity_coefficients=sc, fixed_modes=fm), X), lambda d: (d.X, [2, 2, 2], (d.core, d.tf), [0.1, None, 0.1], [2]))
    simple("TT_TR_fit_sequence", lambda X, r1, r2, Y, r3: (fitseq(TensorTrain(r1), X), fitseq(TensorRing(r2), X), fitseq(TensorRingALS(r2, n_iter_max=2, random_state=sd), X),
                                                           fitseq(TensorRingALSSampled(r2, 10, n_iter_max=2, random_state=sd), X), fitseq(TensorTrainMatrix(r3), Y)),
           lambda d: (d.X, [1, 2, 2, 1], [2, 2, 2, 2], d.rs.rand(2, 3, 2, 3).astype(dtype), [1, 2, 1]))
    # the estimator itself as an argument: fit_transform is a mutator of the RECEIVER (it stores decomposition_ / errors_ on it);
    # everything the receiver holds (init, fixed_modes, mask, coefficient lists) and the tensor stay as they were
    def ck_name(args):
        est, X = args[0], args[1]
        return "(KCpClassFit" + pk_name((X, est.init, est.fixed_modes, est.mask))[len("(KParafacN"):]
    def chk_name(args):
        est, X = args[0], args[1]
        return "(KHalsClassFit" + hk_name((X, est.init, est.sparsity_coefficients, est.fixed_modes))[len("(KHalsN"):]
    def ctk_name(args):
        return "(KTuckerClassFit" + tk_name((args[1],))[len("(KTuckerN"):]
    simple("CP_receiver_fit_transform", lambda est, X: est.fit_transform(X), lambda d: (CP(R, n_iter_max=2, init=(d.w, d.fs), fixed_modes=[0, 2], mask=d.mask), d.X), inplace=[0], skel=(ck_name, [0, 1]))
    simple("CP_receiver_fit_transform_cptensor_nomask", lambda est, X: est.fit_transform(X), lambda d: (CP(R, n_iter_max=2, init=cpt(d), fixed_modes=[1, 2]), d.X), inplace=[0], skel=(ck_name, [0, 1]))
    simple("CP_receiver_fit_fail_cvg", lambda est, X: est.fit(X), lambda d: (CP(R, n_iter_max=4, init=(d.w, d.fs), fixed_modes=[0], mask=d.mask, cvg_criterion="bogus"), d.X), inplace=[0], skel=(ck_name, [0, 1]))
    simple("CP_NN_HALS_receiver_fit_transform", lambda est, X: est.fit_transform(X), lambda d: (CP_NN_HALS(R, n_iter_max=2, init=(d.w1, d.fs), sparsity_coefficients=[0.1, None, 0.1], fixed_modes=[0]), d.X), inplace=[0], skel=(chk_name, [0, 1]))
    simple("Tucker_receiver_fit_transform", lambda est, X: est.fit_transform(X), lambda d: (Tucker([2, 2, 2], n_iter_max=2, init=(d.core, d.tf), mask=d.mask), d.X), inplace=[0], skel=(ctk_name, [0, 1]))
    simple("Tucker_receiver_fit_transform_obj", lambda est, X: est.fit(X), lambda d: (Tucker([2, 2, 2], n_iter_max=2, init=TuckerTensor((d.core, d.tf))), d.X), inplace=[0], skel=(ctk_name, [0, 1]))
    # round 6: every other estimator kind - receiver skeleton with an opaque body (Props C15_any_estimator_fit_frame): EXACTLY the receiver changes
    def ek_name(args):
        est = args[0]
        return f"(KEstimatorFit {sum(1 for a_ in ('init', 'sparsity_coefficients', 'fixed_modes', 'mask') if a_ in vars(est))}%nat)"
    EK = (ek_name, [0, 1])
    simple("CP_PLSR_receiver_fit", lambda est, X, Y: est.fit(X, Y), lambda d: (CP_PLSR(2, random_state=sd), d.X, d.Y2), inplace=[0], skel=EK)
    simple("CPRegressor_receiver_fit", lambda est, X, y: est.fit(X, y), lambda d: (CPRegressor(2, random_state=sd, verbose=0, n_iter_max=3), d.X, d.y), inplace=[0], skel=EK)
    simple("TuckerRegressor_receiver_fit", lambda est, X, y: est.fit(X, y), lambda d: (TuckerRegressor([2, 2], random_state=sd, verbose=0, n_iter_max=3), d.X, d.y), inplace=[0], skel=EK)
    simple("CP_NN_receiver_fit_transform", lambda est, X: est.fit_transform(X), lambda d: (CP_NN(R, n_iter_max=2, init=(d.w, d.fs), fixed_modes=[0], mask=d.mask), d.X), inplace=[0], skel=(ck_name, [0, 1]))
    simple("RandomizedCP_receiver_fit_transform", lambda est, X: est.fit_transform(X), lambda d: (RandomizedCP(R, 8, n_iter_max=2, init=(d.w, d.fs), random_state=sd, verbose=0), d.X), inplace=[0], skel=EK)
    simple("ConstrainedCP_receiver_fit_transform", lambda est, X: est.fit_transform(X), lambda d: (ConstrainedCP(R, n_iter_max=2, init=cpt(d), fixed_modes=[0, 2], l1_reg=[0.1, 0.2, 0.3]), d.X), inplace=[0], skel=EK)
    simple("Parafac2_receiver_fit_transform", lambda est, sl: est.fit_transform(sl), lambda d: (Parafac2(R, n_iter_max=3, init=p2t(d, d.w1), nn_modes=[0]), d.slices), inplace=[0], skel=EK)
    def nck(normalize, sweeps=2):      # round 7: Tucker_NN with the order-generic non_negative_tucker body (Props C15_nn_tucker_class_fit_frame)
        def nck_name(args):
            N = args[1].ndim
            return f"(KNnTuckerClassFit {N}%nat {sweeps}%nat {C.boolc(normalize)} {C.nat_list(range(N))})"
        return (nck_name, [0, 1])
    simple("Tucker_NN_receiver_fit_transform", lambda est, X: est.fit_transform(X), lambda d: (Tucker_NN([2, 2, 2], n_iter_max=2, init=(d.core, d.tf)), d.X), inplace=[0], skel=nck(False))
    # round 7: exact=True of the HALS family (hals_nnls then iterates up to 50000 times until the update vanishes).  RANK ONE: the row update is then the
    # closed-form minimiser, the second inner iteration changes nothing and the loop ends - exact=True costs milliseconds, so every argument kind and the
    # interruptions run.  Also the only table configurations giving CP_NN_HALS(nn_modes=) / Tucker_NN_HALS(core_sparsity_coefficient=) a non-default value.
    r1 = lambda d: [(d.rs.rand(s_, 1) + 0.1).astype(dtype) for s_ in d.X.shape]
    simple("CP_NN_HALS_class_exact_rank1", lambda X, i, fm: CP_NN_HALS(1, n_iter_max=2, init=i, exact=True, nn_modes=[1, 2], fixed_modes=fm).fit_transform(X), lambda d: (d.X, (np.ones(1, dtype=dtype), r1(d)), [0]))
    simple("nn_parafac_hals_exact_rank1", lambda X, i, sc, fm: non_negative_parafac_hals(X, 1, n_iter_max=2, init=i, exact=True, sparsity_coefficients=sc, fixed_modes=fm), lambda d: (d.X, (np.ones(1, dtype=dtype), r1(d)), [0.1, None, 0.1], [0]))
    simple("Tucker_NN_HALS_class_exact_rank1", lambda X, i, fm: Tucker_NN_HALS([1, 1, 1], n_iter_max=2, init=i, exact=True, fixed_modes=fm, core_sparsity_coefficient=0.1).fit_transform(X),
           lambda d: (d.X, ((d.rs.rand(1, 1, 1) + 0.1).astype(dtype), r1(d)), [0]))
    simple("nn_tucker_hals_exact_rank1_active_set", lambda X, i: non_negative_tucker_hals(X, [1, 1, 1], n_iter_max=2, init=i, exact=True, algorithm="active_set"), lambda d: (d.X, ((d.rs.rand(1, 1, 1) + 0.1).astype(dtype), r1(d))))
    simple("hals_nnls_warm_exact_true_rank1", lambda a, b, V: hals_nnls(a, b, V, exact=True), lambda d: (d.UtM[:1], d.UtU[:1, :1], (d.rs.rand(1, 3) * 5 + 1).astype(dtype)), inplace=[2], skel=HN)
    simple("Tucker_NN_receiver_fit_transform_normalize_obj", lambda est, X: est.fit_transform(X), lambda d: (Tucker_NN([2, 2, 2], n_iter_max=2, init=TuckerTensor((d.core, d.tf)), normalize_factors=True, tol=0), d.X), inplace=[0], skel=nck(True))
    simple("Tucker_NN_HALS_receiver_fit_transform", lambda est, X: est.fit_transform(X), lambda d: (Tucker_NN_HALS([2, 2, 2], n_iter_max=2, init=(d.core, d.tf), sparsity_coefficients=[0.1, None, 0.1], fixed_modes=[2]), d.X), inplace=[0], skel=thk(False, 2, True))
    simple("CPPower_receiver_fit", lambda est, X: est.fit(X), lambda d: (CPPower(R, n_repeat=2, n_iteration=2), d.X), inplace=[0], skel=EK)
    simple("SymmetricCP_receiver_fit", lambda est, X: est.fit(X), lambda d: (SymmetricCP(R, n_repeat=2, n_iteration=2), d.rs.rand(3, 3, 3).astype(dtype)), inplace=[0], skel=EK)
    simple("TensorTrain_receiver_fit", lambda est, X: est.fit(X), lambda d: (TensorTrain([1, 2, 2, 1]), d.X), inplace=[0], skel=EK)
    simple("TensorTrainMatrix_receiver_fit", lambda est, Y: est.fit(Y), lambda d: (TensorTrainMatrix([1, 2, 1]), d.rs.rand(2, 3, 2, 3).astype(dtype)), inplace=[0], skel=EK)
    simple("TensorRing_receiver_fit", lambda est, X: est.fit(X), lambda d: (TensorRing([2, 2, 2, 2]), d.X), inplace=[0], skel=EK)
    simple("TensorRingALS_receiver_fit", lambda est, X: est.fit(X), lambda d: (TensorRingALS([2, 2, 2, 2], n_iter_max=2, random_state=sd), d.X), inplace=[0], skel=EK)
    simple("TensorRingALSSampled_receiver_fit", lambda est, X: est.fit(X), lambda d: (TensorRingALSSampled([2, 2, 2, 2], 10, n_iter_max=2, random_state=sd), d.X), inplace=[0], skel=EK)
    simple("TensorTrain_OI_receiver_fit", lambda est, X: est.fit(X), lambda d: (TensorTrain_OI([1, 2, 2, 1], 1, False, True), d.X), inplace=[0], skel=EK)
    def _fitted(m, *a):
        m.fit(*a)
        return m
    # fitted estimators as (protected) arguments of the read-only methods
    simple("CP_PLSR_fitted_predict_transform_score", lambda est, X, Y: (est.predict(X), est.transform(X), est.transform(X, Y), est.score(X, Y), est.get_params()), lambda d: (_fitted(CP_PLSR(2, random_state=sd), d.X, d.Y2), d.X + 0.5, d.Y2 * 2))
    simple("regressors_fitted_predict", lambda a, b, X: (a.predict(X), b.predict(X), a.get_params(), b.get_params()),
           lambda d: (_fitted(CPRegressor(2, random_state=sd, verbose=0, n_iter_max=3), d.X, d.y), _fitted(TuckerRegressor([2, 2], random_state=sd, verbose=0, n_iter_max=3), d.X, d.y), d.X * 2))
    # tucker_mode_dot: copy=False is the default; with a vector it pops from the caller's factor list, with a matrix it assigns into it
    TMI = lambda k: (k, [0, 1])
    simple("tucker_mode_dot_default_vector_obj", lambda t, v: tucker_mode_dot(t, v, 1), lambda d: (tkt(d), d.vec), inplace=[0], skel=TMI("KTuckerModeDotVecInplace"))
    simple("tucker_mode_dot_inplace_vector_skel", lambda t, v: tucker_mode_dot(t, v, 1, copy=False), lambda d: ((d.core, d.tf), d.vec), inplace=[0], skel=TMI("KTuckerModeDotVecInplace"))
    simple("tucker_mode_dot_inplace_matrix_skel", lambda t, Mx: tucker_mode_dot(t, Mx, 1, copy=False), lambda d: (tkt(d), d.mat), inplace=[0], skel=TMI("KTuckerModeDotMatInplace"))
    simple("tucker_mode_dot_copy_vector_skel", lambda t, v: tucker_mode_dot(t, v, 1, copy=True), lambda d: (tkt(d), d.vec), skel=TMI("KTuckerModeDotCopy"))
    simple("tucker_mode_dot_fail_shape", lambda t, Mx: tucker_mode_dot(t, Mx, 0, copy=False), lambda d: (tkt(d), d.mat), inplace=[0], skel=TMI("KTuckerModeDotMatInplace"))
    simple("tucker_method_mode_dot_default", lambda t, v: t.mode_dot(v, 1), lambda d: (tkt(d), d.vec), inplace=[0])
    simple("index_update_small", lambda X, v: tl.index_update(X, tl.index[:, 1], v), lambda d: (d.rs.rand(3, 2).astype(dtype), d.rs.rand(3).astype(dtype) + 2), inplace=[0], skel=("KIndexUpdate", [0, 1]))
    # ---------------------------------------------------------------- round 5: options the audit found never given a non-default value
    SV = "symeig_svd"
    rsv = lambda *a, **k: tl.tenalg.svd.randomized_svd(*a, random_state=sd, **k) if False else None
    simple("options_svd_cp_family", lambda X, m: (parafac(X, R, n_iter_max=2, init="svd", svd=SV), non_negative_parafac(X, R, n_iter_max=2, svd=SV), non_negative_parafac_hals(X, R, n_iter_max=2, svd=SV),
                                                 constrained_parafac(X, R, n_iter_max=2, init="svd", svd=SV, non_negative=True, tol_inner=1e-3, tol_outer=1e-5),
                                                 randomised_parafac(X, R, n_samples=8, n_iter_max=2, init="svd", svd=SV, random_state=sd, callback=lambda *a: False),
                                                 initialize_cp(X, R, init="svd", svd=SV, mask=m, svd_mask_repeats=2), initialize_constrained_parafac(X, R, init="svd", svd=SV, non_negative=True)),
           lambda d: (d.X, d.mask))
    simple("options_svd_tucker_family", lambda X, m: (tucker(X, [2, 2, 2], n_iter_max=2, svd=SV, return_errors=True), partial_tucker(X, [2, 2], modes=[0, 2], n_iter_max=2, svd=SV, mask=m, svd_mask_repeats=2),
                                                     non_negative_tucker(X, [2, 2, 2], n_iter_max=2), non_negative_tucker_hals(X, [2, 2, 2], n_iter_max=1, svd=SV, return_errors=True),
                                                     initialize_tucker(X, [2, 2, 2], [0, 1, 2], sd, init="svd", svd=SV, mask=m, svd_mask_repeats=2)),
           lambda d: (d.X, d.mask))
    simple("options_svd_other_decompositions", lambda X, Y, sl: (tensor_train(X, [1, 2, 2, 1], svd=SV), tensor_train_matrix(Y, [1, 2, 1], svd=SV), tensor_ring(X, [2, 2, 2, 2], svd=SV),
                                                                parafac2(sl, R, n_iter_max=2, init="svd", svd=SV), initialize_decomposition(sl, R, init="svd", svd=SV),
                                                                svd_compress_tensor_slices(sl, max_rank=3, svd=SV)),
           lambda d: (d.X, d.rs.rand(2, 3, 2, 3).astype(dtype), d.slices))
    simple("options_classes_rest", lambda X, i, Y: (CP(R, n_iter_max=2, init=i, l2_reg=0.1, orthogonalise=True, svd=SV, svd_mask_repeats=2).fit_transform(X), CP(R, n_iter_max=8, init=i, linesearch=True, tol=1e-12).fit_transform(X),
                                                   RandomizedCP(R, 8, n_iter_max=3, init=i, tol=0, max_stagnation=1, random_state=sd, verbose=0).fit_transform(X), randomised_parafac(X, R, n_samples=8, n_iter_max=3, init=i, tol=0, max_stagnation=1, random_state=sd),
                                                   CP_NN(R, n_iter_max=2, init=i, cvg_criterion="rec_error", tol=0).fit_transform(X), CP_NN_HALS(R, n_iter_max=2, init=i, normalize_factors=True).fit_transform(X), non_negative_parafac(X, R, n_iter_max=2, init=i, tol=0),
                                                   Parafac2(R, n_iter_max=2, n_iter_parafac=2).fit_transform([X[0], X[1], X[2]]), Tucker_NN_HALS([2, 2, 2], n_iter_max=1, algorithm="active_set", tol=0).fit_transform(X),
                                                   RandomizedCP(R, 8, n_iter_max=2, svd=SV, random_state=sd, verbose=0, callback=lambda *a: False).fit_transform(X),
                                                   CP_NN(R, n_iter_max=2, normalize_factors=True, svd=SV).fit_transform(X), CP_NN_HALS(R, n_iter_max=1, svd=SV).fit_transform(X),
                                                   Parafac2(R, n_iter_max=2, init="svd", svd=SV).fit_transform([X[0], X[1], X[2]]),
                                                   TensorRingALS([2, 2, 2, 2], n_iter_max=2, random_state=sd, tol=0, ls_solve="normal_eq", callback=lambda *a: False).fit_transform(X),
                                                   TensorRingALSSampled([2, 2, 2, 2], 10, n_iter_max=2, random_state=sd, tol=0, uniform_sampling=True, randomized_error=True, callback=lambda *a: False).fit_transform(X),
                                                   TensorRing([2, 1, 2, 2], mode=1, svd=SV).fit_transform(X), TensorTrain([1, 2, 2, 1], svd=SV).fit_transform(X), TensorTrainMatrix([1, 2, 1], svd=SV).fit_transform(Y),
                                                   Tucker([2, 2, 2], n_iter_max=2, svd=SV, return_errors=True).fit_transform(X), Tucker_NN([2, 2, 2], n_iter_max=2, svd=SV, normalize_factors=True, tol=0).fit_transform(X),
                                                   Tucker_NN_HALS([2, 2, 2], n_iter_max=1, svd=SV, return_errors=True).fit_transform(X)),
           lambda d: (d.X, (d.w, d.fs), d.rs.rand(2, 3, 2, 3).astype(dtype)))
    for cname, kw in [("l2", dict(l2_reg=0.1)), ("l2sq", dict(l2_square_reg=0.1)), ("unimodal", dict(unimodality=True)), ("normalize", dict(normalize=True)), ("simplex", dict(simplex=1.0)),
                      ("normsparse", dict(normalized_sparsity=2)), ("softsparse", dict(soft_sparsity=1.0)), ("smooth", dict(smoothness=0.1)), ("monotone", dict(monotonicity=True)),
                      ("hardsparse", dict(hard_sparsity=3))]:
        simple("ConstrainedCP_class_init_" + cname, lambda X, i, kw=kw: ConstrainedCP(R, n_iter_max=2, n_iter_max_inner=2, init=i, svd=SV, tol_inner=1e-3, tol_outer=1e-6, cvg_criterion="rec_error", return_errors=True, **kw).fit_transform(X),
               lambda d: (d.X, (d.w1, d.fs)))
    simple("options_tr_als_functions", lambda X: (tensor_ring_als(X, [2, 2, 2, 2], n_iter_max=2, random_state=sd, tol=0, ls_solve="normal_eq", callback=lambda *a: False),
                                                 tensor_ring_als_sampled(X, [2, 2, 2, 2], 10, n_iter_max=2, random_state=sd, tol=0, uniform_sampling=True, randomized_error=True, callback=lambda *a: False)), lambda d: (d.X,))
    simple("options_cmtf_user_init", lambda X, Mx, i: (coupled_matrix_tensor_3d_factorization(X, Mx, R, init=i, n_iter_max=2, tol=0, normalize_factors=True)), lambda d: (d.X, d.rs.rand(4, 3).astype(dtype), (d.w1, d.fs)))
    simple("options_robust_pca", lambda X, m: robust_pca(X, mask=m, n_iter_max=3, tol=1e-3, mu_init=1e-3, mu_max=1e3, learning_rate=1.5, return_errors=True, verbose=0), lambda d: (d.X, d.mask))
    simple("options_factorized_methods", lambda cp, t, v, Mx: (cp.mode_dot(v, 1, keep_dim=True, copy=True), cp.mode_dot(Mx, 1, copy=True), t.mode_dot(v, 1, keep_dim=True, copy=True),
                                                              tucker_to_tensor(t, modes=[0, 2]) if False else tucker_to_tensor((t.core, [t.factors[0], t.factors[2]]), modes=[0, 2]),
                                                              tucker_to_unfolded(t, 1, skip_factor=0, transpose_factors=False) if False else tucker_to_unfolded(t, 1, skip_factor=0),
                                                              tucker_to_vec(t, skip_factor=2), tucker_to_unfolded((t.core, [tl.transpose(f) for f in t.factors]), 1, transpose_factors=True), tucker_to_vec((t.core, [tl.transpose(f) for f in t.factors]), transpose_factors=True)), lambda d: (cpt(d), tkt(d), d.vec, d.mat))
    simple("options_cp_method_mode_dot_inplace", lambda cp, v: cp.mode_dot(v, 1, copy=False), lambda d: (cpt(d), d.vec), inplace=[0])
    simple("options_base_and_conversions", lambda X, M2, f, p: (tl.partial_unfold(X, 0, skip_begin=1, skip_end=1), tl.partial_tensor_to_vec(X, skip_begin=1, skip_end=1), partial_fold(M2, 0, (4, 3, 5), skip_begin=1, skip_end=1) if False else partial_fold(tl.partial_unfold(X, 0, skip_begin=1, skip_end=1), 0, (4, 3, 5), skip_begin=1, skip_end=1),
                                                               partial_vec_to_tensor(tl.partial_tensor_to_vec(X, skip_begin=1, skip_end=1), (4, 3, 5), skip_begin=1, skip_end=1),
                                                               tl.partial_unfold(X, 0, skip_begin=2), tl.partial_tensor_to_vec(X, skip_begin=2), partial_fold(tl.partial_unfold(X, 0, skip_begin=2), 0, (4, 3, 5), skip_begin=2),
                                                               partial_vec_to_tensor(tl.partial_tensor_to_vec(X, skip_begin=2), (4, 3, 5), skip_begin=2),
                                                               pad_tt_rank(f, n_padding=2, pad_boundaries=True), parafac2_to_slices(p, validate=False)),
           lambda d: (d.X, d.rs.rand(4, 15).astype(dtype), ttf(d), p2t(d)))
    simple("options_metrics", lambda a, b, A2, B2, fs, fs2: (MSE(A2, B2, axis=0), RMSE(A2, B2, axis=1), correlation(A2, B2, axis=0), reflective_correlation_coefficient(A2, B2, axis=0),
                                                            congruence_coefficient(fs[0], fs2[0], absolute_value=False), correlation_index(fs, fs2, tol=1e-3)),
           lambda d: (d.y, d.y[::-1] + 0.1, d.Y2, d.Y2[::-1] + 0.1, d.fs, [f[:, ::-1] * 2 for f in d.fs]))
    simple("options_random_and_ranks", lambda s, r: (tlr.random_cp(tuple(s), 2, full=True, random_state=sd), tlr.random_cp(tuple(s), 2, orthogonal=True, random_state=sd), tlr.random_tucker(s, r, full=True, random_state=sd),
                                                    tlr.random_tucker(s, r, orthogonal=True, non_negative=True, random_state=sd), tlr.random_tt(s, [1, 2, 2, 1], full=True, random_state=sd), tlr.random_tr(s, [2, 2, 2, 2], full=True, random_state=sd),
                                                    tlr.random_parafac2([(4, 3), (5, 3)], 2, full=True, random_state=sd), tlr.random_parafac2([(4, 3), (5, 3)], 2, normalise_factors=True, random_state=sd),
                                                    tl.validate_cp_rank(s, 0.5, rounding="floor"), tl.validate_tucker_rank(s, 0.5, rounding="ceil"), tl.validate_tt_rank(s, 0.5, rounding="floor", constant_rank=True), tl.validate_tr_rank(s, 0.5, rounding="ceil")),
           lambda d: ([3, 4, 2], [2, 2, 2]))
    simple("options_solver_tolerances", lambda a, b, x: (hals_nnls(a, b, n_iter_max=5, tol=1e-2), fista(a, b, n_iter_max=5, tol=1e-2, epsilon=1e-6), active_set_nnls(a[:, 0], b, x, tol=1e-3)), lambda d: (d.UtM, d.UtU, None))
    simple("options_tenalg_rest", lambda X, Yt, tf, M: (tenalg.inner(X, Yt, n_modes=2), truncated_svd(M, 2), tl.tenalg.svd.randomized_svd(M, 2, n_oversamples=3, n_iter=1, random_state=sd), randomized_range_finder(M, 2, n_iter=1, random_state=sd)),
           lambda d: (d.X, d.rs.rand(3, 5, 2).astype(dtype), d.tf, d.M))
    simple("options_einsum_multi_mode_dot", _einsum(lambda X, tf, mo: tenalg.multi_mode_dot(X, tf, modes=mo, skip=1, transpose=True)), lambda d: (d.X, [d.tf[2], d.tf[0]], [2, 0]))
    simple("options_regressor_tolerances", lambda X, y, Y: (CPRegressor(2, tol=1e-3, random_state=sd, verbose=0, n_iter_max=3).fit(X, y).predict(X), TuckerRegressor([2, 2], tol=1e-3, random_state=sd, verbose=0, n_iter_max=3).fit(X, y).predict(X),
                                                           CP_PLSR(2, n_iter_max=5, tol=1e-3, random_state=sd).fit(X, Y).predict(X), tensor_train_cross(X, [1, 2, 2, 1], tol=1e-2, n_iter_max=3, random_state=sd)),
           lambda d: (d.X, d.y, d.Y2))
    # ---------------------------------------------------------------- round 6: entry points that CATCH exceptions (Corr.C15.try_of: the proved check
    # safe_tryprog is evaluated on (pre, try body, handler, rest); the handler really runs when the solve fails / the modes are scalars /
    # an injected exception lands inside the protected statements)
    TA = ("KTryActiveSet", [0, 1, 2])
    simple("try_active_set_singular_warm", lambda a, b, x: active_set_nnls(a, b, x, n_iter_max=3), lambda d: (asb(d), np.ones((4, 4), dtype=dtype), asx(d)), skel=TA)
    simple("try_active_set_singular_zero_start", lambda a, b, x: active_set_nnls(a, b, x, n_iter_max=3), lambda d: (asb(d), np.zeros((4, 4), dtype=dtype), np.zeros(4, dtype=dtype)), skel=TA)
    simple("try_active_set_nan_gram", lambda a, b, x: active_set_nnls(a, b, x, n_iter_max=2), lambda d: (asb(d), np.full((4, 4), np.nan, dtype=dtype), asx(d)), skel=TA)
    simple("try_active_set_regular", lambda a, b, x: active_set_nnls(a, b, x), lambda d: (asb(d), asU(d), asx(d)), skel=TA)
    simple("try_entropy", lambda M: vonneumann_entropy(M), lambda d: (d.UtU / np.trace(d.UtU),), skel=("KTryEntropy", [0]))
    simple("try_entropy_nan", lambda M: vonneumann_entropy(M), lambda d: (np.full((3, 3), np.nan, dtype=dtype),), skel=("KTryEntropy", [0]))
    # round 8: eigh fails on a NON-symmetric matrix with one non-finite entry: the handler's symmetrisation computes values that differ from the
    # input (an in-place symmetrisation would be visible - on an all-NaN matrix it rewrites identical bytes), then its own eigh raises again and
    # the exception reaches the caller: a handler that raises (Model.EffectsR8.ycmd, Props C15_ycmd_entry_points_frame)
    simple("try_entropy_nan_asymmetric", lambda M: vonneumann_entropy(M), lambda d: (np.array([[1, 2, 0.25], [0, 1, 0], [np.nan, 0.5, 1]], dtype=dtype),), skel=("KTryEntropy", [0]))
    simple("try_matricize_scalar_modes", lambda X, rm, cm: matricize(X, rm, cm), lambda d: (d.X, 1, [0, 2]), skel=("KTryModesToList", [0, 1, 2]))
    simple("try_matricize_list_modes", lambda X, rm, cm: matricize(X, rm, cm), lambda d: (d.X, [1], [2, 0]), skel=("KTryModesToList", [0, 1, 2]))
    simple("try_tensordot_scalar_mode_pair", lambda X, Yt, mo: tenalg.tensordot(X, Yt, modes=mo), lambda d: (d.X, d.rs.rand(3, 5, 2).astype(dtype), (1, 0)))
    simple("try_tt_cross", lambda X, r: tensor_train_cross(X, r, random_state=sd), lambda d: (d.X, [1, 2, 2, 1]), skel=("KTryTtCross", [0, 1]))
    # ---------------------------------------------------------------- round 6: every in-place-style flag of the library, modelled both ways
    # (FLAG_MODEL below; measured per run).  Method forms of the mode products, with their own defaults (CPTensor.mode_dot: copy=True,
    # TuckerTensor.mode_dot: copy=False); the wrapper constructors whose `inplace` flag is unused
    simple("flag_cp_method_mode_dot_default_copy", lambda cp, v: cp.mode_dot(v, 1), lambda d: (cpt(d), d.vec), skel=("KModeDotCopy", [0, 1]))
    simple("flag_cp_method_mode_dot_copy_false_vector", lambda cp, v: cp.mode_dot(v, 1, copy=False), lambda d: (cpt(d), d.vec), inplace=[0], skel=("KModeDotVecInplace", [0, 1]))
    simple("flag_cp_method_mode_dot_copy_false_matrix", lambda cp, Mx: cp.mode_dot(Mx, 1, copy=False), lambda d: (cpt(d), d.mat), inplace=[0], skel=("KModeDotMatInplace", [0, 1]))
    simple("flag_tucker_method_mode_dot_default_vector", lambda t, v: t.mode_dot(v, 1), lambda d: (tkt(d), d.vec), inplace=[0], skel=("KTuckerModeDotVecInplace", [0, 1]))
    simple("flag_tucker_method_mode_dot_default_matrix", lambda t, Mx: t.mode_dot(Mx, 1), lambda d: (tkt(d), d.mat), inplace=[0], skel=("KTuckerModeDotMatInplace", [0, 1]))
    simple("flag_tucker_method_mode_dot_copy_true", lambda t, v: t.mode_dot(v, 1, copy=True), lambda d: (tkt(d), d.vec), skel=("KTuckerModeDotCopy", [0, 1]))
    simple("flag_cp_mode_dot_default_is_inplace", lambda cp, v: cp_mode_dot(cp, v, 1), lambda d: (cpt(d), d.vec), inplace=[0], skel=("KModeDotVecInplace", [0, 1]))
    WC = ("KWrapperCtor", [0])
    simple("flag_tt_ctor_inplace_false", lambda f: TTTensor(f, inplace=False), lambda d: (ttf(d),), skel=WC)
    simple("flag_tt_ctor_inplace_true", lambda f: TTTensor(f, inplace=True), lambda d: (ttf(d),), skel=WC)
    simple("flag_ttm_ctor_inplace_false", lambda g: TTMatrix(g, inplace=False), lambda d: (ttm(d),), skel=WC)
    simple("flag_ttm_ctor_inplace_true", lambda g: TTMatrix(g, inplace=True), lambda d: (ttm(d),), skel=WC)
    simple("flag_tr_ctor", lambda g: TRTensor(g), lambda d: (trf(d),), skel=WC)
    simple("index_update_fail_shape", lambda X, v: tl.index_update(X, tl.index[:, 1], v), lambda d: (d.rs.rand(3, 2).astype(dtype), d.rs.rand(5).astype(dtype) + 2), inplace=[0], skel=("KIndexUpdate", [0, 1]))
    return E


# ============================================================================ option fuzzing of the anchored decompositions
def fuzz_spec(fseed, dtype=np.float64):
    """a random option combination of one anchored decomposition with a USER initialisation; deterministic in fseed
    (configuration name "fuzz:<fseed>").  Arguments: (tensor, init, fixed_modes | sparsity list, mask | fixed_modes)."""
    import tensorly as tl
    from tensorly.decomposition import (parafac, randomised_parafac, non_negative_parafac, non_negative_parafac_hals,
                                        constrained_parafac, tucker, non_negative_tucker, non_negative_tucker_hals, parafac2)
    from tensorly.cp_tensor import CPTensor
    from tensorly.tucker_tensor import TuckerTensor
    from tensorly.parafac2_tensor import Parafac2Tensor
    r = random.Random(fseed)
    rs = np.random.RandomState(fseed % (2 ** 31))
    key = (np.dtype(dtype).str, 0)    # only for the skeleton-name builders stored in the table (cached)
    if key not in _EP_CACHE:
        _EP_CACHE[key] = entry_points(dtype, 0)
    E = _EP_CACHE[key]
    pk = E["parafac_init_tuple"]()["skel"]; hk = E["nn_parafac_hals_init"]()["skel"]; tk = E["tucker_init"]()["skel"]
    algo = r.choice(["parafac", "parafac", "nn_parafac", "nn_parafac_hals", "nn_parafac_hals", "constrained", "tucker", "tucker",
                     "nn_tucker", "nn_tucker_hals", "parafac2", "randomised_parafac"])
    order = r.choice([2, 3, 3, 3, 4])
    shape = tuple(r.randint(2, 4) for _ in range(order))
    R = 2
    X = (rs.rand(*shape) + 0.05).astype(dtype)
    n_iter = r.choice([1, 2, 3, 8])
    wkind = r.choice(["unit", "nonunit", "nonunit", "none"])
    w = {"unit": np.ones(R, dtype=dtype), "nonunit": np.array([2.0, 0.5], dtype=dtype), "none": None}[wkind]
    fs = [(rs.rand(sz, R) + 0.1).astype(dtype) for sz in shape]
    fcont = r.choice([list, tuple])
    ckind = r.choice(["tuple", "list", "obj"])
    modes = list(range(order))
    fixed = r.choice([None, None, [], sorted(r.sample(modes, r.randint(1, order))), tuple(sorted(r.sample(modes, r.randint(1, max(1, order - 1)))))])
    mask = r.choice([None, None, (rs.rand(*shape) > 0.25).astype(dtype)])
    quiet = dict(verbose=0)

    def cp_init():
        if ckind == "obj":
            return CPTensor((np.ones(R, dtype=dtype) if w is None else w, list(fs)))
        return (w, fcont(fs)) if ckind == "tuple" else [w, fcont(fs)]

    skel, inplace = None, ()
    if algo == "parafac":
        opts = dict(n_iter_max=n_iter, normalize_factors=r.random() < 0.3, orthogonalise=r.choice([False, False, True, 2]),
                    tol=r.choice([1e-8, 0, 1e-14]), l2_reg=r.choice([0, 0, 0.2]), linesearch=r.random() < 0.3,
                    sparsity=r.choice([None, None, 0.2, 3]), return_errors=r.random() < 0.3,
                    cvg_criterion=r.choice(["abs_rec_error", "rec_error", "bogus"]),
                    callback=r.choice([None, None, lambda cp, e: False, _Raise(r.randint(1, 3))]))
        fn = lambda X_, i, fm, m: parafac(X_, R, init=i, fixed_modes=fm, mask=m, **opts)
        args = (X, cp_init(), fixed, mask); skel = pk
    elif algo == "randomised_parafac":
        opts = dict(n_iter_max=n_iter, n_samples=r.choice([4, 9]), random_state=fseed % 1000, tol=r.choice([1e-8, 0]), max_stagnation=r.choice([0, 20]))
        fn = lambda X_, i: randomised_parafac(X_, R, init=i, **opts, **quiet)
        args = (X, cp_init())
    elif algo == "nn_parafac":
        opts = dict(n_iter_max=n_iter, normalize_factors=r.random() < 0.4, tol=r.choice([1e-7, 0]), cvg_criterion=r.choice(["abs_rec_error", "rec_error", "bogus"]))
        fn = lambda X_, i, fm, m: non_negative_parafac(X_, R, init=i, fixed_modes=fm, mask=m, **opts)
        args = (X, cp_init(), fixed, mask)
    elif algo == "nn_parafac_hals":
        sc = r.choice([None, None, [r.choice([None, 0.1, 0.3]) for _ in modes], tuple(0.1 for _ in modes)])
        if fixed is not None and order - 1 in fixed and r.random() < 0.5:
            fixed = type(fixed)(m for m in fixed if m != order - 1)
        opts = dict(n_iter_max=min(n_iter, 3), normalize_factors=r.random() < 0.4, tol=r.choice([1e-8, 0]),
                    nn_modes=r.choice(["all", "all", set(r.sample(modes, r.randint(1, order))), None]), cvg_criterion=r.choice(["abs_rec_error", "rec_error", "bogus"]))
        fn = lambda X_, i, sc_, fm: non_negative_parafac_hals(X_, R, init=i, sparsity_coefficients=sc_, fixed_modes=fm, **opts)
        args = (X, cp_init(), sc, fixed); skel = hk
    elif algo == "constrained":
        cons = r.choice([dict(non_negative=True), dict(l1_reg=0.1), dict(l2_reg=0.2), dict(l2_square_reg=0.1), dict(unimodality=True), dict(normalize=True),
                         dict(simplex=1.0), dict(normalized_sparsity=2), dict(soft_sparsity=1.0), dict(smoothness=0.1), dict(monotonicity=True),
                         dict(hard_sparsity=2), dict(non_negative={0: True}, l1_reg={1: 0.1}), dict(l1_reg=[0.1] * order)])
        opts = dict(n_iter_max=min(n_iter, 3), n_iter_max_inner=r.choice([1, 3]), cvg_criterion=r.choice(["abs_rec_error", "rec_error", "bogus"]), **cons)
        fn = lambda X_, i, fm: constrained_parafac(X_, R, init=i, fixed_modes=fm, **opts)
        args = (X, cp_init(), fixed)
    elif algo in ("tucker", "nn_tucker", "nn_tucker_hals"):
        rk = [2] * order
        core = (rs.rand(*rk) + 0.1).astype(dtype)
        tf = [(rs.rand(sz, 2) + 0.1).astype(dtype) for sz in shape]
        if r.random() < 0.3 and algo != "tucker":
            core, tf = -core, [-f for f in tf]
        r7 = random.Random(fseed ^ 0xE517)
        if algo != "tucker" and r7.random() < 0.4:        # round 7: only SOME of the arrays have a negative entry
            flip = [r7.random() < 0.5 for _ in range(order + 1)]
            core = -core if flip[0] else core
            tf = [(-f if fl else f) for f, fl in zip(tf, flip[1:])]
        init = TuckerTensor((core, list(tf))) if ckind == "obj" else ((core, fcont(tf)) if ckind == "tuple" else [core, fcont(tf)])
        if algo == "tucker":
            opts = dict(n_iter_max=n_iter, tol=r.choice([1e-5, 0]))
            ff = r.choice([None, None, None, sorted(r.sample(modes, r.randint(1, order - 1)))])
            if ff is None:
                fn = lambda X_, i, m: tucker(X_, rk, init=i, mask=m, **opts)
                args = (X, init, mask); skel = tk
            else:
                fn = lambda X_, i, m, f_: tucker(X_, rk, init=i, mask=m, fixed_factors=f_, **opts)
                args = (X, init, mask, ff)
        elif algo == "nn_tucker":
            opts = dict(n_iter_max=n_iter, tol=r.choice([1e-4, 0]), normalize_factors=r.random() < 0.4)
            fn = lambda X_, i: non_negative_tucker(X_, rk, init=i, **opts)
            args = (X, init)
            skel = ((lambda a, nz=opts["normalize_factors"], sw=min(n_iter, 3): f"(KNnTuckerN {a[0].ndim}%nat {sw}%nat {C.boolc(nz)} {C.nat_list(range(a[0].ndim))})"), [0, 1])
        else:
            sc = r.choice([None, [r.choice([None, 0.1]) for _ in modes]])
            opts = dict(n_iter_max=min(n_iter, 2), tol=r.choice([1e-8, 0]), normalize_factors=r.random() < 0.4, algorithm=r.choice(["fista", "active_set"]),
                        core_sparsity_coefficient=r.choice([None, 0.1]))
            fn = lambda X_, i, sc_, fm: non_negative_tucker_hals(X_, rk, init=i, sparsity_coefficients=sc_, fixed_modes=fm, **opts)
            args = (X, init, sc, fixed)
            if opts["algorithm"] == "fista":      # round 8: the order-generic skeleton (active_set: a try statement in the callee, fixed order only)
                skel = ((lambda a, nz=opts["normalize_factors"], sw=opts["n_iter_max"]: nn_tucker_hals_kind(a, sw, nz, False)), [0, 1, 2, 3])
    else:   # parafac2
        I = r.randint(2, 3); K = r.randint(3, 4)
        slices = [(rs.rand(r.randint(3, 5), K) + 0.05).astype(dtype) for _ in range(I)]
        A = (rs.rand(I, R) + 0.1).astype(dtype); B = (rs.rand(R, R) + 0.1).astype(dtype); Cm = (rs.rand(K, R) + 0.1).astype(dtype)
        projs = [np.linalg.qr(rs.rand(sl.shape[0], R))[0].astype(dtype) for sl in slices]
        p2 = (np.ones(R, dtype=dtype) if w is None else w, fcont([A, B, Cm]), fcont(projs))
        init = Parafac2Tensor(p2) if ckind == "obj" else (p2 if ckind == "tuple" else list(p2))
        opts = dict(n_iter_max=n_iter, normalize_factors=r.random() < 0.4, tol=r.choice([1e-8, 1e-13]), nn_modes=r.choice([None, None, [0], [0, 2], "all"]),
                    linesearch=r.random() < 0.3, n_iter_parafac=r.choice([1, 3]), return_errors=r.random() < 0.5)
        scont = r.choice([list, tuple])
        fn = lambda sl, i: parafac2(sl, R, init=i, **opts)
        args = (scont(slices), init)
    # round 5: one fuzz case in three goes through the estimator CLASS of the algorithm (same options, passed to the constructor;
    # fit, then a second fit_transform on the same object).  Decided by a separate generator: the option stream above is unchanged.
    if random.Random(fseed ^ 0x5EED).random() < 0.34:
        import inspect
        from tensorly.decomposition import _cp, _nn_cp, _constrained_cp, _tucker, _parafac2
        cname = {"parafac": "CP", "randomised_parafac": "RandomizedCP", "nn_parafac": "CP_NN", "nn_parafac_hals": "CP_NN_HALS", "constrained": "ConstrainedCP",
                 "tucker": "Tucker", "nn_tucker": "Tucker_NN", "nn_tucker_hals": "Tucker_NN_HALS", "parafac2": "Parafac2"}[algo]
        cls = [getattr(m_, cname) for m_ in (_cp, _nn_cp, _constrained_cp, _tucker, _parafac2) if hasattr(m_, cname)][0]
        accepted = set(inspect.signature(cls.__init__).parameters)
        kw = {k: v for k, v in dict(opts, **(quiet if "verbose" in accepted else {})).items() if k in accepted}
        names_by_algo = {"parafac": ("init", "fixed_modes", "mask"), "randomised_parafac": ("init",), "nn_parafac": ("init", "fixed_modes", "mask"),
                         "nn_parafac_hals": ("init", "sparsity_coefficients", "fixed_modes"), "constrained": ("init", "fixed_modes"),
                         "tucker": ("init", "mask", "fixed_factors"), "nn_tucker": ("init",), "nn_tucker_hals": ("init", "sparsity_coefficients", "fixed_modes"),
                         "parafac2": ("init",)}[algo]
        rank_arg = (R,) if algo in ("parafac", "nn_parafac", "nn_parafac_hals", "constrained", "parafac2") else ((R, opts.get("n_samples", 4)) if algo == "randomised_parafac" else (rk,))
        kw.pop("n_samples", None)

        def fn_class(data, *rest):
            est = cls(*rank_arg, **dict(kw, **{n_: v for n_, v in zip(names_by_algo, rest) if n_ in accepted}))
            est.fit(data)
            return est.fit_transform(data), est.decomposition_
        return dict(fn=fn_class, args=args, inplace=set(inplace), skel=skel, ep=f"tensorly:fuzz:{algo}", algo=algo + ":class")
    return dict(fn=fn, args=args, inplace=set(inplace), skel=skel, ep=f"tensorly:fuzz:{algo}", algo=algo)


def nn_tucker_hals_kind(args, sweeps, normalize, cls=False):
    """(X, init, sparsity_coefficients, fixed_modes) -> KNnTuckerHalsN / KNnTuckerHalsClassFit literal: which list entries the code assigns"""
    N = args[0].ndim
    sclen = len(args[2]) if isinstance(args[2], (list, tuple)) else 0
    fixed = list(args[3]) if args[3] is not None else []
    rm = fixed.index(N - 1) if N - 1 in fixed else None          # fixed_modes.remove(ndim - 1) on the copy
    eff = [m for i, m in enumerate(fixed) if i != rm]
    modes = [m for m in range(N) if m not in eff]
    rmlit = "None" if rm is None else f"(Some {int(rm)}%nat)"
    kind = "KNnTuckerHalsClassFit" if cls else "KNnTuckerHalsN"
    return f"({kind} {N}%nat {int(sweeps)}%nat 2%nat {sclen}%nat {len(fixed)}%nat {rmlit} {C.nat_list(eff)} {C.nat_list(modes)} {C.boolc(normalize)})"


# ============================================================================ static extraction of aliasing skeletons (corr:C15-static)
# Python ast -> pcmd term of Model/Effects.v.  Per anchored function: how every local name is bound (fresh result, copy,
# view, list copy, wrapper, element of a container, alias), every statement that assigns into / calls an in-place
# method on a name, data-dependent `if`s as choices, loops over modes unrolled (NMODES), other loops twice, callee
# bodies of the anchored functions inlined; then a backward slice keeps only what can influence a write.
import ast
import os

NMODES = 3
MAXDEPTH = 3


class _Sentinel:
    def __init__(self, name): self.name = name
    def __repr__(self): return self.name
    def __bool__(self): return True
    def __eq__(self, other): return other is self
    def __ne__(self, other): return other is not self
    def __hash__(self): return id(self)


NONNULL = _Sentinel("NONNULL")      # some object that is not None (an array, a list, a callable, a truthy option)
USER = _Sentinel("USER")            # a user-supplied initialisation (tuple / list / wrapper object, not a string)
UNKNOWN = _Sentinel("UNKNOWN")      # leave the parameter free
VIEW_FUNCS = {"transpose", "reshape", "tensor_to_vec", "unfold", "moveaxis", "squeeze", "ravel", "asarray", "to_numpy", "flip",
              "partial_unfold", "partial_tensor_to_vec", "fold", "vec_to_tensor", "partial_fold", "matricize", "swapaxes", "diag", "real", "imag", "T"}
COPY_FUNCS = {"copy"}
LISTCOPY_FUNCS = {"list", "tuple", "sorted", "reversed"}
WRAPPERS = {"CPTensor", "TuckerTensor", "Parafac2Tensor", "TTTensor", "TRTensor", "TTMatrix"}
ATTR_INDEX = {"weights": 0, "core": 0, "factors": 1, "projections": 2}
LIST_STORE_METHODS = {"append", "insert", "extend", "add"}
LIST_WRITE_METHODS = {"remove", "clear", "sort", "reverse", "fill", "resize", "put", "itemset", "partition", "setfield", "update", "discard"}
INPLACE_CALLS = {"index_update", "copyto", "fill_diagonal", "put", "place", "putmask"}


class Scope:
    def __init__(self, fdef, consts, depth, local_funcs=None):
        self.vars, self.consts, self.depth, self.fname = {}, dict(consts), depth, fdef.name
        a = fdef.args
        self.params = [x.arg for x in a.posonlyargs + a.args + a.kwonlyargs]
        for p in self.params:
            self.var(p)
        self.null = self.var("<null>")
        self.ret = self.var("<ret>")
        self.local_funcs = dict(local_funcs or {})
        self.ntmp = 0

    def var(self, name):
        if name not in self.vars:
            self.vars[name] = len(self.vars)
        return self.vars[name]

    def tmp(self):
        self.ntmp += 1
        return self.var(f"<t{self.ntmp}>")


SKIP = ("seq", ())


def seqn(*nodes):
    out = []
    for n in nodes:
        if n[0] == "seq":
            out.extend(n[1])
        else:
            out.append(n)
    return ("seq", tuple(out))


def prim(*c):
    return ("prim", c)


# callee summaries used when an anchored solver is CALLED from another anchored function (its own body is analysed as a
# separate static case with exactly these flags): (parameter positions written in place, what the result may alias)
SUMMARIES = {"hals_nnls": ((2,), (2,)), "fista": ((), (2,)), "active_set_nnls": ((), (2,)), "admm": ((), (2, 3))}


class Extractor:
    def __init__(self, repo, repeat=2):
        self.repeat = repeat
        self.funcs, self.unresolved, self.stats = {}, [], {}
        root = os.path.join(repo, "tensorly")
        for dp, dn, fn in os.walk(root):
            if any(x in dp for x in ("tests", "datasets", "plugins", "backend")):
                continue
            for f in fn:
                if not f.endswith(".py") or f.startswith("test_"):
                    continue
                try:
                    tree = ast.parse(open(os.path.join(dp, f)).read())
                except Exception:
                    continue
                for node in tree.body:
                    if isinstance(node, ast.FunctionDef):
                        self.funcs.setdefault(node.name, node)
                    elif isinstance(node, ast.ClassDef):
                        for m in node.body:
                            if isinstance(m, ast.FunctionDef):
                                self.funcs.setdefault(f"{node.name}.{m.name}", m)
        self.scope_counter = 0
        self.attr_slots = {}       # receiver-object mode: attribute name -> slot of the receiver cell

    # ------------------------------------------------------------------ helpers
    def note(self, what):
        self.unresolved.append(what)

    def const_of(self, sc, node):
        """('c', value) if the expression is a known constant, else None"""
        if isinstance(node, ast.Constant):
            return ("c", node.value)
        if isinstance(node, ast.Name) and node.id in sc.consts:
            return ("c", sc.consts[node.id])
        if isinstance(node, ast.Attribute) and isinstance(node.value, ast.Name) and node.value.id == "self" and ("self." + node.attr) in getattr(sc, "consts", {}):
            return ("c", sc.consts["self." + node.attr])
        if isinstance(node, ast.UnaryOp) and isinstance(node.op, ast.USub):
            c = self.const_of(sc, node.operand)
            if c and isinstance(c[1], (int, float)):
                return ("c", -c[1])
        if isinstance(node, ast.UnaryOp) and isinstance(node.op, ast.Not):
            c = self.const_of(sc, node.operand)
            if c:
                return ("c", not c[1])
        if isinstance(node, ast.BinOp) and isinstance(node.op, (ast.Add, ast.Sub)):
            a, b = self.const_of(sc, node.left), self.const_of(sc, node.right)
            if a and b and isinstance(a[1], int) and isinstance(b[1], int):
                return ("c", a[1] + b[1] if isinstance(node.op, ast.Add) else a[1] - b[1])
        if isinstance(node, ast.Compare) and len(node.ops) == 1:
            a, b = self.const_of(sc, node.left), self.const_of(sc, node.comparators[0])
            if a and b:
                op = node.ops[0]
                try:
                    if isinstance(op, ast.Is): return ("c", a[1] is b[1])
                    if isinstance(op, ast.IsNot): return ("c", a[1] is not b[1])
                    if isinstance(op, ast.Eq): return ("c", a[1] == b[1])
                    if isinstance(op, ast.NotEq): return ("c", a[1] != b[1])
                    if isinstance(op, ast.Lt): return ("c", a[1] < b[1])
                    if isinstance(op, ast.Gt): return ("c", a[1] > b[1])
                    if isinstance(op, ast.LtE): return ("c", a[1] <= b[1])
                    if isinstance(op, ast.GtE): return ("c", a[1] >= b[1])
                except Exception:
                    return None
        if isinstance(node, ast.Call) and isinstance(node.func, ast.Name) and node.func.id == "isinstance" and len(node.args) == 2:
            c = self.const_of(sc, node.args[0])
            if c is not None:
                names = {n.id for n in ast.walk(node.args[1]) if isinstance(n, ast.Name)} | {n.attr for n in ast.walk(node.args[1]) if isinstance(n, ast.Attribute)}
                v = c[1]
                if v is USER:
                    return ("c", bool(names & {"tuple", "list", "CPTensor", "TuckerTensor", "Parafac2Tensor"}))
                if v is None or isinstance(v, (bool, int, float, str)):
                    pyt = {"str": str, "int": int, "float": float, "bool": bool}
                    return ("c", any(isinstance(v, pyt[n]) for n in names if n in pyt) if v is not None else False)
        if isinstance(node, ast.BoolOp):
            cs = [self.const_of(sc, v) for v in node.values]
            if all(cs):
                vals = [c[1] for c in cs]
                return ("c", all(vals) if isinstance(node.op, ast.And) else any(vals))
            if isinstance(node.op, ast.And) and any(c and not c[1] for c in cs):
                return ("c", False)
            if isinstance(node.op, ast.Or) and any(c and c[1] for c in cs):
                return ("c", True)
        return None

    def index_of(self, sc, node):
        c = self.const_of(sc, node)
        if c and isinstance(c[1], int) and not isinstance(c[1], bool):
            return c[1] if c[1] >= 0 else max(NMODES + c[1], 0)
        return None

    @staticmethod
    def is_scalar_tuple_index(node):
        """x[i, j]: one element of an array (a NumPy scalar: immutable, no view)"""
        return isinstance(node, ast.Tuple) and all(isinstance(e, (ast.Name, ast.Constant, ast.BinOp, ast.UnaryOp)) and
                                                   not (isinstance(e, ast.Constant) and e.value in (Ellipsis, None)) for e in node.elts)

    @staticmethod
    def is_slice_index(node):
        if isinstance(node, (ast.Slice, ast.Tuple)):
            return True
        if isinstance(node, ast.Constant) and node.value is Ellipsis:
            return True
        if isinstance(node, ast.Subscript):      # tl.index[...]
            return True
        if isinstance(node, ast.Compare):        # boolean mask
            return True
        return False

    @staticmethod
    def call_name(node):
        f = node.func
        parts = []
        while isinstance(f, ast.Attribute):
            parts.append(f.attr)
            f = f.value
        if isinstance(f, ast.Name):
            parts.append(f.id)
            return list(reversed(parts))
        return None

    def self_var(self, sc, node):
        """pseudo variable of self.attr (estimator objects are configuration holders: their attributes are locals)"""
        if isinstance(node, ast.Attribute) and isinstance(node.value, ast.Name) and node.value.id == "self" and "self" in sc.params:
            return sc.var("self." + node.attr)
        return None

    def base_var(self, sc, node, out):
        """variable holding the container / array denoted by `node` (evaluated into a temporary when needed)"""
        if isinstance(node, ast.Name):
            if node.id in sc.vars or node.id not in sc.consts:
                return sc.var(node.id)
        sv = self.self_var(sc, node)
        if sv is not None and not (sc.consts.get("__self__") == "object" and ("self." + node.attr) not in getattr(sc, "self_assigned", set())):
            return sv
        t = sc.tmp()
        out.append(self.expr_to(sc, t, node))
        return t

    # ------------------------------------------------------------------ expressions
    def expr_to(self, sc, t, node):
        """pcmd node assigning the value of the expression to variable t"""
        out = []
        if isinstance(node, ast.Name):
            if node.id in sc.consts and sc.consts[node.id] is None:
                return prim("Rebind", t, sc.null)
            if node.id in sc.vars:
                return prim("Rebind", t, sc.vars[node.id])
            return prim("Alloc", t)                      # module-level name / loop constant
        if isinstance(node, ast.Constant):
            return prim("Rebind", t, sc.null) if node.value is None else prim("Alloc", t)
        if isinstance(node, (ast.Tuple, ast.List)):
            ys = []
            for e in node.elts:
                if isinstance(e, ast.Starred):
                    e = e.value
                ys.append(self.base_var(sc, e, out))
            out.append(prim("ListNew", t, tuple(ys)))
            return seqn(*out)
        if isinstance(node, (ast.ListComp, ast.GeneratorExp, ast.SetComp)):
            return self.comprehension(sc, t, node)
        if isinstance(node, ast.IfExp):
            c = self.const_of(sc, node.test)
            if c:
                return self.expr_to(sc, t, node.body if c[1] else node.orelse)
            return ("choice", self.expr_to(sc, t, node.body), self.expr_to(sc, t, node.orelse))
        if isinstance(node, ast.BoolOp) and isinstance(node.op, ast.Or):
            r = self.expr_to(sc, t, node.values[-1])
            for v in reversed(node.values[:-1]):
                r = ("choice", self.expr_to(sc, t, v), r)
            return r
        if isinstance(node, ast.Attribute):
            sv = self.self_var(sc, node)
            if sv is not None:
                # round 6, receiver-object mode (option set key "__self__"): an attribute that this method has not assigned yet is READ
                # FROM THE RECEIVER (a reference the caller's estimator holds: protected); assignments to self.attr stay local
                # rebindings (the receiver of fit / fit_transform is documented as updated)
                if sc.consts.get("__self__") == "object" and ("self." + node.attr) not in getattr(sc, "self_assigned", set()):
                    idx = self.attr_slots.setdefault(node.attr, len(self.attr_slots))
                    return prim("ListGet", t, sc.var("self"), idx)
                return prim("Rebind", t, sv)
            if node.attr == "T":
                y = self.base_var(sc, node.value, out)
                out.append(prim("View", t, y)); return seqn(*out)
            if node.attr in ATTR_INDEX:
                y = self.base_var(sc, node.value, out)
                out.append(prim("ListGet", t, y, ATTR_INDEX[node.attr])); return seqn(*out)
            return prim("Alloc", t)
        if isinstance(node, ast.Subscript):
            if self.is_scalar_tuple_index(node.slice):
                return prim("Alloc", t)
            y = self.base_var(sc, node.value, out)
            if self.is_slice_index(node.slice):
                out.append(prim("View", t, y)); return seqn(*out)
            i = self.index_of(sc, node.slice)
            if i is not None:
                out.append(prim("ListGet", t, y, i)); return seqn(*out)
            self.note("index")
            r = prim("ListGet", t, y, NMODES - 1)
            for k in range(NMODES - 2, -1, -1):
                r = ("choice", prim("ListGet", t, y, k), r)
            out.append(r); return seqn(*out)
        if isinstance(node, ast.BinOp):
            if isinstance(node.op, ast.Add) and (isinstance(node.right, ast.List) or isinstance(node.left, ast.List)):
                lst, other = (node.right, node.left) if isinstance(node.right, ast.List) else (node.left, node.right)
                y = self.base_var(sc, other, out)
                out.append(prim("ListCopy", t, y, NMODES))
                for e in lst.elts:
                    v = self.base_var(sc, e, out)
                    out.append(prim("ListAppend", t, v))
                return seqn(*out)
            if isinstance(node.op, ast.Mult) and isinstance(node.left, ast.List) and len(node.left.elts) == 1:
                v = self.base_var(sc, node.left.elts[0], out)
                out.append(prim("ListNew", t, (v,) * NMODES)); return seqn(*out)
            return prim("Alloc", t)
        if isinstance(node, ast.Call):
            return self.call(sc, t, node)
        if isinstance(node, ast.NamedExpr):
            r = self.expr_to(sc, t, node.value)
            return seqn(r, self.store(sc, node.target, t))
        if isinstance(node, ast.Starred):
            return self.expr_to(sc, t, node.value)
        return prim("Alloc", t)

    def iter_items(self, sc, gen_target, it, k, out):
        """bind the loop target(s) for iteration k of `for target in it`; returns extra consts"""
        consts = {}
        name = self.call_name(it) if isinstance(it, ast.Call) else None
        if name and name[-1] == "range":
            if isinstance(gen_target, ast.Name):
                consts[gen_target.id] = k
            return consts
        if name and name[-1] == "enumerate" and isinstance(gen_target, ast.Tuple) and len(gen_target.elts) == 2:
            if isinstance(gen_target.elts[0], ast.Name):
                consts[gen_target.elts[0].id] = k
            y = self.base_var(sc, it.args[0], out)
            tv = sc.tmp()
            out.append(prim("ListGet", tv, y, k))
            out.append(self.store(sc, gen_target.elts[1], tv))
            return consts
        if name and name[-1] == "zip" and isinstance(gen_target, ast.Tuple) and len(gen_target.elts) == len(it.args):
            for e, a in zip(gen_target.elts, it.args):
                y = self.base_var(sc, a, out)
                tv = sc.tmp()
                out.append(prim("ListGet", tv, y, k))
                out.append(self.store(sc, e, tv))
            return consts
        # a container (or a list of modes): the k-th element; a Name target is also treated as the constant k when it is
        # only a mode index (lists of ints hold no references: reading them is harmless)
        y = self.base_var(sc, it, out)
        tv = sc.tmp()
        out.append(prim("ListGet", tv, y, k))
        out.append(self.store(sc, gen_target, tv))
        if isinstance(gen_target, ast.Name):
            consts[gen_target.id] = ("maybe", k)
        return consts

    def comprehension(self, sc, t, node):
        out = []
        if len(node.generators) != 1:
            return prim("Alloc", t)
        g = node.generators[0]
        saved = dict(sc.consts)
        items = []
        for k in range(NMODES):
            extra = self.iter_items(sc, g.target, g.iter, k, out)
            for n_, v in extra.items():
                sc.consts[n_] = v[1] if isinstance(v, tuple) else v
            skip = False
            for cond in g.ifs:
                c = self.const_of(sc, cond)
                if c and not c[1]:
                    skip = True
            if not skip:
                tv = sc.tmp()
                out.append(self.expr_to(sc, tv, node.elt))
                items.append(tv)
            sc.consts = dict(saved)
        out.append(prim("ListNew", t, tuple(items)))
        return seqn(*out)

    def call(self, sc, t, node):
        out = []
        name = self.call_name(node)
        for kw in node.keywords:
            if kw.arg == "out":
                y = self.base_var(sc, kw.value, out)
                out.append(prim("WriteInto", y))
        if name is None:
            return seqn(*out, prim("Alloc", t))
        last = name[-1]
        # method call on a local object
        if len(name) == 2 and (name[0] in sc.vars) and name[0] not in ("tl", "T", "np", "self"):
            y = sc.vars[name[0]]
            if last in LIST_STORE_METHODS and node.args:
                v = self.base_var(sc, node.args[-1], out)
                out.append(prim("ListAppend", y, v)); out.append(prim("Alloc", t)); return seqn(*out)
            if last == "pop":
                i = self.index_of(sc, node.args[0]) if node.args else NMODES - 1
                out.append(prim("ListGet", t, y, i if i is not None else 0))
                out.append(prim("ListRemove", y) if node.args else prim("ListPop", y)); return seqn(*out)
            if last in LIST_WRITE_METHODS:
                out.append(prim("ListRemove", y)); out.append(prim("Alloc", t)); return seqn(*out)
            if last == "copy":
                out.append(prim("ListCopy", t, y, NMODES)); return seqn(*out)
            if last in ("cp_copy", "tucker_copy"):
                out.append(prim("Alloc", t)); return seqn(*out)
            if last in VIEW_FUNCS:
                out.append(prim("View", t, y)); return seqn(*out)
            out.append(prim("Alloc", t)); return seqn(*out)
        if len(name) == 3 and name[0] == "self" and "self" in sc.params:     # self.attr.method(...)
            if sc.consts.get("__self__") == "object" and ("self." + name[1]) not in getattr(sc, "self_assigned", set()):
                y = sc.tmp()        # receiver-object mode: the object the receiver holds
                out.append(prim("ListGet", y, sc.var("self"), self.attr_slots.setdefault(name[1], len(self.attr_slots))))
            else:
                y = sc.var("self." + name[1])
            if last in LIST_STORE_METHODS and node.args:
                v = self.base_var(sc, node.args[-1], out)
                out.append(prim("ListAppend", y, v))
            elif last in LIST_WRITE_METHODS or last == "pop":
                out.append(prim("ListRemove", y))
            out.append(prim("Alloc", t)); return seqn(*out)
        if last in INPLACE_CALLS and node.args:
            y = self.base_var(sc, node.args[0], out)
            out.append(prim("WriteInto", y)); out.append(prim("Rebind", t, y)); return seqn(*out)
        if last in COPY_FUNCS and node.args:
            y = self.base_var(sc, node.args[0], out)
            out.append(prim("Copy", t, y)); return seqn(*out)
        if last in VIEW_FUNCS and node.args:
            y = self.base_var(sc, node.args[0], out)
            out.append(prim("View", t, y)); return seqn(*out)
        if last in LISTCOPY_FUNCS and len(name) == 1 and node.args:
            y = self.base_var(sc, node.args[0], out)
            out.append(prim("ListCopy", t, y, NMODES)); return seqn(*out)
        if len(name) == 2 and name[0] in WRAPPERS and node.args:      # alternative constructors (Parafac2Tensor.from_CPTensor): may wrap / return the argument
            y = self.base_var(sc, node.args[0], out)
            out.append(("choice", prim("Rebind", t, y), prim("ListCopy", t, y, 3))); return seqn(*out)
        if last in WRAPPERS and node.args:
            a = node.args[0]
            if isinstance(a, (ast.Tuple, ast.List)):
                out.append(self.expr_to(sc, t, a)); return seqn(*out)
            y = self.base_var(sc, a, out)
            out.append(prim("ListCopy", t, y, 3)); return seqn(*out)
        if last in SUMMARIES and sc.depth >= 0 and last != sc.fname:
            fd = self.funcs.get(last)
            if fd is not None:
                a = fd.args
                params = [x.arg for x in a.posonlyargs + a.args + a.kwonlyargs]
                given = {}
                for i, e in enumerate(node.args):
                    if i < len(params) and not isinstance(e, ast.Starred):
                        given[i] = e
                for kw in node.keywords:
                    if kw.arg in params:
                        given[params.index(kw.arg)] = kw.value
                writes, aliases = SUMMARIES[last]
                for i in writes:
                    if i in given:
                        y = self.base_var(sc, given[i], out); out.append(prim("WriteInto", y))
                r = prim("Alloc", t)
                for i in aliases:
                    if i in given and not (self.const_of(sc, given[i]) or (None, 1))[1] is None:
                        y = self.base_var(sc, given[i], out)
                        r = ("choice", prim("Rebind", t, y), r)
                out.append(r)
                return seqn(*out)
        fdef = sc.local_funcs.get(last) if len(name) == 1 else None
        if fdef is None and (len(name) == 1 or name[0] in ("tl", "T", "tenalg")) and last in self.inline:
            fdef = self.funcs.get(last)
        if fdef is not None and sc.depth < MAXDEPTH:
            return self.inline_call(sc, t, node, fdef, out)
        out.append(prim("Alloc", t))
        return seqn(*out)

    def inline_call(self, sc, t, node, fdef, out):
        a = fdef.args
        params = [x.arg for x in a.posonlyargs + a.args + a.kwonlyargs]
        defaults = {}
        pos = a.posonlyargs + a.args
        for p, d in zip(pos[len(pos) - len(a.defaults):], a.defaults):
            defaults[p.arg] = d
        for p, d in zip(a.kwonlyargs, a.kw_defaults):
            if d is not None:
                defaults[p.arg] = d
        given = {}
        for i, e in enumerate(node.args):
            if isinstance(e, ast.Starred) or i >= len(params):
                continue
            given[params[i]] = e
        dynamic = False
        for kw in node.keywords:
            if kw.arg is None:
                dynamic = True
            elif kw.arg in params:
                given[kw.arg] = kw.value
        consts, argvars = {}, []
        for p in params:
            if p in given:
                c = self.const_of(sc, given[p])
                if c is not None and (c[1] is None or isinstance(c[1], (bool, int, str, float, _Sentinel))):
                    consts[p] = c[1]
                    argvars.append(sc.null if c[1] is None else self.base_var(sc, given[p], out))
                else:
                    argvars.append(self.base_var(sc, given[p], out))
            else:
                if p in defaults and not dynamic:
                    c = self.const_of(Scope.__new__(Scope), defaults[p]) if isinstance(defaults[p], ast.Constant) else None
                    if c is not None:
                        consts[p] = c[1]
                argvars.append(sc.null)
        body, csc = self.function(fdef, consts, sc.depth + 1, sc.local_funcs)
        out.append(("call", t, body, tuple(argvars), csc.ret, self.new_scope_id(), csc.null))
        return seqn(*out)

    def new_scope_id(self):
        self.scope_counter += 1
        return self.scope_counter

    # ------------------------------------------------------------------ stores
    def store(self, sc, target, v):
        """pcmd node storing variable v into the target"""
        out = []
        if isinstance(target, ast.Name):
            sc.consts.pop(target.id, None)
            return prim("Rebind", sc.var(target.id), v)
        if isinstance(target, (ast.Tuple, ast.List)):
            for i, e in enumerate(target.elts):
                if isinstance(e, ast.Starred):
                    e = e.value
                tv = sc.tmp()
                out.append(prim("ListGet", tv, v, i))
                out.append(self.store(sc, e, tv))
            return seqn(*out)
        if isinstance(target, ast.Attribute):
            sv = self.self_var(sc, target)
            if sv is not None:
                if not hasattr(sc, "self_assigned"):
                    sc.self_assigned = set()
                sc.self_assigned.add("self." + target.attr)
                return prim("Rebind", sv, v)
            y = self.base_var(sc, target.value, out)
            if target.attr in ("shape", "rank"):          # tuples of ints: no references inside
                v = sc.tmp(); out.append(prim("Alloc", v))
            out.append(prim("ListSet", y, ATTR_INDEX.get(target.attr, 3), v))
            return seqn(*out)
        if isinstance(target, ast.Subscript):
            y = self.base_var(sc, target.value, out)
            if self.is_slice_index(target.slice):
                out.append(prim("WriteInto", y)); return seqn(*out)
            i = self.index_of(sc, target.slice)
            if i is None:
                self.note("store index"); i = 0
            out.append(prim("ListSet", y, i, v))
            return seqn(*out)
        return SKIP

    # ------------------------------------------------------------------ statements (continuation passing for return / raise)
    @staticmethod
    def has_exit(stmts):
        for s in stmts:
            for n in ast.walk(s):
                if isinstance(n, (ast.Return, ast.Raise)):
                    return True
        return False

    def block(self, sc, stmts, k, in_loop=False):
        """pcmd of the statement list followed by continuation k (a pcmd node; SKIP = nothing)"""
        if not stmts:
            return k
        s, rest = stmts[0], stmts[1:]
        if isinstance(s, ast.Return):
            if in_loop:
                self.note("return in loop")
            if s.value is None:
                return prim("Rebind", sc.ret, sc.null)
            return self.expr_to(sc, sc.ret, s.value)
        if isinstance(s, ast.Raise):
            return SKIP
        if isinstance(s, ast.If):
            c = self.const_of(sc, s.test)
            if c is not None:
                return self.block(sc, list(s.body if c[1] else s.orelse) + list(rest), k, in_loop)
            saved = dict(sc.consts)
            if self.has_exit([s]) and not in_loop:
                kk = self.block(sc, rest, k, in_loop)          # shared continuation (a DAG)
                after = dict(sc.consts)
                sc.consts = dict(saved); a = self.block(sc, s.body, kk, in_loop)
                sc.consts = dict(saved); b = self.block(sc, s.orelse, kk, in_loop)
                sc.consts = {n: v for n, v in after.items() if n in saved}
                return ("choice", a, b)
            a = self.block(sc, s.body, SKIP, in_loop); ca = dict(sc.consts)
            sc.consts = dict(saved); b = self.block(sc, s.orelse, SKIP, in_loop)
            sc.consts = {n: v for n, v in sc.consts.items() if ca.get(n, object()) == v}
            return seqn(("choice", a, b), self.block(sc, rest, k, in_loop))
        if isinstance(s, ast.Try):
            # the protected statements are part of the statement stream (a `return` inside them ends the path); a handler
            # runs instead of them (approximation: from the state at the entry of the try)
            saved = dict(sc.consts)
            main = self.block(sc, list(s.body) + list(s.orelse) + list(s.finalbody) + list(rest), k, in_loop)
            after = dict(sc.consts)
            # round 5 (cf. Props C15_frame_try): the handler may also run after any PREFIX of the protected statements - whatever they
            # bound or wrote is then in place (statement granularity; at most 8 protected statements, otherwise entry and end only;
            # thorough tier only - in the quick tier the handler runs from the state at the entry of the try)
            cuts = (list(range(len(s.body) + 1)) if len(s.body) <= 8 else [0, len(s.body)]) if getattr(self, "try_prefixes", False) else [0]
            for hd in s.handlers:
                for cut in cuts:
                    sc.consts = dict(saved)
                    alt = self.block(sc, list(s.body[:cut]) + list(hd.body) + list(s.finalbody) + list(rest), k, in_loop)
                    main = ("choice", main, alt)
            sc.consts = {n: v for n, v in after.items() if n in saved and saved[n] == v}
            return main
        node = self.stmt(sc, s)
        return seqn(node, self.block(sc, rest, k, in_loop))

    def uses_as_index(self, body, name):
        for s in body:
            for n in ast.walk(s):
                if isinstance(n, ast.Subscript) and not isinstance(n.slice, (ast.Tuple, ast.Slice)) and \
                        any(isinstance(m, ast.Name) and m.id == name for m in ast.walk(n.slice)):
                    return True
                if isinstance(n, ast.Compare) and any(isinstance(m, ast.Name) and m.id == name for m in ast.walk(n)) and \
                        not any(isinstance(m, ast.Constant) and isinstance(m.value, int) for m in ast.walk(n)):
                    return True          # `i != mode`, `mode in fixed_modes` (not `iteration >= 1`, `iteration % 2 == 0`)
                if isinstance(n, ast.keyword) and n.arg in ("mode", "skip", "skip_matrix") and isinstance(n.value, ast.Name) and n.value.id == name:
                    return True
        return False

    def stmt(self, sc, s):
        out = []
        if isinstance(s, ast.Assign):
            if len(s.targets) == 1 and isinstance(s.targets[0], (ast.Tuple, ast.List)) and isinstance(s.value, (ast.Tuple, ast.List)) \
                    and len(s.targets[0].elts) == len(s.value.elts) and not any(isinstance(e, ast.Starred) for e in s.targets[0].elts + s.value.elts):
                tmps = []
                for e in s.value.elts:                      # a, b = x, y : element-wise (no tuple is built)
                    tv = sc.tmp(); out.append(self.expr_to(sc, tv, e)); tmps.append(tv)
                for tgt, tv in zip(s.targets[0].elts, tmps):
                    out.append(self.store(sc, tgt, tv))
                return seqn(*out)
            if len(s.targets) == 1 and isinstance(s.targets[0], ast.Name):
                c = self.const_of(sc, s.value)
                r = self.expr_to(sc, sc.var(s.targets[0].id), s.value)
                sc.consts.pop(s.targets[0].id, None)
                if c is not None and (c[1] is None or isinstance(c[1], (bool, int, str))):
                    sc.consts[s.targets[0].id] = c[1]
                return r
            tv = sc.tmp()
            out.append(self.expr_to(sc, tv, s.value))
            for tgt in s.targets:
                out.append(self.store(sc, tgt, tv))
            return seqn(*out)
        if isinstance(s, ast.AnnAssign) and s.value is not None:
            tv = sc.tmp(); out.append(self.expr_to(sc, tv, s.value)); out.append(self.store(sc, s.target, tv)); return seqn(*out)
        if isinstance(s, ast.AugAssign):
            tgt = s.target
            if isinstance(tgt, ast.Name):
                sc.consts.pop(tgt.id, None)
                return prim("InplaceOp", sc.var(tgt.id))
            sv = self.self_var(sc, tgt)
            if sv is not None:
                return prim("InplaceOp", sv)
            if isinstance(tgt, ast.Subscript):
                y = self.base_var(sc, tgt.value, out)
                if self.is_slice_index(tgt.slice):
                    out.append(prim("WriteInto", y)); return seqn(*out)
                i = self.index_of(sc, tgt.slice)
                if i is None:
                    self.note("augassign index"); i = 0
                tv = sc.tmp()
                out += [prim("ListGet", tv, y, i), prim("InplaceOp", tv), prim("ListSet", y, i, tv)]
                return seqn(*out)
            if isinstance(tgt, ast.Attribute):
                y = self.base_var(sc, tgt.value, out); tv = sc.tmp(); i = ATTR_INDEX.get(tgt.attr, 3)
                out += [prim("ListGet", tv, y, i), prim("InplaceOp", tv), prim("ListSet", y, i, tv)]
                return seqn(*out)
            return SKIP
        if isinstance(s, ast.Expr):
            if isinstance(s.value, ast.Call):
                return self.expr_to(sc, sc.tmp(), s.value)
            return SKIP
        if isinstance(s, ast.For):
            it = s.iter
            name = self.call_name(it) if isinstance(it, ast.Call) else None
            tnames = [n.id for n in ast.walk(s.target) if isinstance(n, ast.Name)]
            unroll = (name and name[-1] in ("enumerate", "zip")) or any(self.uses_as_index(s.body, n) for n in tnames) \
                or (isinstance(it, ast.Name) and not (name and name[-1] == "range"))
            if name and name[-1] == "range" and not any(self.uses_as_index(s.body, n) for n in tnames):
                unroll = False
            saved = dict(sc.consts)
            if unroll:
                for k in range(NMODES):
                    extra = self.iter_items(sc, s.target, it, k, out)
                    for n_, v in extra.items():
                        sc.consts[n_] = v[1] if isinstance(v, tuple) else v
                    out.append(self.block(sc, s.body, SKIP, True))
                    sc.consts = {n: v for n, v in sc.consts.items() if n in saved and saved[n] == v}
                return seqn(*out)
            for n_ in tnames:
                sc.consts.pop(n_, None)
            pre = []
            if not (name and name[-1] == "range"):
                extra = self.iter_items(sc, s.target, it, 0, pre)
            assigned = {n.id for st in s.body for n in ast.walk(st) if isinstance(n, ast.Name) and isinstance(n.ctx, ast.Store)}
            for n_ in assigned | set(tnames):
                sc.consts.pop(n_, None)
            body = seqn(*pre, self.block(sc, s.body, SKIP, True))
            for n_ in assigned | set(tnames):
                sc.consts.pop(n_, None)
            return seqn(*out, ("repeat", self.repeat, body))
        if isinstance(s, ast.While):
            assigned = {n.id for st in s.body for n in ast.walk(st) if isinstance(n, ast.Name) and isinstance(n.ctx, ast.Store)}
            for n_ in assigned:
                sc.consts.pop(n_, None)
            body = self.block(sc, s.body, SKIP, True)
            for n_ in assigned:
                sc.consts.pop(n_, None)
            return ("repeat", self.repeat, body)
        if isinstance(s, ast.With):
            return self.block(sc, s.body, SKIP, True)
        if isinstance(s, ast.Try):
            body = self.block(sc, s.body, SKIP, True)
            hs = SKIP
            for h in s.handlers:
                hs = ("choice", hs, self.block(sc, h.body, SKIP, True))
            return seqn(body, hs, self.block(sc, s.orelse, SKIP, True), self.block(sc, s.finalbody, SKIP, True))
        if isinstance(s, ast.FunctionDef):
            sc.local_funcs[s.name] = s
            return SKIP
        if isinstance(s, ast.Delete):
            for tgt in s.targets:
                if isinstance(tgt, ast.Subscript):
                    y = self.base_var(sc, tgt.value, out); out.append(prim("ListRemove", y))
            return seqn(*out)
        return SKIP

    def function(self, fdef, consts, depth, local_funcs=None, use_defaults=False):
        if use_defaults:
            a = fdef.args
            pos = a.posonlyargs + a.args
            dft = {p.arg: d for p, d in zip(pos[len(pos) - len(a.defaults):], a.defaults)}
            dft.update({p.arg: d for p, d in zip(a.kwonlyargs, a.kw_defaults) if d is not None})
            full = {p: d.value for p, d in dft.items() if isinstance(d, ast.Constant)}
            full.update(consts)
            consts = {p: v for p, v in full.items() if v is not UNKNOWN}
        sc = Scope(fdef, consts, depth, local_funcs)
        body = self.block(sc, list(fdef.body), SKIP)
        return body, sc


# ---------------------------------------------------------------------------- backward slice, simplification, printing
WRITES = {"WriteInto": (0,), "InplaceOp": (0,), "ListSet": (0, 2), "ListAppend": (0, 1), "ListRemove": (0,), "ListPop": (0,)}
SOURCES = {"View": (1,), "Rebind": (1,), "ListCopy": (1,), "ListGet": (1,), "Copy": (), "Alloc": ()}


def slice_term(root):
    prims, calls, seen = [], [], set()

    def walk(n, sc):
        key = (id(n), sc)
        if key in seen:
            return
        seen.add(key)
        if n[0] == "prim":
            prims.append((sc, n[1]))
        elif n[0] == "seq":
            for m in n[1]:
                walk(m, sc)
        elif n[0] == "choice":
            walk(n[1], sc); walk(n[2], sc)
        elif n[0] == "repeat":
            walk(n[2], sc)
        elif n[0] == "call":
            calls.append((sc, n))
            walk(n[2], n[5])
    walk(root, 0)
    R = set()
    soft = lambda c: c[-1] == "soft"
    for sc, c in prims:
        if c[0] in WRITES and not soft(c):
            for i in WRITES[c[0]]:
                R.add((sc, c[1 + i]))
    changed = True
    while changed:
        changed = False
        n0 = len(R)
        for sc, c in prims:
            if c[0] in WRITES and soft(c):
                if (sc, c[1]) in R:
                    R.add((sc, c[3] if c[0] == "ListSet" else c[2]))
            elif c[0] == "ListNew":
                if (sc, c[1]) in R:
                    R.update((sc, y) for y in c[2])
            elif c[0] in SOURCES and (sc, c[1]) in R:
                for i in SOURCES[c[0]]:
                    R.add((sc, c[1 + i]))
        for sc, n in calls:
            _, x, body, args, ret, csc, nullv = n
            if (sc, x) in R:
                R.add((csc, ret))
            for i, a in enumerate(args):
                if (csc, i) in R:
                    R.add((sc, a))
        changed = len(R) != n0
    memo = {}

    def rebuild(n, sc):
        key = (id(n), sc)
        if key in memo:
            return memo[key]
        if n[0] == "prim":
            c = n[1]
            r = n if ((c[0] in WRITES and not soft(c)) or (sc, c[1]) in R) else SKIP
        elif n[0] == "seq":
            r = seqn(*[rebuild(m, sc) for m in n[1]])
        elif n[0] == "choice":
            a, b = rebuild(n[1], sc), rebuild(n[2], sc)
            r = a if a == b else ("choice", a, b)
        elif n[0] == "repeat":
            b = rebuild(n[2], sc)
            r = SKIP if b == SKIP else ("repeat", n[1], b)
        else:
            _, x, body, args, ret, csc, nullv = n
            b = rebuild(body, csc)
            r = SKIP if (b == SKIP and (sc, x) not in R) else ("call", x, b, args, ret, csc, nullv)
        memo[key] = r
        return r
    return rebuild(root, 0)


ALLOCATING = {"Alloc", "Copy", "ListNew", "ListCopy"}


def assigned_vars(n, acc=None, seen=None):
    """variables assigned by a command that is NOT an allocation (self-rebinds `x = f(x)` returning x are no assignments)"""
    acc = set() if acc is None else acc
    seen = set() if seen is None else seen
    if id(n) in seen:
        return acc
    seen.add(id(n))
    if n[0] == "prim":
        c = n[1]
        if c[0] in SOURCES and c[0] not in ("Copy", "Alloc") and not (c[0] == "Rebind" and c[1] == c[2]):
            acc.add(c[1])
    elif n[0] == "seq":
        for m in n[1]:
            assigned_vars(m, acc, seen)
    elif n[0] == "choice":
        assigned_vars(n[1], acc, seen); assigned_vars(n[2], acc, seen)
    elif n[0] == "repeat":
        assigned_vars(n[2], acc, seen)
    elif n[0] == "call":
        acc.add(n[1])
    return acc


def peephole(root, null0):
    """(loop invariant: a variable that is allocated at loop entry and only re-assigned by allocations in the body stays allocated)
    drop InplaceOp / WriteInto through a variable that is DEFINITELY bound to an object allocated by this run (or to None)
    on every path reaching the statement (dominating allocation, no intervening rebinding): such a write is accepted by
    `safe` whatever the rest of the state is, so removing it changes no verdict; it removes most data-dependent choices."""
    memo = {}

    def go(n, F):
        key = (id(n), F)
        if key in memo:
            return memo[key]
        if n[0] == "prim":
            c = n[1]; k = c[0]
            if k in ALLOCATING:
                r = (n, F | {c[1]})
            elif k == "Rebind" and c[1] == c[2]:
                r = (SKIP, F)
            elif k in ("ListSet", "ListAppend") and c[1] in F and len(c) == (4 if k == "ListSet" else 3):
                r = (("prim", c + ("soft",)), F)     # a store through a run-allocated object cannot be refused: kept only if the cell is read
            elif k in ("ListRemove", "ListPop") and c[1] in F:
                r = (SKIP, F)
            elif k in ("View", "Rebind"):
                r = (n, (F | {c[1]}) if c[2] in F else (F - {c[1]}))
            elif k == "ListGet":
                r = (n, F - {c[1]})
            elif k in ("InplaceOp", "WriteInto") and c[1] in F:
                r = (SKIP, F)
            else:
                r = (n, F)
        elif n[0] == "seq":
            out = []
            for m in n[1]:
                m2, F = go(m, F)
                out.append(m2)
            r = (seqn(*out), F)
        elif n[0] == "choice":
            a, Fa = go(n[1], F); b, Fb = go(n[2], F)
            r = ((a if a == b else ("choice", a, b)), Fa & Fb)
        elif n[0] == "repeat":
            Fin = F - frozenset(assigned_vars(n[2]))
            b, Fb = go(n[2], Fin)
            r = ((SKIP if b == SKIP else ("repeat", n[1], b)), Fin & Fb)
        else:
            _, x, body, args, ret, csc, nullv = n
            Fc = frozenset(i for i, a in enumerate(args) if a in F) | {nullv}
            b, Fb = go(body, Fc)
            r = (("call", x, b, args, ret, csc, nullv), (F | {x}) if ret in Fb else (F - {x}))
        memo[key] = r
        return r
    return go(root, frozenset({null0}))[0]


def count_paths(n, memo=None):
    memo = {} if memo is None else memo
    if id(n) in memo:
        return memo[id(n)]
    if n[0] == "prim":
        r = 1
    elif n[0] == "seq":
        r = 1
        for m in n[1]:
            r *= count_paths(m, memo)
    elif n[0] == "choice":
        r = count_paths(n[1], memo) + count_paths(n[2], memo)
    elif n[0] == "repeat":
        r = count_paths(n[2], memo) ** n[1]
    else:
        r = count_paths(n[2], memo)
    memo[id(n)] = r
    return r


def cmd_lit(c):
    k = c[0]
    v = lambda i: f"{c[i]}%nat"
    if k == "Alloc": return f"(Alloc {v(1)} 1%nat)"
    if k == "Copy": return f"(Copy {v(1)} {v(2)})"
    if k == "View": return f"(View {v(1)} {v(2)} [0%nat])"
    if k == "Rebind": return f"(Rebind {v(1)} {v(2)})"
    if k == "WriteInto": return f"(WriteInto {v(1)} [1%Z])"
    if k == "InplaceOp": return f"(InplaceOp {v(1)} 2%Z)"
    if k == "ListNew": return f"(ListNew {v(1)} [" + "; ".join(f"{y}%nat" for y in c[2]) + "])" if c[2] else f"(ListNew {v(1)} (@nil nat))"
    if k == "ListCopy": return f"(ListCopy {v(1)} {v(2)} {v(3)})"
    if k == "ListGet": return f"(ListGet {v(1)} {v(2)} {v(3)})"
    if k == "ListSet": return f"(ListSet {v(1)} {v(2)} {v(3)})"
    if k == "ListAppend": return f"(ListAppend {v(1)} {v(2)})"
    if k == "ListRemove": return f"(ListRemove {v(1)} 0%nat)"
    if k == "ListPop": return f"(ListPop {v(1)})"
    raise KeyError(k)


class Printer:
    """pcmd literal with shared subterms as Definitions"""
    def __init__(self, prefix):
        self.prefix, self.defs, self.names, self.refs = prefix, [], {}, {}

    def count(self, n):
        self.refs[id(n)] = self.refs.get(id(n), 0) + 1
        if self.refs[id(n)] > 1:
            return
        if n[0] == "seq":
            for m in n[1]: self.count(m)
        elif n[0] == "choice":
            self.count(n[1]); self.count(n[2])
        elif n[0] == "repeat":
            self.count(n[2])
        elif n[0] == "call":
            self.count(n[2])

    def lit(self, n, top=False):
        if not top and self.refs.get(id(n), 0) > 1 and n[0] != "prim" and n != SKIP:
            if id(n) not in self.names:
                nm = f"{self.prefix}_{len(self.names)}"
                self.names[id(n)] = nm
                self.defs.append(f"Definition {nm} : pcmd := {self.lit(n, True)}.")
            return self.names[id(n)]
        if n[0] == "prim":
            return f"(PPrim {cmd_lit(n[1])})"
        if n[0] == "seq":
            if not n[1]:
                return "(PPrim Skip)"
            run, parts = [], []
            for m in n[1]:
                if m[0] == "prim":
                    run.append(cmd_lit(m[1]))
                else:
                    if run:
                        parts.append("(PPrim (seq [" + "; ".join(run) + "]))"); run = []
                    parts.append(self.lit(m))
            if run:
                parts.append("(PPrim (seq [" + "; ".join(run) + "]))")
            return parts[0] if len(parts) == 1 else "(pseq [" + "; ".join(parts) + "])"
        if n[0] == "choice":
            return f"(PChoice {self.lit(n[1])} {self.lit(n[2])})"
        if n[0] == "repeat":
            return f"(PRepeat {n[1]}%nat {self.lit(n[2])})"
        _, x, body, args, ret, csc, nullv = n
        return f"(PCall {x}%nat {self.lit(body)} [" + "; ".join(f"{a}%nat" for a in args) + f"] {ret}%nat)" if args else \
            f"(PCall {x}%nat {self.lit(body)} (@nil nat) {ret}%nat)"


U, NN = UNKNOWN, NONNULL
ENTRIES = [
    # (function, documented in-place parameters, [option sets: deviations from the signature's defaults])
    ("initialize_cp", {}, [dict(init=U, mask=U, normalize_factors=U, non_negative=U)]),
    ("error_calc", {}, [dict(mask=U, mttkrp=U, sparsity=U)]),
    ("sparsify_tensor", {}, [dict()]),
    ("parafac", {}, [dict(init=USER, fixed_modes=NN, mask=NN, tol=NN), dict(init=USER, normalize_factors=True, tol=NN, return_errors=True, mask=NN),
                     dict(init=USER, orthogonalise=NN, l2_reg=NN, sparsity=NN, callback=NN, tol=NN), dict(init=USER, linesearch=True, mask=NN, tol=NN, fixed_modes=NN),
                     dict(init="svd", mask=NN, tol=0), dict(init="random", fixed_modes=NN)]),
    ("randomised_parafac", {}, [dict(init=USER, tol=NN), dict()]),
    ("non_negative_parafac", {}, [dict(init=USER, fixed_modes=NN, mask=NN, tol=NN), dict(init=USER, normalize_factors=True, tol=NN), dict(mask=NN)]),
    ("non_negative_parafac_hals", {}, [dict(init=USER, sparsity_coefficients=NN, fixed_modes=NN, tol=NN), dict(init=USER, normalize_factors=True, nn_modes=NN, tol=NN), dict()]),
    ("initialize_tucker", {}, [dict(init=U, non_negative=U, mask=U)]),
    ("partial_tucker", {}, [dict(init=USER, mask=NN, modes=NN, tol=NN), dict(mask=NN)]),
    ("tucker", {}, [dict(init=USER, mask=NN, tol=NN), dict(init=USER, fixed_factors=NN, tol=NN), dict()]),
    ("non_negative_tucker", {}, [dict(init=USER, tol=NN, normalize_factors=U)]),
    ("non_negative_tucker_hals", {}, [dict(init=USER, sparsity_coefficients=NN, fixed_modes=NN, tol=NN), dict(init=USER, algorithm="active_set", normalize_factors=True, tol=NN), dict()]),
    ("initialize_constrained_parafac", {}, [dict(init=U)]),
    ("constrained_parafac", {}, [dict(init=USER, fixed_modes=NN, non_negative=True), dict()]),
    ("initialize_decomposition", {}, [dict(init=U)]),
    ("parafac2", {}, [dict(init=USER, nn_modes=NN, normalize_factors=True), dict(init=USER, linesearch=True), dict()]),
    ("robust_pca", {}, [dict(mask=U)]),
    ("hals_nnls", {"V": True}, [dict(V=NN, sparsity_coefficient=NN, nonzero_rows=True, callback=NN), dict(V=NN)]),
    ("hals_nnls", {}, [dict(V=None)]),
    ("fista", {}, [dict(x=U, lr=U, sparsity_coef=U)]),
    ("active_set_nnls", {}, [dict(x=NN), dict(x=None)]),
    ("admm", {}, [dict(n_const=U)]),
    ("process_regularization_weights", {}, [dict()]),
    ("cp_normalize", {}, [dict()]), ("cp_flip_sign", {}, [dict(func=U)]), ("cp_permute_factors", {}, [dict()]),
    ("cp_mode_dot", {}, [dict(copy=True, keep_dim=U)]), ("tucker_mode_dot", {}, [dict(copy=True, keep_dim=U)]),
    ("cp_mode_dot", {"cp_tensor": True}, [dict(copy=False, keep_dim=U)]), ("tucker_mode_dot", {"tucker_tensor": True}, [dict(copy=False, keep_dim=U)]),
    ("tucker_normalize", {}, [dict()]),
    ("parafac2_to_slices", {}, [dict(validate=U)]), ("parafac2_to_slice", {}, [dict(validate=U)]), ("parafac2_normalise", {}, [dict()]), ("khatri_rao", {}, [dict(weights=U, mask=U, skip_matrix=U)]),
    ("CP_PLSR.fit", {}, [dict()]), ("CP_PLSR.predict", {}, [dict()]), ("CP_PLSR.transform", {}, [dict(Y=U)]), ("svd_interface", {}, [dict(mask=NN, n_eigenvecs=NN, non_negative=U, flip_sign=U)]),
]
# round 5: the rest of the anchored packages (proximal operators, regressors, preprocessing, the other decompositions, conversions,
# tensor algebra, metrics).  Most of them contain no statement at all that assigns into / calls an in-place method on a name that
# may alias a parameter: their skeleton slices down to Skip and the verdict is "accepted"; an in-place update introduced in
# the source (x *= .., x[...] = .., list.append on a parameter, a dropped tl.copy before index_update) flips it.
ENTRIES += [
    ("soft_thresholding", {}, [dict()]), ("hard_thresholding", {}, [dict()]), ("svd_thresholding", {}, [dict()]), ("procrustes", {}, [dict()]),
    ("simplex_prox", {}, [dict()]), ("monotonicity_prox", {}, [dict(decreasing=U)]), ("unimodality_prox", {}, [dict()]), ("l2_prox", {}, [dict()]),
    ("l2_square_prox", {}, [dict()]), ("smoothness_prox", {}, [dict()]), ("soft_sparsity_prox", {}, [dict()]), ("normalized_sparsity_prox", {}, [dict()]),
    ("proximal_operator", {}, [dict(non_negative=U, l1_reg=U, l2_reg=U, l2_square_reg=U, unimodality=U, normalize=U, simplex=U, normalized_sparsity=U,
                                    soft_sparsity=U, smoothness=U, monotonicity=U, hard_sparsity=U)]),
    ("CPRegressor.fit", {}, [dict()]), ("CPRegressor.predict", {}, [dict()]), ("TuckerRegressor.fit", {}, [dict()]), ("TuckerRegressor.predict", {}, [dict()]),
    ("CP_PLSR.fit_transform", {}, [dict()]), ("CP_PLSR.score", {}, [dict()]),
    ("svd_compress_tensor_slices", {}, [dict(compression_threshold=U, max_rank=U)]), ("svd_decompress_parafac2_tensor", {}, [dict()]),
    ("tensor_train", {}, [dict()]), ("tensor_train_matrix", {}, [dict()]), ("tensor_ring", {}, [dict()]), ("tensor_ring_als", {}, [dict()]),
    ("tensor_train_cross", {}, [dict()]), ("tensor_train_OI", {}, [dict(trajectory=U)]), ("coupled_matrix_tensor_3d_factorization", {}, [dict()]),
    ("parafac_power_iteration", {}, [dict()]), ("symmetric_parafac_power_iteration", {}, [dict()]), ("power_iteration", {}, [dict()]),
    ("cp_to_tensor", {}, [dict(mask=U)]), ("cp_lstsq_grad", {}, [dict(mask=U, return_loss=U)]), ("tucker_to_tensor", {}, [dict(skip_factor=U)]),
    ("parafac2_to_tensor", {}, [dict()]), ("apply_parafac2_projections", {}, [dict()]), ("pad_tt_rank", {}, [dict(pad_boundaries=U)]),
    ("unfolding_dot_khatri_rao", {}, [dict()]), ("multi_mode_dot", {}, [dict(modes=U, skip=U, transpose=U)]), ("mode_dot", {}, [dict(transpose=U)]),
    ("kronecker", {}, [dict(skip_matrix=U, reverse=U)]), ("sample_khatri_rao", {}, [dict(indices_list=U, skip_matrix=U, return_sampled_rows=U)]),
    ("congruence_coefficient", {}, [dict()]), ("correlation_index", {}, [dict()]), ("make_svd_non_negative", {}, [dict(nntype=U)]),
    ("DecompositionMixin.fit", {}, [dict()]),
]
# round 6: estimator methods in RECEIVER-OBJECT mode (option-set key "__self__"): an attribute the method has not assigned is read from
# the receiver (a reference the caller's estimator holds - protected like every argument), `self.attr = ..` stays a local rebinding
# (the receiver of fit / fit_transform is documented as updated), the decomposition function is inlined with the options bound through
# "self.<option>" constants.  Accepted = nothing the estimator holds (init, fixed_modes, mask, coefficient lists ...) is written through.
_OBJ = {"__self__": "object"}
ENTRIES += [
    ("CP.fit_transform", {}, [dict(_OBJ, **{"self.init": USER, "self.fixed_modes": NN, "self.mask": NN, "self.tol": NN, "self.normalize_factors": False, "self.orthogonalise": False,
                                            "self.sparsity": None, "self.l2_reg": 0, "self.linesearch": False, "self.callback": None, "self.verbose": 0, "self.cvg_criterion": "abs_rec_error",
                                            "self.svd": "truncated_svd", "self.random_state": None, "self.svd_mask_repeats": 5, "self.n_iter_max": NN})]),
    ("CP_NN.fit_transform", {}, [dict(_OBJ, **{"self.init": USER, "self.fixed_modes": NN, "self.mask": NN, "self.tol": NN, "self.normalize_factors": False, "self.verbose": 0,
                                               "self.cvg_criterion": "abs_rec_error", "self.svd": "truncated_svd", "self.random_state": None})]),
    ("CP_NN_HALS.fit_transform", {}, [dict(_OBJ, **{"self.init": USER, "self.sparsity_coefficients": NN, "self.fixed_modes": NN, "self.tol": NN, "self.normalize_factors": False, "self.nn_modes": "all",
                                                    "self.exact": False, "self.verbose": 0, "self.cvg_criterion": "abs_rec_error", "self.svd": "truncated_svd", "self.random_state": None})]),
    ("RandomizedCP.fit_transform", {}, [dict(_OBJ, **{"self.init": USER, "self.tol": NN})]),
    ("ConstrainedCP.fit_transform", {}, [dict(_OBJ, **{"self.init": USER, "self.fixed_modes": NN})]),
    ("Parafac2.fit_transform", {}, [dict(_OBJ, **{"self.init": USER})]),
    ("Tucker.fit_transform", {}, [dict(_OBJ, **{"self.init": USER, "self.mask": NN, "self.tol": NN, "self.fixed_factors": None, "self.verbose": 0, "self.return_errors": False,
                                                "self.svd": "truncated_svd", "self.random_state": None})]),
    ("Tucker_NN.fit_transform", {}, [dict(_OBJ, **{"self.init": USER, "self.tol": NN})]),
    ("Tucker_NN_HALS.fit_transform", {}, [dict(_OBJ, **{"self.init": USER, "self.sparsity_coefficients": NN, "self.fixed_modes": NN, "self.tol": NN})]),
    ("CPRegressor.fit", {}, [dict(_OBJ)]), ("TuckerRegressor.fit", {}, [dict(_OBJ)]), ("CP_PLSR.fit", {}, [dict(_OBJ)]),
    ("CPTensor.normalize", {}, [dict(_OBJ, inplace=False), dict(_OBJ, inplace=True)]),
]
# negative controls: the analysis must REJECT these (documented in-place parameter not flagged)
NEGATIVE = [("hals_nnls", {}, dict(V=NN)), ("cp_mode_dot", {}, dict(copy=False)), ("tucker_mode_dot", {}, dict(copy=False))]
INLINE = {"initialize_cp", "error_calc", "sparsify_tensor", "cp_normalize", "initialize_tucker", "partial_tucker", "hals_nnls", "fista", "active_set_nnls",
          "initialize_constrained_parafac", "initialize_decomposition", "parafac", "non_negative_parafac_hals", "process_regularization_weights",
          "cp_flip_sign", "parafac2_to_slice", "admm", "tucker_normalize", "_compute_projections", "_project_tensors", "cp_mode_dot", "tucker_mode_dot",
          # round 6: inlined into the estimator methods
          "tucker", "non_negative_parafac", "non_negative_tucker_hals", "constrained_parafac", "parafac2", "randomised_parafac", "non_negative_tucker"}


STATIC_CAP = 40000        # paths per extracted skeleton evaluated inside Coq; larger ones are retried with one sweep, then skipped and counted
F_, T_ = "false", "true"
HAND_WRITTEN = {    # (function, in-place parameters, option-set index) -> (hand-written skeleton of Corr.C15, its flags)
    ("parafac", (), 0): ("(KParafacN 3%nat 2%nat 2%nat (Some 1%nat) [0%nat; 1%nat; 2%nat])", [F_] * 4),
    ("parafac", (), 3): ("KParafac", [F_] * 4),
    ("initialize_cp", (), 0): ("(KInitCpN 3%nat)", [F_] * 2),
    ("initialize_tucker", (), 0): ("(KInitTuckerN 3%nat)", [F_] * 2),
    ("tucker", (), 0): ("(KTuckerN 3%nat 2%nat [0%nat; 1%nat; 2%nat])", [F_] * 3),
    ("hals_nnls", ("V",), 1): ("KHalsNnls", [F_, F_, T_]),
    ("cp_mode_dot", (), 0): ("KModeDotCopy", [F_, F_]),
    ("cp_mode_dot", ("cp_tensor",), 0): ("KModeDotVecInplace", [T_, F_]),
    ("process_regularization_weights", (), 0): ("(KPrw 3%nat [0%nat] [1%nat] [2%nat] 0%nat)", [F_, F_]),
    ("cp_flip_sign", (), 0): ("KFlipSign", [F_]),
    ("cp_permute_factors", (), 0): ("KPermute", [F_, F_]),
    ("parafac2_to_slices", (), 0): ("KP2Slices", [F_]),
    ("CP_PLSR.fit", (), 0): ("KPlsrFit", [F_, F_]),
    ("tucker_mode_dot", (), 0): ("KTuckerModeDotCopy", [F_, F_]),
    ("tucker_mode_dot", ("tucker_tensor",), 0): ("KTuckerModeDotVecInplace", [T_, F_]),
    ("non_negative_tucker", (), 0): ("(KNnTuckerN 3%nat 2%nat true [0%nat; 1%nat; 2%nat])", [F_] * 2),
    ("non_negative_tucker_hals", (), 0): ("(KNnTuckerHalsN 3%nat 2%nat 2%nat 3%nat 1%nat None [0%nat] [1%nat; 2%nat] false)", [F_] * 4),
    ("monotonicity_prox", (), 0): ("(KMonoProx true false 3%nat 3%nat)", [F_]),
    ("unimodality_prox", (), 0): ("(KUnimodalProx false 3%nat 3%nat)", [F_]),
}
HAND_WRITTEN_NEG = {"hals_nnls": ("KHalsNnls", [F_] * 3), "cp_mode_dot": ("KModeDotVecInplace", [F_, F_]),
                    "tucker_mode_dot": ("KTuckerModeDotMatInplace", [F_, F_])}
HEADER_STATIC = HEADER + "\nDefinition failing := failing_static.\n"


def static_cases(repo, cap=STATIC_CAP):
    """-> (definitions text, [scase literal], [description per case], skipped list, extractor)"""
    sys.setrecursionlimit(100000)
    ex = Extractor(repo); ex.inline = INLINE
    ex1 = Extractor(repo, repeat=1); ex1.inline = INLINE
    ex.try_prefixes = ex1.try_prefixes = cap > 6000
    defs, cases, names, skipped = [], [], [], []
    todo = [(n, i, k, c, True) for n, i, cs in ENTRIES for k, c in enumerate(cs)] + [(n, i, 0, c, False) for n, i, c in NEGATIVE]
    for name, inpl, ci, cfg, expected in todo:
        fdef = ex.funcs.get(name)
        if fdef is None:
            skipped.append((name, ci, "function not found")); continue
        sweeps = 2
        body, sc = ex.function(fdef, dict(cfg), 0, use_defaults=True)
        term = slice_term(peephole(body, sc.null))
        np_ = count_paths(term)
        if np_ > cap:
            sweeps = 1
            body, sc = ex1.function(fdef, dict(cfg), 0, use_defaults=True)
            term = slice_term(peephole(body, sc.null))
            np_ = count_paths(term)
        if np_ > cap:
            skipped.append((name, ci, f"{np_:.3g} paths")); continue
        cid = len(cases)
        pr = Printer(f"sk{cid}")
        pr.count(term)
        lit = pr.lit(term, True)
        defs.extend(pr.defs)
        flags = [C.boolc(inpl.get(p_, False)) for p_ in sc.params]
        if expected:
            hw = HAND_WRITTEN.get((name, tuple(sorted(inpl)), ci))
        else:
            hw = HAND_WRITTEN_NEG.get(name)
        hw_l = "None" if hw is None else f"(Some ({hw[0]}, [" + "; ".join(hw[1]) + "]))"
        cases.append(f"({cid}%nat, [" + "; ".join(flags) + f"], {C.boolc(expected)}, {hw_l}, {lit})")
        names.append(dict(function=name, inplace=sorted(inpl), options={k_: repr(v_) for k_, v_ in cfg.items()}, expected_accepted=expected, paths=np_, sweeps=sweeps,
                          hand_written=hw[0] if hw else None))
    return "\n".join(defs), cases, names, skipped, ex


# ============================================================================ running one configuration
QUICK_VARIANTS = ["fresh", "transposed", "sliced", "readonly"]
QUICK_COLUMN = ("prox_", "nn_tucker_init", "hals_nnls_warm", "active_set_warm", "fista_warm")     # configurations that also get the "column" kind in the quick tier
HEAVY = {"nn_parafac_hals_init_exact_nnmodes"}      # > 1 s CPU per call (exact HALS: 50000 inner iterations): one kind in the quick tier
ALL_VARIANTS = ["fresh", "transposed", "sliced", "strided", "readonly", "column"]
# "readonly": protected arrays have writeable=False and protected lists record mutator calls, so that a write of IDENTICAL
# values (invisible to the byte snapshot) surfaces as an exception / a logged call: a write attempt through a protected
# argument contradicts the model (no write command targets a caller-owned object); the harness then searches a failing input


class Interrupted(RuntimeError):
    """raised by the harness inside the library (at the k-th internal function call): `run c n` of Model/Effects.v"""


_TL_DIR = [None]


def tl_dir():
    if _TL_DIR[0] is None:
        import tensorly
        _TL_DIR[0] = os.path.dirname(os.path.abspath(tensorly.__file__)) + os.sep
    return _TL_DIR[0]


SURFACE_DEFAULTS = {}    # code object -> {parameter: default} of the public callables (parameters WITH a default = the options)
PARAMS_VARIED = set()    # (qualified name, parameter) seen with a non-default value at the entry of the callable
FLAG_NAMES = ("inplace", "copy", "overwrite", "out", "overwrite_a", "in_place")
FLAG_SEEN = {}           # (qualified name, flag parameter) -> set of values (as repr) seen at the entry of the callable
# every in-place-style option of the audited packages and how BOTH of its values are modelled (skeleton kinds of Corr.C15 / theorems)
FLAG_MODEL = {
    "tensorly.cp_tensor.CPTensor.normalize(inplace)": {"True": "KCpNormalizeMethod, receiver flagged (C15_cp_normalize_method_frame)",
                                                       "False": "KCpNormalizeMethodCopy, receiver protected (C15_cp_normalize_method_inplace_false_frame)"},
    "tensorly.cp_tensor.cp_mode_dot(copy)": {"True": "KModeDotCopy, protected (C15_modelled_entry_points_safe_each)",
                                             "False": "KModeDotVecInplace / KModeDotMatInplace, cp_tensor flagged (C15_cp_mode_dot_copy_false_inplace / _frame)"},
    "tensorly.cp_tensor.CPTensor.mode_dot(copy)": {"True": "KModeDotCopy (the method's default)", "False": "KModeDotVecInplace / KModeDotMatInplace, receiver flagged"},
    "tensorly.tucker_tensor.tucker_mode_dot(copy)": {"True": "KTuckerModeDotCopy, protected", "False": "KTuckerModeDotVecInplace / KTuckerModeDotMatInplace, tucker_tensor flagged (C15_tucker_mode_dot_index_update_inplace / _frame)"},
    "tensorly.tucker_tensor.TuckerTensor.mode_dot(copy)": {"True": "KTuckerModeDotCopy", "False": "KTuckerModeDotVecInplace / KTuckerModeDotMatInplace (the method's default), receiver flagged"},
    "tensorly.tt_tensor.TTTensor.__init__(inplace)": {"True": "KWrapperCtor: the flag is unused and undocumented, the constructor stores the caller's list and writes nothing (C15_wrapper_ctor_safe)",
                                                      "False": "KWrapperCtor: same code path"},
    "tensorly.tt_matrix.TTMatrix.__init__(inplace)": {"True": "KWrapperCtor (flag unused)", "False": "KWrapperCtor (flag unused)"},
}
# round 8: the property lists EXACTLY three documented in-place exceptions.  Every configuration of the table that flags an argument as
# in-place must fall into one of them, or be a METHOD whose receiver is the object the method is documented to transform / fit (receiver
# semantics: `self` is not an argument the caller passes to be read; C15_method_frame / C15_estimator_fit_frame show that even then only the
# receiver OBJECT changes, never an array or list it held).  Anything else is reported as broken (fail closed).
EXCEPTION_CLASSES = {
    "copy=False mode products": lambda n: "mode_dot" in n,
    "the mutable NNLS start matrix (hals_nnls V)": lambda n: n.startswith("hals_nnls"),
    "index_update": lambda n: n.startswith("index_update"),
}
RECEIVER_CLASSES = {
    "receiver of CPTensor.normalize(inplace=True) / TuckerTensor.normalize() (method mutator, not an exception)": lambda n: "normalize_method" in n,
    "receiver of an estimator's fit / fit_transform (stores decomposition_ on self, not an exception)": lambda n: "_receiver_fit" in n,
}
EXC_SEEN = {}        # class -> configurations with a flagged argument that ran


def exception_class(name):
    for k_, f_ in list(EXCEPTION_CLASSES.items()) + list(RECEIVER_CLASSES.items()):
        if f_(name):
            return k_
    return "UNCLASSIFIED"


SURFACE = {}         # code object -> qualified name of a public callable of the audited packages (filled by public_surface)
SURFACE_HIT = {}     # qualified name -> first configuration that executed it
CALL_COUNTS = {}     # (configuration, dtype, data seed) -> number of internal function calls of an uninterrupted "fresh" run


class Tracer:
    """global trace function (call events only; no local tracing).  Counts the calls of functions defined under
    REPO/tensorly, records which public callables run, and raises Interrupted at the k-th such call when asked to."""
    def __init__(self, k=None, label=None):
        self.k, self.n, self.label, self.fired, self.prefix = k, 0, label, None, tl_dir()

    def __call__(self, frame, event, arg):
        if event != "call":
            return None
        code = frame.f_code
        if not code.co_filename.startswith(self.prefix):
            return None
        self.n += 1
        if self.label is not None and code in SURFACE:
            q = SURFACE[code]
            SURFACE_HIT.setdefault(q, self.label)
            dfl = SURFACE_DEFAULTS.get(code)
            if dfl:
                loc = frame.f_locals
                for p_ in dfl:
                    if p_ in FLAG_NAMES and p_ in loc:
                        FLAG_SEEN.setdefault((q, p_), set()).add(repr(loc[p_]))
                for p_, d_ in dfl.items():
                    if (q, p_) not in PARAMS_VARIED and p_ in loc:
                        v_ = loc[p_]
                        if not (v_ is d_ or (type(v_) in (int, float, str, bool, tuple) and type(d_) is type(v_) and v_ == d_)):
                            PARAMS_VARIED.add((q, p_))
        if self.k is not None and self.n == self.k:
            self.fired = f"{os.path.basename(code.co_filename)}:{code.co_name}"
            sys.settrace(None)
            raise Interrupted(f"injected at internal call {self.k} ({self.fired})")
        return None


SURFACE_PACKAGES = ["tensorly.decomposition", "tensorly.solvers", "tensorly.tenalg", "tensorly.metrics", "tensorly.preprocessing",
                    "tensorly.regression", "tensorly.contrib", "tensorly.cp_tensor", "tensorly.tucker_tensor", "tensorly.tt_tensor",
                    "tensorly.tr_tensor", "tensorly.tt_matrix", "tensorly.parafac2_tensor", "tensorly.base", "tensorly.random"]
# infrastructure, not calls on caller data: backend dispatch / registration
SURFACE_EXCLUDED = ("TenalgBackendManager.", "TenalgBackend.", ".register_", ".dynamically_dispatched", ".sparse")


def public_surface():
    """code object -> name for every public function / public method of a public class defined in the audited packages
    (as imported from VERIF_REPO now); modules that cannot be imported (optional dependencies) are skipped and listed"""
    import importlib, inspect, pkgutil
    out, failed, mods, funcs_ = {}, [], [], []
    for p in SURFACE_PACKAGES:
        try:
            m = importlib.import_module(p)
        except Exception as e:
            failed.append(f"{p}: {type(e).__name__}"); continue
        mods.append(m)
        if hasattr(m, "__path__"):
            for mi in pkgutil.walk_packages(m.__path__, p + "."):
                if ".tests" in mi.name or "sparse" in mi.name:
                    continue
                try:
                    mods.append(importlib.import_module(mi.name))
                except Exception as e:
                    failed.append(f"{mi.name}: {type(e).__name__}")
    for m in mods:
        for n, o in list(vars(m).items()):
            if n.startswith("_"):
                continue
            if inspect.isfunction(o) and o.__module__ == m.__name__:
                out[o.__code__] = f"{m.__name__}.{n}"
                funcs_.append(o)
            elif inspect.isclass(o) and o.__module__ == m.__name__:
                for mn, mo in list(vars(o).items()):
                    f = mo.__func__ if isinstance(mo, (staticmethod, classmethod)) else (mo.fget if isinstance(mo, property) else mo)
                    if inspect.isfunction(f) and (not mn.startswith("_") or mn == "__init__"):
                        out[f.__code__] = f"{m.__name__}.{n}.{mn}"
                        funcs_.append(f)
    out = {c: q for c, q in out.items() if not any(x in q for x in SURFACE_EXCLUDED)}
    SURFACE_DEFAULTS.clear()
    for f in funcs_:
        if f.__code__ in out:
            try:
                SURFACE_DEFAULTS[f.__code__] = {k: v.default for k, v in inspect.signature(f).parameters.items()
                                                if v.default is not inspect.Parameter.empty and k not in ("verbose", "random_state")}
            except Exception:
                pass
    return out, failed


_EP_CACHE = {}


def run_config(name, variant, dtype, seed):
    """-> dict(outcome, changed=[(oid, path, what)], heap, spec, allowed) or None if the configuration does not exist.
    variant "kind!k": the call is made to raise at its k-th internal function call (an exception half-way)"""
    variant, _, inj = variant.partition("!")
    inject = int(inj) if inj else None
    if name.startswith("fuzz:"):
        spec = fuzz_spec(int(name[5:]), np.dtype(dtype).type)
    else:
        key = (np.dtype(dtype).str, seed)        # the table of builders is cached; every builder call creates fresh data
        if key not in _EP_CACHE:
            if len(_EP_CACHE) > 8:
                _EP_CACHE.clear()
            _EP_CACHE[key] = entry_points(np.dtype(dtype).type, seed)
        E = _EP_CACHE[key]
        if name not in E:
            return None
        spec = E[name]()
    if variant == "readonly":     # documented in-place arguments stay ordinary writable objects
        memo = {}
        args = tuple(transform(a, "fresh" if i in spec["inplace"] else "readonly", memo) for i, a in enumerate(spec["args"]))
    else:
        args = transform(tuple(spec["args"]), variant)
    heap = Heap(args)
    del WRITE_LOG[:]
    if variant == "readonly":
        allowed0 = heap.region(sorted(spec["inplace"]))
        for oid, path, a, meta in heap.views:
            if oid not in allowed0:
                own = owner_of(a)
                try:
                    a.flags.writeable = False
                    own.flags.writeable = False
                except Exception:
                    pass
        heap.views = [(oid, path, a, arr_meta(a)) for oid, path, a, meta in heap.views]
    C.reset_backends()
    buf = io.StringIO()
    tracer = Tracer(inject, name) if (inject is not None or (SURFACE and (variant == "fresh" or name in HEAVY or name.startswith("fuzz:")))) else None
    with contextlib.redirect_stdout(buf), contextlib.redirect_stderr(buf):
        if tracer is None:
            out = C.call_impl(spec["fn"], *args, timeout=60)
        else:
            def traced(*a):
                sys.settrace(tracer)
                try:
                    return spec["fn"](*a)
                finally:
                    sys.settrace(None)
            out = C.call_impl(traced, *args, timeout=60)
            if inject is None and out[0] != "crash":
                CALL_COUNTS[(name, str(np.dtype(dtype)), seed)] = tracer.n
    C.reset_backends()
    changed = heap.changed()
    allowed = heap.region(sorted(spec["inplace"]))
    attempts = list(WRITE_LOG)
    if variant == "readonly" and out[0] != "ok" and "read-only" in str(out[1]):
        attempts.append("ndarray: " + str(out[1])[:120])
    return dict(outcome=out[0], detail=None if out[0] == "ok" else out[1], changed=changed, heap=heap, spec=spec,
                allowed=allowed, args=args, write_attempts=attempts, injected=(tracer.fired if tracer is not None else None),
                internal_calls=(tracer.n if tracer is not None else None))


def case_literal(cid, r):
    heap, spec = r["heap"], r["spec"]
    if spec["skel"] is not None:
        kname, amap = spec["skel"]
        if callable(kname):
            kname = kname(spec["args"])
        refs = [heap.arg_refs[i] if i is not None and i < len(heap.arg_refs) else None for i in amap]
        flags = [(i in spec["inplace"]) for i in amap]
        k = f"(Some {kname})"
    else:
        refs = list(heap.arg_refs)
        flags = [(i in spec["inplace"]) for i in range(len(refs))]
        k = "None"
    flags_l = "[" + "; ".join(C.boolc(f) for f in flags) + "]" if flags else "(@nil bool)"
    refs_l = "[" + "; ".join(heap.ref_lit(x) for x in refs) + "]" if refs else "(@nil ref)"
    return f"({cid}%Z, {k}, {flags_l}, {refs_l}, {heap.heap_lit()}, {C.z_list(sorted({c[0] for c in r['changed']}))}, {C.boolc(r['outcome'] != 'ok')})"


def predicate(r):
    """C15_footprint: every changed object lies in the region reachable from the documented in-place arguments"""
    bad = [c for c in r["changed"] if c[0] not in r["allowed"]]
    if bad:
        return "caller-owned arguments changed: " + "; ".join(f"{p} ({w})" for _, p, w in bad[:6])
    return None


def sensitivity_preconditions():
    """round 7: the visibility conditions of the seeded-defect families of Model/EffectsR7.v (Props C15_nn_tucker_abs_by_reference_family,
    C15_prox_view_instead_of_copy_family) checked on the generator: -> (report dict, list of violated conditions)"""
    E = entry_points(np.float64, 0)
    rep, bad = {}, []

    def arrays(x):
        if isinstance(x, np.ndarray):
            return [x]
        if isinstance(x, (list, tuple)):
            return [a for i in x for a in arrays(i)]
        if is_wrapper(x):
            return [a for k in wrapper_attrs(x) for a in arrays(getattr(x, k))]
        return []
    # family E: a by-reference array is visible only if it has NO negative entry, the call is not normalising and runs >= 1 sweep
    allpos, mixed = [], []
    for n in E:
        if n.startswith("nn_tucker_init"):
            sp = E[n](); sk = sp["skel"]
            if sk is None:
                continue
            name = sk[0](sp["args"]) if callable(sk[0]) else sk[0]
            unnormalised = " false " in name
            signs = [bool((a < 0).any()) for a in arrays(sp["args"][1])]
            if unnormalised and not any(signs):
                allpos.append(n)
            if unnormalised and any(signs) and not all(signs):
                mixed.append(n)
    rep["nn_tucker: user init without negative entries, no normalisation"] = allpos
    rep["nn_tucker: user init with SOME arrays free of negative entries, no normalisation"] = mixed
    if not allpos: bad.append("no non_negative_tucker configuration with an all-non-negative user init and normalize_factors=False")
    if not mixed: bad.append("no non_negative_tucker configuration with a mixed-sign user init and normalize_factors=False")
    # family F: decreasing=True / 1-D input / single column, and inputs the operator has to change
    def monotone(a, dec):
        a = a.reshape(a.shape[0], -1)
        d = np.diff(a, axis=0)
        return bool(((d <= 0) if dec else (d >= 0)).all())
    for n, dec in [("prox_mono", False), ("prox_mono_dec", True), ("prox_unimodal", None)]:
        for suffix, shape_ok in [("", lambda a: a.ndim == 2 and a.shape[1] > 1), ("_vec", lambda a: a.ndim == 1), ("_col", lambda a: a.ndim == 2 and a.shape[1] == 1)]:
            if n + suffix not in E:
                bad.append(f"configuration {n + suffix} missing"); continue
            a = E[n + suffix]()["args"][0]
            ok = shape_ok(a) and not (monotone(a, False) or monotone(a, True))
            rep[n + suffix] = {"shape": list(a.shape), "operator_has_to_move_entries": ok}
            if not ok:
                bad.append(f"{n + suffix}: input shape {a.shape} is monotone (the operator would write identical values) or has the wrong kind")
    return rep, bad


def corpus_cases():
    """corpus/C15/*.json: configurations (table names or fuzz seeds) that caught a mutant or a past defect; they run first"""
    import glob, json, os
    out = []
    for fn in sorted(glob.glob(os.path.join(C.VERIF, "corpus", "C15", "*.json"))):
        try:
            for e in json.load(open(fn)).get("cases", []):
                out.append((e["config"], e.get("variant", "fresh"), e.get("dtype", "float64"), int(e.get("data_seed", 0))))
        except Exception:
            pass
    return out


def plan(tier, rng):
    names = list(entry_points(np.float64, 0).keys())
    cases = [c for c in corpus_cases() if c[0].startswith("fuzz:") or c[0] in names]
    if tier == "quick":
        for n in names:
            for v in (["transposed"] if n in HEAVY else QUICK_VARIANTS + (["column"] if n.startswith(QUICK_COLUMN) else [])):
                cases.append((n, v, "float32" if v == "sliced" else "float64", 0))     # both dtypes already in the quick tier
    else:
        for n in names:
            for v in ALL_VARIANTS:
                cases.append((n, v, "float64", 0))
                cases.append((n, v, "float32", 1))
            for _ in range(2):
                cases.append((n, rng.choice(ALL_VARIANTS), rng.choice(["float64", "float32"]), rng.randint(2, 10 ** 6)))
    nf = 45 if tier == "quick" else 700
    for _ in range(nf):
        cases.append((f"fuzz:{rng.randint(0, 10 ** 9)}", rng.choice(ALL_VARIANTS), rng.choice(["float64", "float64", "float32"]), 0))
    return cases


EXHAUSTIVE_INTERRUPTS = 30      # thorough tier: configurations with at most this many internal calls are interrupted at every one of them


def plan_interrupts(tier, rng):
    """exception paths: every table configuration once more (quick) / twice more (thorough: once per dtype), made to raise at a
    random one of its internal function calls (counted during the uninterrupted "fresh" run of the first pass)"""
    out = []
    per = 1
    for (name, dtype, seed), total in sorted(CALL_COUNTS.items()):
        if total <= 0 or name.startswith("fuzz:"):
            continue
        if name in HEAVY and tier == "quick":
            continue
        if tier != "quick" and total <= EXHAUSTIVE_INTERRUPTS and dtype == "float64":
            for k in range(1, total + 1):       # short calls: EVERY interruption point
                out.append((name, f"{rng.choice(ALL_VARIANTS)}!{k}", dtype, seed))
            continue
        for _ in range(per):
            k = rng.randint(1, min(total, 25)) if rng.random() < 0.3 else rng.randint(1, total)
            out.append((name, f"{rng.choice(ALL_VARIANTS)}!{k}", dtype, seed))
    nf = 15 if tier == "quick" else 250
    for _ in range(nf):
        out.append((f"fuzz:{rng.randint(0, 10 ** 9)}", f"{rng.choice(ALL_VARIANTS)}!{rng.randint(1, 400)}", rng.choice(["float64", "float32"]), 0))
    return out


def _load_known_with_local(prop):
    """common.load_known reads only the merged /verif/known_findings.json (regenerated by the coordinator); until then the
    entries of known_findings.d/C15.json are merged here (local helper, common.py is not edited)."""
    import json, os
    known = _orig_load_known(prop)
    p = os.path.join(C.VERIF, "known_findings.d", f"{prop}.json")
    if os.path.exists(p):
        have = {k.get("id") for k in known}
        known = known + [k for k in json.load(open(p)).get("findings", []) if k.get("property") == prop and k.get("id") not in have]
    return known


_orig_load_known = C.load_known


def prw_caller_lists_rewritten(f):
    """known finding: process_regularization_weights called with LISTS that contain None entries or leave a mode
    unregularised - the function assigns into those very lists"""
    return f["inputs"].get("config", "").startswith("process_regularization_weights") and "arg" in f["message"]


CLASSIFIERS = {"prw_caller_lists_rewritten": prw_caller_lists_rewritten}


def run(chk):
    C.load_known = _load_known_with_local
    rng = random.Random(chk.seed)
    # the Coq build (normally a no-op) and the Print Assumptions pass do not depend on the implementation calls: they run in a
    # worker thread (subprocesses) while the main thread calls the implementation; joined before the first shard is compiled
    import threading
    def _build():
        try:
            chk.build_proofs()
        except Exception as e:      # never lost silently
            chk.broken.append({"what": "Coq build / Print Assumptions pass crashed", "detail": f"{type(e).__name__}: {e}"[:500]})
    builder = threading.Thread(target=_build)
    builder.start()
    C.reset_backends()
    cases, meta = [], []
    t_impl = time.time()
    try:        # surface audit: which public callables of the anchored packages does the table execute (measured on every run)
        surf, surf_failed = public_surface()
        SURFACE.clear(); SURFACE.update(surf); SURFACE_HIT.clear(); CALL_COUNTS.clear(); PARAMS_VARIED.clear(); FLAG_SEEN.clear()
    except Exception as e:
        surf_failed = [f"{type(e).__name__}: {e}"[:200]]
    todo = list(plan(chk.tier, rng))
    pos, injected_planned = 0, False
    while True:
        if pos >= len(todo):
            if injected_planned:
                break
            todo.extend(plan_interrupts(chk.tier, rng)); injected_planned = True      # needs the call counts of the first pass
            continue
        (name, variant, dtype, seed) = todo[pos]; pos += 1
        r = run_config(name, variant, dtype, seed)
        if r["outcome"] == "crash" and r["detail"] == "timeout":      # loaded machine: never a verdict
            chk.hist("outcome", "skipped_timeout")
            continue
        if "!" in variant:
            chk.hist("interrupt", "raised inside the library" if r["injected"] else "call finished before the k-th internal call")
            if r["injected"]:
                chk.hist("interrupt_site", r["injected"])
                chk.hist("interrupt_changed_objects", len(r["changed"]))
            variant_kind = variant.partition("!")[0] + "!k"
        else:
            variant_kind = variant
        cid = len(cases)
        cases.append(case_literal(cid, r))
        meta.append((name, variant, dtype, seed, r["outcome"], [f"{p} ({w})" for _, p, w in r["changed"]]))
        n_objs = len(r["heap"].objs)
        chk.count(key=(name, variant_kind, dtype), nontrivial=n_objs > 0)
        if name.startswith("fuzz:"):
            chk.hist("fuzz_algorithm", r["spec"]["algo"]); chk.hist("fuzz_outcome", r["spec"]["algo"] + ":" + r["outcome"])
        chk.hist("outcome", r["outcome"]); chk.hist("variant", variant_kind); chk.hist("dtype", dtype)
        sk = r["spec"]["skel"]
        chk.hist("modelled", (sk[0].__name__ if callable(sk[0]) else sk[0]) if sk else "footprint-only")
        chk.hist("heap_objects", min(n_objs, 20))
        chk.hist("changed_objects", len(r["changed"]))
        if r["spec"]["inplace"]:
            chk.hist("inplace_documented_changed", bool(r["changed"]))
            EXC_SEEN.setdefault(exception_class(name), set()).add(name)
        if cid % 211 == 0:
            chk.sample({"config": name, "variant": variant, "dtype": dtype, "outcome": r["outcome"], "heap_objects": n_objs,
                        "changed": meta[-1][5], "paths": [o["path"] for o in r["heap"].objs][:12]})
        if r.get("write_attempts") and not predicate(r):
            chk.hist("write_attempts_without_visible_change", name)
            found = None
            for v2, d2, s2 in [("fresh", dtype, seed), ("fresh", dtype, seed + 1), ("transposed", dtype, seed + 2), ("sliced", "float32", seed + 3)]:
                r2 = run_config(name, v2, d2, s2)
                if r2 is not None and predicate(r2):
                    found = (v2, d2, s2, r2); break
            if not found:       # ... or an interruption point at which the temporary modification is still in place
                total = CALL_COUNTS.get((name, dtype, seed)) or CALL_COUNTS.get((name, "float64", 0)) or 0
                ks = list(range(1, total + 1)) if total <= 60 else sorted(random.Random(total).sample(range(1, total + 1), 60))
                for k in ks:
                    r2 = run_config(name, f"fresh!{k}", dtype, seed)
                    if r2 is not None and predicate(r2):
                        found = (f"fresh!{k}", dtype, seed, r2); break
            if found:
                v2, d2, s2, r2 = found
                chk.finding(r2["spec"].get("ep") or f"tensorly:{name}", {"config": name, "variant": v2, "dtype": d2, "data_seed": s2,
                                                                        "outcome": r2["outcome"], "detail": r2["detail"]}, predicate(r2), "C15_footprint")
            else:
                chk.disagreement("corr:C15 (write attempt through a protected argument: read-only array raised / protected list mutator called, "
                                 "although no value changed; the model has no write command on caller-owned objects)",
                                 {"config": name, "variant": variant, "dtype": dtype, "data_seed": seed, "outcome": r["outcome"], "write_attempts": r["write_attempts"][:5]})
        msg = predicate(r)
        if msg:
            chk.finding(r["spec"].get("ep") or f"tensorly:{name}", {"config": name, "variant": variant, "dtype": dtype, "data_seed": seed,
                                             "outcome": r["outcome"], "detail": r["detail"]}, msg, "C15_footprint")
    chk.notes.append(f"implementation calls: {len(cases)} in {time.time() - t_impl:.1f}s")
    if SURFACE:
        allq = sorted(set(SURFACE.values()))
        missing = [q for q in allq if q not in SURFACE_HIT]
        chk.cov["public_surface"] = {"packages": SURFACE_PACKAGES, "public_callables": len(allq), "executed_by_the_table": len(allq) - len(missing),
                                     "never_executed": missing, "modules_not_importable": surf_failed,
                                     "excluded_infrastructure": list(SURFACE_EXCLUDED)}
        allp = sorted((SURFACE[c], p_) for c, d_ in SURFACE_DEFAULTS.items() if c in SURFACE for p_ in d_)
        unvaried = [f"{q}({p_}=)" for q, p_ in allp if (q, p_) not in PARAMS_VARIED]
        chk.cov["public_surface"]["options_total"] = len(allp)
        chk.cov["public_surface"]["options_never_given_a_non_default_value"] = unvaried
        chk.notes.append(f"public options (parameters with a default, verbose / random_state aside): {len(allp) - len(unvaried)} of {len(allp)} seen with a non-default value")
        # in-place-style flags: every one must be in FLAG_MODEL (both values modelled) and both values must have been exercised
        flags_found = sorted({f"{SURFACE[c]}({p_})" for c, d_ in SURFACE_DEFAULTS.items() if c in SURFACE for p_ in d_ if p_ in FLAG_NAMES})
        seen = {f"{q}({p_})": sorted(v) for (q, p_), v in FLAG_SEEN.items()}
        chk.cov["inplace_style_flags"] = {k_: {"values_exercised": seen.get(k_, []), "model": FLAG_MODEL.get(k_)} for k_ in flags_found}
        for k_ in flags_found:
            if k_ not in FLAG_MODEL:
                chk.broken.append({"what": "in-place-style option without a model (harness/props/C15.py FLAG_MODEL)", "detail": k_})
            elif not {"True", "False"} <= set(seen.get(k_, [])):
                chk.broken.append({"what": "in-place-style option not exercised with both values", "detail": f"{k_}: {seen.get(k_, [])}"})
        for k_ in FLAG_MODEL:
            if k_ not in flags_found:
                chk.broken.append({"what": "modelled in-place-style option no longer exists in the library (FLAG_MODEL is stale)", "detail": k_})
        chk.notes.append(f"in-place-style flags: {len(flags_found)} found, all modelled both ways and exercised with both values" if not any("in-place-style" in b["what"] for b in chk.broken) else "in-place-style flags: see broken")
        chk.notes.append(f"public surface: {len(allq) - len(missing)} of {len(allq)} public callables executed by the table" +
                         (f"; NOT executed: {', '.join(missing[:12])}" if missing else ""))
    chk.cov["documented_in_place_exceptions"] = {"exceptions_of_the_property": {k_: sorted(EXC_SEEN.get(k_, [])) for k_ in EXCEPTION_CLASSES},
                                                 "receiver_semantics_not_exceptions": {k_: sorted(EXC_SEEN.get(k_, [])) for k_ in RECEIVER_CLASSES}}
    for n_ in sorted(EXC_SEEN.get("UNCLASSIFIED", [])):
        chk.broken.append({"what": "a configuration flags an argument as in-place outside the three documented exceptions / the receiver semantics", "detail": n_})
    for k_ in EXCEPTION_CLASSES:
        if not EXC_SEEN.get(k_):
            chk.broken.append({"what": "a documented in-place exception of the property is not exercised by the table", "detail": k_})
    try:
        srep, sbad = sensitivity_preconditions()
        chk.cov["sensitivity_preconditions_of_the_seeded_families"] = srep
        for b_ in sbad:
            chk.broken.append({"what": "generator lost a visibility condition of a seeded-defect family (Props C15_*_family)", "detail": b_})
    except Exception as e:
        chk.broken.append({"what": "sensitivity_preconditions crashed", "detail": f"{type(e).__name__}: {e}"[:300]})
    builder.join()
    failing, n_eval, broken = C.run_case_shards("C15", HEADER_CASES, "case", cases, shard=200)
    chk.checker_cmds.append("coqc (vm_compute) on generated build/cases/C15/*.v: Corr.C15.failing")
    chk.cov["traces_validated_against_impl"] = n_eval
    chk.cov["exhaustive"] = False
    chk.cov["rule"] = ("one case = one entry-point configuration of the table (decompositions, solvers, proximal operators, factorised-tensor "
                       "conversions, tensor algebra, metrics, preprocessing, regressors; user inits as tuple / list / wrapper object, masks, "
                       "fixed modes, coefficient lists, warm starts, calls made to fail) x argument kind (fresh / transposed view / slice of a "
                       "larger array with sentinel border / strided / read-only) x dtype, and once more made to RAISE at a random internal function call "
                       "(kind!k: a trace hook raises inside tensorly at the k-th call of a function defined under tensorly/); before/after deep snapshot of every object reachable from the "
                       "arguments; distinct key = (configuration, kind, dtype); non-trivial = at least one heap object reachable from the arguments")
    for b in broken:
        chk.broken.append({"what": "correspondence corr:C15 shard not evaluated", "detail": b})
    # static correspondence: aliasing skeletons extracted from the source of VERIF_REPO, judged by the proved analysis
    try:
        t_st = time.time()
        sdefs, scases, snames, sskipped, sex = static_cases(C.REPO, 6000 if chk.tier == "quick" else STATIC_CAP)
        # skeletons with few paths share one shard; the heavy ones (up to thousands of paths each) run four per shard
        light = [i for i, n_ in enumerate(snames) if n_["paths"] <= 50]
        heavy = [i for i, n_ in enumerate(snames) if n_["paths"] > 50]
        sfail, sn, sbroken = C.run_case_shards("C15", HEADER_STATIC + sdefs, "scase", [scases[i] for i in heavy], shard=4, timeout=600, tag="static")
        sfail2, sn2, sbroken2 = C.run_case_shards("C15", HEADER_STATIC + sdefs, "scase", [scases[i] for i in light], shard=60, timeout=600, tag="static_light")
        sfail, sn, sbroken = set(sfail) | set(sfail2), sn + sn2, list(sbroken) + list(sbroken2)
        chk.cov["static_skeletons_extracted_and_analysed"] = sn
        chk.cov["static_skipped"] = [f"{a} option set {b}: {c}" for a, b, c in sskipped]
        chk.cov["static_unresolved_constructs"] = dict(__import__("collections").Counter(sex.unresolved))
        chk.count(key=("static",), nontrivial=True, n=sn)
        chk.notes.append(f"static extraction + analysis: {sn} skeletons in {time.time() - t_st:.1f}s, {len(sskipped)} skipped (too many paths)")
        for n_ in snames:
            chk.hist("static: paths per extracted skeleton (log10)", len(str(n_["paths"])) - 1)
        for b in sbroken:
            chk.broken.append({"what": "correspondence corr:C15-static shard not evaluated", "detail": b})
        for i in sorted(sfail):
            chk.disagreement("corr:C15-static (aliasing skeleton extracted from the source: verdict of the proved analysis psafe_with differs from the expected one "
                             "/ from the hand-written skeleton)", snames[i])
        if snames:
            chk.sample({"static": snames[0], "extracted": scases[0][:400]})
    except Exception as e:      # the extractor is machinery: its crash is never a verdict about TensorLy
        chk.broken.append({"what": "corr:C15-static extraction failed", "detail": f"{type(e).__name__}: {e}"[:500]})
    for i in sorted(failing):
        name, variant, dtype, seed, outcome, changed = meta[i]
        chk.disagreement("corr:C15 (skeleton footprint of Model/Effects.v vs observed mutation footprint)",
                         {"config": name, "variant": variant, "dtype": dtype, "data_seed": seed, "outcome": outcome, "observed_changed": changed})
    chk.assumptions = ["the snapshot sees every caller-owned object: arrays (whole base buffer), lists, tuples, dicts, tensorly wrapper objects; "
                       "other Python objects (callables, RandomState instances) are outside the statement",
                       "a replaced container entry with a bit-identical value is not a change (the property compares with a deep copy)",
                       "hand-written skeletons are abstractions (one path per option set; parafac / HALS / tucker / estimator fit generic in the order, "
                       "the number of sweeps and the list lengths) tied to the code through footprints and through the verdict comparison with the "
                       "skeletons regenerated from the source (corr:C15-static)",
                       "the receiver of an estimator's fit / fit_transform and of CPTensor / TuckerTensor.normalize() counts as documented in-place",
                       "an injected interruption is an exception raised at the entry of an internal Python-level function of tensorly"]
    chk.trusted = ["NumPy base-buffer identity (ndarray.base chain) as the notion of buffer identity",
                   "the ast translator behind corr:C15-static (unknown callees pure and fresh-returning, callee summaries, peepholes, backward slice)",
                   "list lengths / orders handed to the order-generic skeletons are computed by the harness from the call"]
    return chk.finish(CLASSIFIERS)


def replay(payload):
    if payload.get("kind") != "failing-input":
        print("replay file names a broken theorem/correspondence, not an input:", payload.get("theorem_or_correspondence"))
        return 1
    inp = payload["inputs"]
    r = run_config(inp["config"], inp["variant"], inp["dtype"], int(inp["data_seed"]))
    if r is None:
        print("replay: configuration not in the table any more")
        return 1
    msg = predicate(r)
    print("replay:", inp["config"], inp["variant"], inp["dtype"], "->", msg or "holds", f"(outcome {r['outcome']})")
    return 1 if msg else 0


if __name__ == "__main__":     # development aid: outcome of every configuration
    E = entry_points()
    for n in E:
        for v in (sys.argv[1:] or ["fresh"]):
            t = time.time()
            r = run_config(n, v, "float64", 0)
            print(f"{n:45s} {v:10s} {r['outcome']:6s} {time.time() - t:5.2f}s objs={len(r['heap'].objs):2d} changed={[(p, w) for _, p, w in r['changed']]} {'' if r['outcome'] == 'ok' else r['detail'][:90]}")
